/* nqshim.so - LD_PRELOAD instrumentation for notqmail programs (DESIGN.md 2.3/2.4).
 *
 * What it does, all optional and driven by environment variables:
 *   virtual clock      NQV_CLOCK=<file>   8-byte little-endian seconds at offset 0 (mmap, shared),
 *                                         a global event sequence counter at offset 8
 *   coherent stamps    files created / closed-after-writing below NQV_HOME get atime=mtime=vnow
 *   event log          NQV_LOG=<file>     one JSON line per observed call (appended, atomic writes)
 *                      NQV_TRACE=<letters> classes to observe: m mutations, r reads, s select,
 *                                         d directory reads, p process, a alarm, i identity, l locks,
 *                                         o read-only opens below the home, t stat/lstat below the home
 *   fault plan         NQV_PLAN=<prog>:<k>:<action>[;...]  at the k-th counted call (classes in
 *                      NQV_COUNT, default "m") of a process whose program name is <prog> (or *):
 *                      kill | fail=<errno> | short=<n> | sig=<signal number>
 *   gates              NQV_GATE=<unix socket>  calls of classes NQV_GATECLS of programs listed in
 *                      NQV_GATEPROG (comma separated, * = all) stop before executing and wait
 *                      for the controller's decision: g | k | f <errno> | s <n>
 *                      select() of gated programs is always reported and then *polled* (zero
 *                      timeout), so the controller owns time.
 *   passwd             NQV_PASSWD=<file>  getpwnam/getpwuid answered from this file
 *   alarms             with NQV_CLOCK set, alarm(n) is reported (class a) and not armed in real
 *                      time; the controller delivers SIGALRM when the virtual clock passes it.
 *
 * The shim never interprets property semantics; it moves processes and reports facts.
 */
#define _GNU_SOURCE
#include <dlfcn.h>
#include <dirent.h>
#include <errno.h>
#include <fcntl.h>
#include <pwd.h>
#include <signal.h>
#include <poll.h>
#include <stdarg.h>
#include <stdint.h>
#include <stdio.h>
#include <stdlib.h>
#include <string.h>
#include <sys/file.h>
#include <sys/mman.h>
#include <sys/select.h>
#include <sys/socket.h>
#include <sys/stat.h>
#include <sys/time.h>
#include <sys/types.h>
#include <sys/un.h>
#include <time.h>
#include <unistd.h>
#include <utime.h>
#include <grp.h>

struct shared { volatile int64_t vnow; volatile uint64_t seq; };
static struct shared *sh;

static int inited, initing;
static char home[4096]; static size_t homelen;
static char role[64] = "-", prog[64] = "?";
static char trace[32], gatecls[32], countcls[32] = "m";
static int logfd = -1, gatefd = -1, gated_prog, datacap = 64, readchunk;
static pid_t mypid;
static long ncount;           /* counted calls of this process image (inherited over fork) */
static char planbuf[1024];
static const char *gatepath;
static char pwfile[1024];
static unsigned char fdkind[1024];  /* 0 unknown 1 regular 2 named fifo 3 other */

#define REAL(ret, name, ...) static ret (*r_##name)(__VA_ARGS__)
REAL(int, open, const char *, int, ...);
REAL(int, open64, const char *, int, ...);
REAL(int, openat, int, const char *, int, ...);
REAL(ssize_t, write, int, const void *, size_t);
REAL(ssize_t, read, int, void *, size_t);
REAL(int, close, int);
REAL(int, fsync, int);
REAL(int, fdatasync, int);
REAL(int, link, const char *, const char *);
REAL(int, unlink, const char *);
REAL(int, rename, const char *, const char *);
REAL(int, ftruncate, int, off_t);
REAL(int, utime, const char *, const struct utimbuf *);
REAL(int, utimes, const char *, const struct timeval *);
REAL(int, flock, int, int);
REAL(int, mkdir, const char *, mode_t);
REAL(int, chmod, const char *, mode_t);
REAL(int, dup2, int, int);
REAL(DIR *, opendir, const char *);
REAL(struct dirent *, readdir, DIR *);
REAL(int, closedir, DIR *);
REAL(int, select, int, fd_set *, fd_set *, fd_set *, struct timeval *);
REAL(unsigned, alarm, unsigned);
REAL(unsigned, sleep, unsigned);
REAL(pid_t, fork, void);
REAL(int, execve, const char *, char *const *, char *const *);
REAL(void, _exit, int);
REAL(int, setuid, uid_t);
REAL(int, setgid, gid_t);
REAL(int, setgroups, size_t, const gid_t *);
REAL(int, initgroups, const char *, gid_t);
REAL(time_t, time, time_t *);

static void *sym(const char *n) { void *p = dlsym(RTLD_NEXT, n); return p; }
#define NEED(name) do { if (!r_##name) r_##name = sym(#name); } while (0)

static int has(const char *set, char c) { return strchr(set, c) != 0; }

static void shim_init(void)
{
  const char *e; int fd;
  if (inited || initing) return;
  initing = 1;
  NEED(open); NEED(close); NEED(write); NEED(read);
  mypid = getpid();
  if ((e = getenv("NQV_HOME"))) { strncpy(home, e, sizeof home - 1); homelen = strlen(home); }
  if ((e = getenv("NQV_ROLE"))) strncpy(role, e, sizeof role - 1);
  if ((e = getenv("NQV_TRACE"))) strncpy(trace, e, sizeof trace - 1);
  if ((e = getenv("NQV_GATECLS"))) strncpy(gatecls, e, sizeof gatecls - 1);
  if ((e = getenv("NQV_COUNT"))) strncpy(countcls, e, sizeof countcls - 1);
  if ((e = getenv("NQV_PLAN"))) strncpy(planbuf, e, sizeof planbuf - 1);
  if ((e = getenv("NQV_PASSWD"))) strncpy(pwfile, e, sizeof pwfile - 1);
  if ((e = getenv("NQV_DATACAP"))) datacap = atoi(e);
  if ((e = getenv("NQV_READCHUNK"))) readchunk = atoi(e);   /* reads of descriptors 0 and 1 return at most this many bytes */
  {
    char b[4096]; ssize_t n = readlink("/proc/self/exe", b, sizeof b - 1);
    if (n > 0) { char *s; b[n] = 0; s = strrchr(b, '/'); strncpy(prog, s ? s + 1 : b, sizeof prog - 1); }
  }
  if ((e = getenv("NQV_CLOCK")) && *e) {
    fd = r_open(e, O_RDWR);
    if (fd >= 0) {
      void *m = mmap(0, 4096, PROT_READ | PROT_WRITE, MAP_SHARED, fd, 0);
      r_close(fd);
      if (m != MAP_FAILED) sh = m;
    }
  }
  if ((e = getenv("NQV_LOG")) && *e) {
    fd = r_open(e, O_WRONLY | O_APPEND | O_CREAT, 0644);
    if (fd >= 0) { logfd = fcntl(fd, F_DUPFD_CLOEXEC, 900); r_close(fd); }
  }
  gatepath = getenv("NQV_GATE");
  if (gatepath && *gatepath) {
    const char *g = getenv("NQV_GATEPROG");
    if (!g || !*g || !strcmp(g, "*")) gated_prog = 1;
    else {
      const char *p = g; size_t l = strlen(prog);
      while (*p) {
        const char *q = strchr(p, ','); size_t n = q ? (size_t) (q - p) : strlen(p);
        if (n == l && !memcmp(p, prog, l)) gated_prog = 1;
        p += n; if (*p == ',') p++;
      }
    }
  } else gatepath = 0;
  inited = 1; initing = 0;
}

static int64_t vnow(void) { return sh ? sh->vnow : 0; }
static uint64_t nextseq(void) { return sh ? __atomic_add_fetch(&sh->seq, 1, __ATOMIC_SEQ_CST) : 0; }

/* ----- event formatting --------------------------------------------------------------- */
struct ev { char b[2048]; size_t n; };
static void ev_raw(struct ev *e, const char *s) { size_t l = strlen(s); if (e->n + l < sizeof e->b) { memcpy(e->b + e->n, s, l); e->n += l; } }
static void ev_int(struct ev *e, const char *k, long long v) { char t[96]; snprintf(t, sizeof t, ",\"%s\":%lld", k, v); ev_raw(e, t); }
static void ev_str(struct ev *e, const char *k, const char *v)
{
  char t[1200]; size_t i, j = 0;
  j += snprintf(t, sizeof t, ",\"%s\":\"", k);
  for (i = 0; v[i] && j < sizeof t - 8; i++) {
    unsigned char c = v[i];
    if (c == '"' || c == '\\') { t[j++] = '\\'; t[j++] = c; }
    else if (c < 32 || c > 126) j += snprintf(t + j, 8, "\\u%04x", c);
    else t[j++] = c;
  }
  t[j++] = '"'; t[j] = 0; ev_raw(e, t);
}
static void ev_hex(struct ev *e, const char *k, const void *p, size_t n)
{
  static const char h[] = "0123456789abcdef"; char t[600]; size_t i, j = 0; const unsigned char *s = p;
  if (n > (size_t) datacap) n = datacap;
  if (n > 256) n = 256;
  j += snprintf(t, sizeof t, ",\"%s\":\"", k);
  for (i = 0; i < n; i++) { t[j++] = h[s[i] >> 4]; t[j++] = h[s[i] & 15]; }
  t[j++] = '"'; t[j] = 0; ev_raw(e, t);
}
static void ev_begin(struct ev *e, const char *call)
{
  char t[256];
  e->n = 0;
  if (getpid() != mypid) { mypid = getpid(); if (gatefd >= 0) { r_close(gatefd); gatefd = -1; } }
  snprintf(t, sizeof t, "{\"p\":%d,\"r\":\"%s\",\"g\":\"%s\",\"n\":%ld,\"t\":%lld,\"c\":\"%s\"",
           (int) mypid, role, prog, ncount, (long long) vnow(), call);
  ev_raw(e, t);
}
static const char *relpath(const char *p, char *buf, size_t n)
{
  /* absolute paths below home are made relative to home; relative ones are resolved against cwd */
  if (p[0] != '/') {
    char cwd[4096];
    if (getcwd(cwd, sizeof cwd)) { snprintf(buf, n, "%s/%s", cwd, p); p = buf; }
  }
  if (homelen && !strncmp(p, home, homelen) && p[homelen] == '/') return p + homelen + 1;
  return p;
}
static void ev_path(struct ev *e, const char *k, const char *p) { char b[8300]; ev_str(e, k, relpath(p, b, sizeof b)); }
static void ev_fdpath(struct ev *e, int fd)
{
  char l[64], b[4200]; ssize_t n;
  snprintf(l, sizeof l, "/proc/self/fd/%d", fd);
  n = readlink(l, b, sizeof b - 1);
  if (n > 0) { b[n] = 0; ev_path(e, "path", b); }
  { struct stat st; if (fstat(fd, &st) == 0) { ev_int(e, "ino", st.st_ino); ev_int(e, "size", st.st_size); } }
}
static void ev_emit(struct ev *e, int to_gate)
{
  char t[64];
  snprintf(t, sizeof t, ",\"q\":%llu}\n", (unsigned long long) nextseq());
  ev_raw(e, t);
  if (to_gate && gatefd >= 0) { size_t o = 0; while (o < e->n) { ssize_t w = r_write(gatefd, e->b + o, e->n - o); if (w <= 0) { if (w < 0 && errno == EINTR) continue; break; } o += w; } }
  if (logfd >= 0) r_write(logfd, e->b, e->n);
}

/* ----- gate connection ----------------------------------------------------------------- */
static int gate_connect(void)
{
  struct sockaddr_un a; int fd; struct ev e;
  if (gatefd >= 0 && getpid() == mypid) return 0;
  if (gatefd >= 0) { r_close(gatefd); gatefd = -1; }
  fd = socket(AF_UNIX, SOCK_STREAM | SOCK_CLOEXEC, 0);
  if (fd < 0) return -1;
  memset(&a, 0, sizeof a); a.sun_family = AF_UNIX; strncpy(a.sun_path, gatepath, sizeof a.sun_path - 1);
  if (connect(fd, (struct sockaddr *) &a, sizeof a) < 0) { r_close(fd); return -1; }
  gatefd = fcntl(fd, F_DUPFD_CLOEXEC, 901); r_close(fd);
  if (gatefd < 0) return -1;
  ev_begin(&e, "hello"); ev_emit(&e, 1);
  return 0;
}
/* read one decision line; returns 0 ok, -1 on EINTR (signal arrived while waiting), -2 on EOF */
static int gate_wait(char *line, size_t n, int intr_ok)
{
  size_t k = 0;
  for (;;) {
    char c; ssize_t r = r_read(gatefd, &c, 1);
    if (r < 0) { if (errno == EINTR) { if (intr_ok && k == 0) return -1; continue; } return -2; }
    if (r == 0) return -2;
    if (c == '\n') { line[k] = 0; return 0; }
    if (k + 1 < n) line[k++] = c;
  }
}

/* ----- decision for one counted call --------------------------------------------------- */
enum { ACT_GO, ACT_KILL, ACT_FAIL, ACT_SHORT, ACT_SIG };
struct decision { int act; int err; long n; };

static int errno_by_name(const char *s)
{
  static const struct { const char *n; int v; } t[] = {
    {"ENOSPC", ENOSPC}, {"EIO", EIO}, {"EMFILE", EMFILE}, {"ENFILE", ENFILE}, {"EEXIST", EEXIST}, {"ENOENT", ENOENT},
    {"EACCES", EACCES}, {"EINTR", EINTR}, {"ENOMEM", ENOMEM}, {"EDQUOT", EDQUOT}, {"EAGAIN", EAGAIN}, {"EPIPE", EPIPE},
    {"EPERM", EPERM}, {"EINVAL", EINVAL}, {"ENOSYS", ENOSYS}, {"EROFS", EROFS}, {"EFBIG", EFBIG}, {"EMLINK", EMLINK}, {"EBUSY", EBUSY}, {"ENOTDIR", ENOTDIR}, {"EISDIR", EISDIR}, {0, 0} };
  int i;
  for (i = 0; t[i].n; i++) if (!strcmp(t[i].n, s)) return t[i].v;
  return atoi(s) ? atoi(s) : EIO;
}
static void parse_action(const char *a, struct decision *d)
{
  d->act = ACT_GO; d->err = 0; d->n = 0;
  if (!strncmp(a, "kill", 4) || a[0] == 'k') d->act = ACT_KILL;
  else if (!strncmp(a, "sig=", 4)) { d->act = ACT_SIG; d->n = atol(a + 4); }
  else if (!strncmp(a, "fail=", 5)) { d->act = ACT_FAIL; d->err = errno_by_name(a + 5); }
  else if (a[0] == 'f' && a[1] == ' ') { d->act = ACT_FAIL; d->err = errno_by_name(a + 2); }
  else if (!strncmp(a, "short=", 6)) { d->act = ACT_SHORT; d->n = atol(a + 6); }
  else if (a[0] == 's' && a[1] == ' ') { d->act = ACT_SHORT; d->n = atol(a + 2); }
}
static void plan_lookup(struct decision *d)
{
  const char *p = planbuf;
  d->act = ACT_GO;
  while (*p) {
    char ent[128]; const char *q = strchr(p, ';'); size_t n = q ? (size_t) (q - p) : strlen(p);
    char *c1, *c2;
    if (n >= sizeof ent) n = sizeof ent - 1;
    memcpy(ent, p, n); ent[n] = 0;
    c1 = strchr(ent, ':');
    if (c1) {
      *c1++ = 0; c2 = strchr(c1, ':');
      if (c2) {
        *c2++ = 0;
        if ((!strcmp(ent, "*") || !strcmp(ent, prog)) && atol(c1) == ncount) { parse_action(c2, d); return; }
      }
    }
    p += n; if (*p == ';') p++;
  }
}

/* Called at the entry of an observed call of class `cls`.  Fills *d.  The event `e` already
   describes the call.  Returns with d->act; ACT_KILL never returns. */
static void pre(char cls, struct ev *e, struct decision *d)
{
  d->act = ACT_GO;
  if (has(countcls, cls)) {
    ncount++;
    if (planbuf[0]) plan_lookup(d);
  }
  if (d->act == ACT_GO && gatepath && gated_prog && has(gatecls, cls)) {
    if (gate_connect() == 0) {
      struct ev g = *e; char line[64]; int r;
      ev_int(&g, "n2", ncount); ev_raw(&g, ",\"ph\":\"enter\"");
      { int save = logfd; logfd = -1; ev_emit(&g, 1); logfd = save; }
      r = gate_wait(line, sizeof line, 0);
      if (r == 0) parse_action(line, d); else if (r == -2) { NEED(_exit); r__exit(97); }
    }
  }
  if (d->act == ACT_SIG) {
    /* a catchable signal arrives just before this call: the program's own handler (or the default
       action) decides what happens; if the process survives, the call is made as usual */
    struct ev k = *e;
    ev_int(&k, "n2", ncount); ev_raw(&k, ",\"inj\":\"sig\""); ev_int(&k, "signo", d->n);
    ev_emit(&k, gatepath && gated_prog);
    kill(getpid(), (int) d->n);
    d->act = ACT_GO;
  }
  if (d->act == ACT_KILL) {
    struct ev k = *e;
    ev_int(&k, "n2", ncount); ev_raw(&k, ",\"inj\":\"kill\"");
    ev_emit(&k, gatepath && gated_prog);
    kill(getpid(), SIGKILL);
    for (;;) pause();
  }
}
static void post(char cls, struct ev *e, struct decision *d, long long ret, int err)
{
  int g = gatepath && gated_prog && has(gatecls, cls) && gatefd >= 0;
  if (!has(trace, cls) && !g) return;
  ev_int(e, "n2", ncount);
  ev_int(e, "ret", ret);
  if (ret < 0) ev_int(e, "err", err);
  if (d && d->act == ACT_FAIL) ev_raw(e, ",\"inj\":\"fail\"");
  if (d && d->act == ACT_SHORT) ev_raw(e, ",\"inj\":\"short\"");
  if (g) ev_raw(e, ",\"ph\":\"exit\"");
  ev_emit(e, g);
}
static int watching(char cls)
{
  shim_init();
  if (!inited) return 0;
  return has(trace, cls) || (has(countcls, cls) && planbuf[0]) || (gatepath && gated_prog && has(gatecls, cls));
}

/* ----- classification of descriptors ---------------------------------------------------- */
static int kind_of(int fd)
{
  struct stat st;
  if (fd < 0) return 3;
  if (fd < 1024 && fdkind[fd]) return fdkind[fd];
  {
    int k = 3;
    if (fstat(fd, &st) == 0) {
      if (S_ISREG(st.st_mode)) k = 1;
      else if (S_ISFIFO(st.st_mode)) {
        char l[64], b[64]; ssize_t n;
        snprintf(l, sizeof l, "/proc/self/fd/%d", fd);
        n = readlink(l, b, sizeof b - 1);
        k = (n > 5 && !memcmp(b, "pipe:", 5)) ? 3 : 2;
      }
    }
    if (fd < 1024) fdkind[fd] = k;
    return k;
  }
}
static int under_home_fd(int fd)
{
  char l[64], b[4200]; ssize_t n;
  if (!homelen) return 0;
  snprintf(l, sizeof l, "/proc/self/fd/%d", fd);
  n = readlink(l, b, sizeof b - 1);
  if (n <= 0) return 0;
  b[n] = 0;
  return !strncmp(b, home, homelen);
}
static unsigned char wropen[1024];
static unsigned char rdopen[1024];   /* read-only descriptors of regular files below the home: atime follows the virtual clock */
static void stamp_atime(int fd)
{
  struct timespec ts[2];
  if (!sh) return;
  ts[0].tv_sec = sh->vnow; ts[0].tv_nsec = 0;
  ts[1].tv_sec = 0; ts[1].tv_nsec = UTIME_OMIT;
  futimens(fd, ts);
}
static void stamp(int fd)
{
  struct timespec ts[2];
  if (!sh) return;
  ts[0].tv_sec = ts[1].tv_sec = sh->vnow; ts[0].tv_nsec = ts[1].tv_nsec = 0;
  futimens(fd, ts);
}

/* ===== interposed functions =============================================================== */

time_t time(time_t *t)
{
  time_t v;
  shim_init();
  if (sh) v = (time_t) sh->vnow;
  else { NEED(time); v = r_time(0); }
  if (t) *t = v;
  return v;
}

static int open_common(int which, int dirfd, const char *path, int flags, mode_t mode)
{
  int fd, mut, w; struct ev e; struct decision d; d.act = ACT_GO;
  shim_init();
  mut = (flags & (O_CREAT | O_TRUNC)) != 0 || (flags & O_ACCMODE) != O_RDONLY || strstr(path, "lock/trigger") != 0;
  w = inited && mut && watching('m');
  if (inited && !mut && watching('o') && (path[0] != '/' || (homelen && !strncmp(path, home, homelen)))) {
    /* class o: read-only opens of files below the home (pass opening, info reads) */
    int se;
    ev_begin(&e, "openr"); ev_path(&e, "path", path);
    pre('o', &e, &d);
    if (d.act == ACT_FAIL) { errno = d.err; post('o', &e, &d, -1, d.err); return -1; }
    if (which == 0) { NEED(open); fd = r_open(path, flags, mode); }
    else if (which == 1) { NEED(open64); fd = r_open64(path, flags, mode); }
    else { NEED(openat); fd = r_openat(dirfd, path, flags, mode); }
    se = errno;
    if (fd >= 0 && fd < 1024) { fdkind[fd] = 0; wropen[fd] = 0; rdopen[fd] = (sh && kind_of(fd) == 1 && under_home_fd(fd)); }
    if (fd >= 0) { struct stat st; if (fstat(fd, &st) == 0) { ev_int(&e, "ino", st.st_ino); ev_int(&e, "mtime", st.st_mtime); } }
    ev_int(&e, "fd", fd); post('o', &e, &d, fd, se);
    errno = se;
    return fd;
  }
  if (w) {
    ev_begin(&e, "open"); ev_path(&e, "path", path); ev_int(&e, "flags", flags);
    if (flags & O_CREAT) ev_int(&e, "creat", 1);
    if (flags & O_EXCL) ev_int(&e, "excl", 1);
    if (flags & O_TRUNC) ev_int(&e, "trunc", 1);
    pre('m', &e, &d);
    if (d.act == ACT_FAIL) { errno = d.err; post('m', &e, &d, -1, d.err); return -1; }
  }
  if (which == 0) { NEED(open); fd = r_open(path, flags, mode); }
  else if (which == 1) { NEED(open64); fd = r_open64(path, flags, mode); }
  else { NEED(openat); fd = r_openat(dirfd, path, flags, mode); }
  {
    int se = errno;
    if (fd >= 0 && fd < 1024) {
      fdkind[fd] = 0; wropen[fd] = 0; rdopen[fd] = 0;
      if ((flags & O_ACCMODE) == O_RDONLY && sh && kind_of(fd) == 1 && under_home_fd(fd)) rdopen[fd] = 1;
      if ((flags & O_ACCMODE) != O_RDONLY && sh && kind_of(fd) == 1 && under_home_fd(fd)) {
        wropen[fd] = 1;
        if (flags & O_CREAT) stamp(fd);
      }
    }
    if (w) {
      ev_int(&e, "fd", fd);
      if (fd >= 0) { struct stat st; if (fstat(fd, &st) == 0) { ev_int(&e, "ino", st.st_ino); ev_int(&e, "size", st.st_size); } }
      post('m', &e, &d, fd, se);
    }
    errno = se;
  }
  return fd;
}
int open(const char *path, int flags, ...)
{
  mode_t m = 0;
  if (flags & (O_CREAT | O_TMPFILE)) { va_list ap; va_start(ap, flags); m = va_arg(ap, mode_t); va_end(ap); }
  return open_common(0, 0, path, flags, m);
}
int open64(const char *path, int flags, ...)
{
  mode_t m = 0;
  if (flags & (O_CREAT | O_TMPFILE)) { va_list ap; va_start(ap, flags); m = va_arg(ap, mode_t); va_end(ap); }
  return open_common(1, 0, path, flags, m);
}
int openat(int dirfd, const char *path, int flags, ...)
{
  mode_t m = 0;
  if (flags & (O_CREAT | O_TMPFILE)) { va_list ap; va_start(ap, flags); m = va_arg(ap, mode_t); va_end(ap); }
  return open_common(2, dirfd, path, flags, m);
}

int close(int fd)
{
  int r, w; struct ev e; struct decision d; d.act = ACT_GO;
  shim_init();
  NEED(close);
  if (!inited) return r_close(fd);
  if (fd == logfd || (fd == gatefd && fd >= 0)) { errno = EBADF; return -1; }
  w = fd >= 0 && fd < 1024 && (wropen[fd] || kind_of(fd) == 2) && watching('m');
  if (w) {
    ev_begin(&e, "close"); ev_int(&e, "fd", fd); ev_fdpath(&e, fd);
    pre('m', &e, &d);
  }
  if (fd >= 0 && fd < 1024 && wropen[fd]) { stamp(fd); wropen[fd] = 0; }
  if (fd >= 0 && fd < 1024 && rdopen[fd]) { stamp_atime(fd); rdopen[fd] = 0; }
  if (w && d.act == ACT_FAIL) {
    /* the descriptor is released as the kernel would, the error is reported to the caller */
    r_close(fd); if (fd < 1024) fdkind[fd] = 0;
    errno = d.err; post('m', &e, &d, -1, d.err); return -1;
  }
  r = r_close(fd);
  { int se = errno; if (fd >= 0 && fd < 1024) fdkind[fd] = 0; if (w) post('m', &e, &d, r, se); errno = se; }
  return r;
}

int dup2(int a, int b)
{
  int r;
  shim_init(); NEED(dup2);
  r = r_dup2(a, b);
  if (r >= 0 && r < 1024) { fdkind[r] = 0; wropen[r] = rdopen[r] = 0; }
  return r;
}

ssize_t write(int fd, const void *buf, size_t n)
{
  ssize_t r; int k; struct ev e; struct decision d; d.act = ACT_GO;
  shim_init();
  NEED(write);
  if (!inited || fd == logfd || fd == gatefd) return r_write(fd, buf, n);
  k = kind_of(fd);
  if ((k == 1 || k == 2) && watching('m')) {
    off_t off = (k == 1) ? lseek(fd, 0, SEEK_CUR) : 0;
    if (k == 1) { int fl = fcntl(fd, F_GETFL); struct stat st; if (fl >= 0 && (fl & O_APPEND) && fstat(fd, &st) == 0) off = st.st_size; }
    ev_begin(&e, "write"); ev_int(&e, "fd", fd); ev_fdpath(&e, fd); ev_int(&e, "off", off); ev_int(&e, "len", n);
    ev_hex(&e, "data", buf, n);
    if (k == 1 && n <= 16) {
      /* previous content of an overwritten range (the descriptor is usually write-only) */
      unsigned char old[16]; ssize_t o = pread(fd, old, n, off);
      if (o <= 0) {
        char l[64]; int rfd;
        snprintf(l, sizeof l, "/proc/self/fd/%d", fd);
        rfd = r_open(l, O_RDONLY | O_NOATIME);
        if (rfd < 0) rfd = r_open(l, O_RDONLY);
        if (rfd >= 0) { o = pread(rfd, old, n, off); r_close(rfd); }
      }
      if (o > 0) ev_hex(&e, "old", old, o);
    }
    pre('m', &e, &d);
    if (d.act == ACT_FAIL) { errno = d.err; post('m', &e, &d, -1, d.err); return -1; }
    if (d.act == ACT_SHORT && (size_t) d.n < n) n = d.n;
    r = r_write(fd, buf, n);
    {
      int se = errno;
      /* keep the file's stamps on the virtual clock even if the process dies before close() */
      if (r > 0 && k == 1 && fd < 1024 && wropen[fd]) stamp(fd);
      post('m', &e, &d, r, se); errno = se;
    }
    return r;
  }
  r = r_write(fd, buf, n);
  if (r > 0 && sh && fd >= 0 && fd < 1024 && wropen[fd]) { int se = errno; stamp(fd); errno = se; }
  return r;
}

ssize_t read(int fd, void *buf, size_t n)
{
  ssize_t r; struct ev e; struct decision d; d.act = ACT_GO;
  shim_init();
  NEED(read);
  if (inited && readchunk > 0 && fd <= 1 && n > (size_t) readchunk) n = readchunk;
  if (!inited || fd == logfd || fd == gatefd || !watching('r')) return r_read(fd, buf, n);
  ev_begin(&e, "read"); ev_int(&e, "fd", fd); ev_int(&e, "len", n);
  if (kind_of(fd) == 1) ev_fdpath(&e, fd);
  pre('r', &e, &d);
  if (d.act == ACT_FAIL) { errno = d.err; post('r', &e, &d, -1, d.err); return -1; }
  if (d.act == ACT_SHORT && (size_t) d.n < n) n = d.n;
  r = r_read(fd, buf, n);
  { int se = errno; post('r', &e, &d, r, se); errno = se; }
  return r;
}

#define SIMPLE_FD(name, CALLEXPR) \
  { int r; struct ev e; struct decision d; d.act = ACT_GO; shim_init(); NEED(name); \
    if (!inited || !watching('m')) return CALLEXPR; \
    ev_begin(&e, #name); ev_int(&e, "fd", fd); ev_fdpath(&e, fd);

int fsync(int fd)
SIMPLE_FD(fsync, r_fsync(fd))
    pre('m', &e, &d);
    if (d.act == ACT_FAIL) { errno = d.err; post('m', &e, &d, -1, d.err); return -1; }
    r = r_fsync(fd); { int se = errno; post('m', &e, &d, r, se); errno = se; } return r; }

int fdatasync(int fd)
SIMPLE_FD(fdatasync, r_fdatasync(fd))
    pre('m', &e, &d);
    if (d.act == ACT_FAIL) { errno = d.err; post('m', &e, &d, -1, d.err); return -1; }
    r = r_fdatasync(fd); { int se = errno; post('m', &e, &d, r, se); errno = se; } return r; }

int ftruncate(int fd, off_t len)
SIMPLE_FD(ftruncate, r_ftruncate(fd, len))
    ev_int(&e, "len", len);
    pre('m', &e, &d);
    if (d.act == ACT_FAIL) { errno = d.err; post('m', &e, &d, -1, d.err); return -1; }
    r = r_ftruncate(fd, len); { int se = errno; post('m', &e, &d, r, se); errno = se; } return r; }

int flock(int fd, int op)
{
  int r; struct ev e; struct decision d; d.act = ACT_GO; shim_init(); NEED(flock);
  if (!inited || !watching('l')) return r_flock(fd, op);
  ev_begin(&e, "flock"); ev_int(&e, "fd", fd); ev_fdpath(&e, fd); ev_int(&e, "op", op);
  pre('l', &e, &d);
  if (d.act == ACT_FAIL) { errno = d.err; post('l', &e, &d, -1, d.err); return -1; }
  r = r_flock(fd, op); { int se = errno; post('l', &e, &d, r, se); errno = se; } return r;
}

#define PATH2(name, a, b) \
  int name(const char *a, const char *b) \
  { int r; struct ev e; struct decision d; d.act = ACT_GO; shim_init(); NEED(name); \
    if (!inited || !watching('m')) return r_##name(a, b); \
    ev_begin(&e, #name); ev_path(&e, "path", a); ev_path(&e, "path2", b); \
    pre('m', &e, &d); \
    if (d.act == ACT_FAIL) { errno = d.err; post('m', &e, &d, -1, d.err); return -1; } \
    r = r_##name(a, b); { int se = errno; post('m', &e, &d, r, se); errno = se; } return r; }
PATH2(link, a, b)
PATH2(rename, a, b)

int unlink(const char *p)
{
  int r; struct ev e; struct decision d; d.act = ACT_GO; shim_init(); NEED(unlink);
  if (!inited || !watching('m')) return r_unlink(p);
  ev_begin(&e, "unlink"); ev_path(&e, "path", p);
  pre('m', &e, &d);
  if (d.act == ACT_FAIL) { errno = d.err; post('m', &e, &d, -1, d.err); return -1; }
  r = r_unlink(p); { int se = errno; post('m', &e, &d, r, se); errno = se; } return r;
}
int mkdir(const char *p, mode_t m)
{
  int r; struct ev e; struct decision d; d.act = ACT_GO; shim_init(); NEED(mkdir);
  if (!inited || !watching('m')) return r_mkdir(p, m);
  ev_begin(&e, "mkdir"); ev_path(&e, "path", p);
  pre('m', &e, &d);
  if (d.act == ACT_FAIL) { errno = d.err; post('m', &e, &d, -1, d.err); return -1; }
  r = r_mkdir(p, m); { int se = errno; post('m', &e, &d, r, se); errno = se; } return r;
}
int chmod(const char *p, mode_t m)
{
  int r; struct ev e; struct decision d; d.act = ACT_GO; shim_init(); NEED(chmod);
  if (!inited || !watching('m')) return r_chmod(p, m);
  ev_begin(&e, "chmod"); ev_path(&e, "path", p); ev_int(&e, "mode", m);
  pre('m', &e, &d);
  if (d.act == ACT_FAIL) { errno = d.err; post('m', &e, &d, -1, d.err); return -1; }
  r = r_chmod(p, m); { int se = errno; post('m', &e, &d, r, se); errno = se; } return r;
}
int utime(const char *p, const struct utimbuf *t)
{
  int r; struct ev e; struct decision d; d.act = ACT_GO; shim_init(); NEED(utime);
  if (!inited || !watching('m')) return r_utime(p, t);
  ev_begin(&e, "utime"); ev_path(&e, "path", p); if (t) { ev_int(&e, "atime", t->actime); ev_int(&e, "mtime", t->modtime); }
  pre('m', &e, &d);
  if (d.act == ACT_FAIL) { errno = d.err; post('m', &e, &d, -1, d.err); return -1; }
  r = r_utime(p, t); { int se = errno; post('m', &e, &d, r, se); errno = se; } return r;
}
int utimes(const char *p, const struct timeval *t)
{
  int r; struct ev e; struct decision d; d.act = ACT_GO; shim_init(); NEED(utimes);
  if (!inited || !watching('m')) return r_utimes(p, t);
  ev_begin(&e, "utime"); ev_path(&e, "path", p); if (t) { ev_int(&e, "atime", t[0].tv_sec); ev_int(&e, "mtime", t[1].tv_sec); }
  pre('m', &e, &d);
  if (d.act == ACT_FAIL) { errno = d.err; post('m', &e, &d, -1, d.err); return -1; }
  r = r_utimes(p, t); { int se = errno; post('m', &e, &d, r, se); errno = se; } return r;
}

/* ----- stat (class t): observed / faultable only for paths below the home ------------------ */
static int stat_common(int which, const char *p, struct stat *st)
{
  static int (*r_stat)(const char *, struct stat *); static int (*r_lstat)(const char *, struct stat *);
  int r; struct ev e; struct decision d; d.act = ACT_GO;
  shim_init();
  if (!r_stat) r_stat = sym("stat");
  if (!r_lstat) r_lstat = sym("lstat");
  if (!inited || !watching('t') || !(p[0] != '/' || (homelen && !strncmp(p, home, homelen))))
    return which ? r_lstat(p, st) : r_stat(p, st);
  ev_begin(&e, which ? "lstat" : "stat"); ev_path(&e, "path", p);
  pre('t', &e, &d);
  if (d.act == ACT_FAIL) { errno = d.err; post('t', &e, &d, -1, d.err); return -1; }
  r = which ? r_lstat(p, st) : r_stat(p, st);
  { int se = errno; post('t', &e, &d, r, se); errno = se; }
  return r;
}
int stat(const char *p, struct stat *st) { return stat_common(0, p, st); }
int lstat(const char *p, struct stat *st) { return stat_common(1, p, st); }

/* ----- directory reads -------------------------------------------------------------------- */
DIR *opendir(const char *p)
{
  DIR *r; struct ev e; struct decision d; d.act = ACT_GO; shim_init(); NEED(opendir);
  if (!inited || !watching('d')) return r_opendir(p);
  ev_begin(&e, "opendir"); ev_path(&e, "path", p);
  pre('d', &e, &d);
  if (d.act == ACT_FAIL) { errno = d.err; post('d', &e, &d, -1, d.err); return 0; }
  r = r_opendir(p); { int se = errno; post('d', &e, &d, r ? 0 : -1, se); errno = se; } return r;
}
struct dirent *readdir(DIR *dp)
{
  struct dirent *r; struct ev e; struct decision d; d.act = ACT_GO; shim_init(); NEED(readdir);
  if (!inited || !watching('d')) return r_readdir(dp);
  ev_begin(&e, "readdir"); ev_int(&e, "fd", dirfd(dp)); ev_fdpath(&e, dirfd(dp));
  pre('d', &e, &d);
  if (d.act == ACT_FAIL) { errno = d.err; post('d', &e, &d, -1, d.err); return 0; }
  errno = 0;
  r = r_readdir(dp);
  { int se = errno; if (r) ev_str(&e, "name", r->d_name); post('d', &e, &d, r ? 1 : 0, se); errno = se; }
  return r;
}
struct dirent64 *readdir64(DIR *dp) { return (struct dirent64 *) readdir(dp); }

/* ----- select / sleep / alarm ---------------------------------------------------------------- */
static void ev_fdset(struct ev *e, const char *k, int nfds, fd_set *s)
{
  char t[400]; size_t j = 0; int i, first = 1;
  j += snprintf(t, sizeof t, ",\"%s\":[", k);
  if (s) for (i = 0; i < nfds && j < sizeof t - 16; i++) if (FD_ISSET(i, s)) { j += snprintf(t + j, 12, "%s%d", first ? "" : ",", i); first = 0; }
  t[j++] = ']'; t[j] = 0; ev_raw(e, t);
}
int select(int nfds, fd_set *rd, fd_set *wr, fd_set *ex, struct timeval *tv)
{
  int r; struct ev e;
  shim_init(); NEED(select);
  if (!inited) return r_select(nfds, rd, wr, ex, tv);
  if (gatepath && gated_prog && has(gatecls, 's') && gate_connect() == 0) {
    char line[64] = ""; struct timeval z; int gr;
    ev_begin(&e, "select"); ev_int(&e, "T", tv ? (long long) tv->tv_sec : -1);
    ev_fdset(&e, "rd", nfds, rd); ev_fdset(&e, "wr", nfds, wr);
    ev_raw(&e, ",\"ph\":\"enter\"");
    {
      /* "sleep" until the controller answers, atomically with respect to signals: they are blocked
         while the enter message is sent and only delivered inside ppoll(), so a signal sent after
         the controller saw this message always ends the wait with EINTR, as the real select would */
      sigset_t all, old; int intr = 0;
      sigfillset(&all); sigprocmask(SIG_BLOCK, &all, &old);
      { int save = logfd; if (!has(trace, 's')) logfd = -1; ev_emit(&e, 1); logfd = save; }
      for (;;) {
        struct pollfd pf; int pr;
        pf.fd = gatefd; pf.events = POLLIN; pf.revents = 0;
        pr = ppoll(&pf, 1, 0, &old);
        if (pr < 0 && errno == EINTR) { intr = 1; break; }
        if (pr > 0) break;
        if (pr < 0) break;
      }
      sigprocmask(SIG_SETMASK, &old, 0);
      gr = intr ? -1 : gate_wait(line, sizeof line, 0);
    }
    if (gr == -2) { NEED(_exit); r__exit(97); }
    if (gr == -1) {
      /* a signal arrived while "sleeping": exactly what the real call reports */
      ev_begin(&e, "select"); ev_int(&e, "ret", -1); ev_int(&e, "err", EINTR); ev_raw(&e, ",\"ph\":\"exit\"");
      { int save = logfd; if (!has(trace, 's')) logfd = -1; ev_emit(&e, 1); logfd = save; }
      errno = EINTR; return -1;
    }
    z.tv_sec = 0; z.tv_usec = 0;
    r = r_select(nfds, rd, wr, ex, &z);
    {
      int se = errno; const char *sa = strstr(line, "sig=");
      ev_begin(&e, "select"); ev_int(&e, "ret", r); if (r < 0) ev_int(&e, "err", se);
      if (r > 0) { ev_fdset(&e, "rd", nfds, rd); ev_fdset(&e, "wr", nfds, wr); }
      if (sa) ev_int(&e, "sigafter", atoi(sa + 4));
      ev_raw(&e, ",\"ph\":\"exit\"");
      { int save = logfd; if (!has(trace, 's')) logfd = -1; ev_emit(&e, 1); logfd = save; }
      /* decision "g sig=N": the signal arrives just AFTER the call has returned (not during the wait, where it would
         end the call with EINTR): the handler runs while the program is outside select */
      if (sa) kill(getpid(), atoi(sa + 4));
      errno = se;
    }
    return r;
  }
  return r_select(nfds, rd, wr, ex, tv);
}
unsigned sleep(unsigned n)
{
  shim_init(); NEED(sleep);
  if (!inited || !sh) return r_sleep(n);
  if (watching('a')) { struct ev e; ev_begin(&e, "sleep"); ev_int(&e, "sec", n); post('a', &e, 0, 0, 0); }
  __atomic_add_fetch(&sh->vnow, (int64_t) n, __ATOMIC_SEQ_CST);
  return 0;
}
unsigned alarm(unsigned n)
{
  shim_init(); NEED(alarm);
  if (!inited || !sh) return r_alarm(n);
  { struct ev e; ev_begin(&e, "alarm"); ev_int(&e, "sec", n); ev_int(&e, "deadline", n ? vnow() + n : 0);
    if (has(trace, 'a') || (gatepath && gated_prog)) { ev_int(&e, "ret", 0); ev_emit(&e, gatepath && gated_prog && gate_connect() == 0); } }
  return 0;
}

/* ----- process events ----------------------------------------------------------------------- */
pid_t fork(void)
{
  pid_t r; shim_init(); NEED(fork);
  r = r_fork();
  if (inited && r > 0 && has(trace, 'p')) { struct ev e; ev_begin(&e, "fork"); ev_int(&e, "child", r); post('p', &e, 0, r, 0); }
  return r;
}
pid_t vfork(void) { return fork(); }
int execve(const char *p, char *const *av, char *const *ev_)
{
  shim_init(); NEED(execve);
  if (inited && has(trace, 'p')) {
    struct ev e; ev_begin(&e, "execve"); ev_path(&e, "path", p);
    ev_int(&e, "uid", getuid()); ev_int(&e, "euid", geteuid()); ev_int(&e, "gid", getgid());
    post('p', &e, 0, 0, 0);
  }
  return r_execve(p, av, ev_);
}
void _exit(int c)
{
  shim_init(); NEED(_exit);
  if (inited && has(trace, 'p')) { struct ev e; ev_begin(&e, "exit"); ev_int(&e, "status", c); post('p', &e, 0, c, 0); }
  r__exit(c);
  for (;;) ;
}

/* NQV_IDFAIL=<call>:<errno name>[,...]: the named identity call fails with that errno instead of being made */
static int idfail_for(const char *name)
{
  const char *e = getenv("NQV_IDFAIL"); size_t l = strlen(name);
  while (e && *e) {
    if (!strncmp(e, name, l) && e[l] == ':') { char b[32]; size_t k = 0; e += l + 1; while (*e && *e != ',' && k + 1 < sizeof b) b[k++] = *e++; b[k] = 0; return errno_by_name(b); }
    e = strchr(e, ','); if (e) e++;
  }
  return 0;
}
#define IDCALL(name, proto, args, fmt) \
  int name proto { int r, fe; shim_init(); NEED(name); fe = idfail_for(#name); if (fe) { r = -1; errno = fe; } else r = r_##name args; \
    if (inited && has(trace, 'i')) { int se = errno; struct ev e; ev_begin(&e, #name); fmt; post('i', &e, 0, r, se); errno = se; } return r; }
IDCALL(setuid, (uid_t u), (u), ev_int(&e, "id", u))
IDCALL(setgid, (gid_t g), (g), ev_int(&e, "id", g))
IDCALL(setgroups, (size_t n, const gid_t *l), (n, l), (ev_int(&e, "count", n), ev_int(&e, "id", n ? l[0] : -1)))
IDCALL(initgroups, (const char *u, gid_t g), (u, g), (ev_str(&e, "user", u), ev_int(&e, "id", g)))

/* ----- passwd ---------------------------------------------------------------------------------- */
static struct passwd *pw_lookup(const char *name, int byuid, uid_t uid)
{
  static struct passwd keep; static char kn[256], kd[1024]; FILE *fp; struct passwd *p;
  fp = fopen(pwfile, "r");
  if (!fp) { errno = EIO; return 0; }
  while ((p = fgetpwent(fp))) {
    if (byuid ? p->pw_uid == uid : !strcmp(p->pw_name, name)) {
      keep = *p;
      strncpy(kn, p->pw_name, sizeof kn - 1); strncpy(kd, p->pw_dir, sizeof kd - 1);
      keep.pw_name = kn; keep.pw_dir = kd; keep.pw_passwd = "x"; keep.pw_gecos = ""; keep.pw_shell = "/bin/sh";
      fclose(fp); return &keep;
    }
  }
  fclose(fp); errno = 0; return 0;
}
struct passwd *getpwnam(const char *name)
{
  static struct passwd *(*real)(const char *);
  shim_init();
  if (inited && pwfile[0]) return pw_lookup(name, 0, 0);
  if (!real) real = sym("getpwnam");
  return real(name);
}
struct passwd *getpwuid(uid_t u)
{
  static struct passwd *(*real)(uid_t);
  shim_init();
  if (inited && pwfile[0]) return pw_lookup(0, 1, u);
  if (!real) real = sym("getpwuid");
  return real(u);
}
