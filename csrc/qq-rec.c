/* qq-rec: stand-in for qmail-queue ($QMAILQUEUE).  Records message (fd 0), envelope (fd 1),
   uid and pid under $NQV_REC, then follows $NQV_QQ_PLAN:
     exit=N            read everything, exit N (default exit=0)
     err=TEXT          write TEXT to fd 6 and exit 82 (custom error protocol of qmail.c); with
                       NQV_QQ_ERRSPLIT=K in two writes, K bytes first
     sig=N             read everything, then die by signal N
     stop=K,exit=N     stop reading the message after K bytes, exit N
     tee               after recording, exec $NQV_HOME/bin/qmail-queue on copies of the streams */
#include <fcntl.h>
#include <sys/file.h>
#include <signal.h>
#include <stdio.h>
#include <stdlib.h>
#include <string.h>
#include <time.h>
#include <unistd.h>
static long stopafter = -1;
static void slurp(int fd, int out, long limit)
{
  char b[65536]; ssize_t r; long tot = 0;
  for (;;) {
    size_t want = sizeof b;
    if (limit >= 0) { if (tot >= limit) return; if ((long) want > limit - tot) want = limit - tot; }
    r = read(fd, b, want);
    if (r <= 0) return;
    { ssize_t o = 0; while (o < r) { ssize_t w = write(out, b + o, r - o); if (w <= 0) _exit(99); o += w; } }
    tot += r;
  }
}
int main(void)
{
  const char *d = getenv("NQV_REC"), *plan = getenv("NQV_QQ_PLAN"); char base[600], fn[640]; struct timespec ts; int m, e, x = 0;
  if (!d) _exit(98);
  if (!plan) plan = "exit=0";
  {
    /* NQV_QQ_SEQ=<file>: one plan per line, the k-th invocation takes line k (counter in <file>.n, under flock);
       invocations beyond the last line use NQV_QQ_PLAN */
    const char *seq = getenv("NQV_QQ_SEQ");
    if (seq) {
      static char linebuf[512]; char cn[700]; int cf; long k = 0; FILE *f;
      snprintf(cn, sizeof cn, "%s.n", seq);
      cf = open(cn, O_RDWR | O_CREAT, 0666);
      if (cf >= 0) {
        char nb[32]; ssize_t r;
        flock(cf, LOCK_EX);
        r = pread(cf, nb, sizeof nb - 1, 0);
        if (r > 0) { nb[r] = 0; k = atol(nb); }
        snprintf(nb, sizeof nb, "%ld\n", k + 1);
        pwrite(cf, nb, strlen(nb), 0);
        close(cf);
      }
      f = fopen(seq, "r");
      if (f) {
        long i = 0;
        while (fgets(linebuf, sizeof linebuf, f)) {
          if (i++ == k) { size_t l = strlen(linebuf); if (l && linebuf[l - 1] == '\n') linebuf[l - 1] = 0; plan = linebuf; break; }
        }
        fclose(f);
      }
    }
  }
  clock_gettime(CLOCK_MONOTONIC, &ts);
  snprintf(base, sizeof base, "%s/%020lld.%d", d, (long long) ts.tv_sec * 1000000000LL + ts.tv_nsec, (int) getpid());
  if (strstr(plan, "stop=")) stopafter = atol(strstr(plan, "stop=") + 5);
  snprintf(fn, sizeof fn, "%s.msg", base); m = open(fn, O_RDWR | O_CREAT | O_EXCL, 0644); if (m < 0) _exit(98);
  slurp(0, m, stopafter);
  snprintf(fn, sizeof fn, "%s.env", base); e = open(fn, O_RDWR | O_CREAT | O_EXCL, 0644); if (e < 0) _exit(98);
  if (stopafter < 0) slurp(1, e, -1);
  { FILE *f; snprintf(fn, sizeof fn, "%s.meta", base); f = fopen(fn, "w");
    if (f) { fprintf(f, "pid=%d\nuid=%d\neuid=%d\ngid=%d\nplan=%s\n", (int) getpid(), (int) getuid(), (int) geteuid(), (int) getgid(), plan); fclose(f); } }
  if (!strncmp(plan, "tee", 3)) {
    const char *h = getenv("NQV_HOME"); char q[4200];
    lseek(m, 0, SEEK_SET); lseek(e, 0, SEEK_SET);
    dup2(m, 0); dup2(e, 1); close(m); close(e);
    snprintf(q, sizeof q, "%s/bin/qmail-queue", h ? h : ".");
    execl(q, "qmail-queue", (char *) 0);
    _exit(120);
  }
  close(m); close(e);
  if (!strncmp(plan, "err=", 4)) {
    /* NQV_QQ_ERRSPLIT=K: the text is written in two pieces (K bytes, a pause, the rest), as a program that
       builds its answer from several writes would */
    const char *t = plan + 4, *sp = getenv("NQV_QQ_ERRSPLIT"); size_t l = strlen(t), k = sp ? (size_t) atol(sp) : 0;
    if (k > 0 && k < l) { write(6, t, k); usleep(40000); write(6, t + k, l - k); }
    else write(6, t, l);
    _exit(82);
  }
  if (!strncmp(plan, "sig=", 4)) { signal(atoi(plan + 4), SIG_DFL); kill(getpid(), atoi(plan + 4)); pause(); }
  if (strstr(plan, "exit=")) x = atoi(strstr(plan, "exit=") + 5);
  _exit(x);
}
