/* pw-rec: stand-in for the POP3 password checker (checkpassword interface).  Records what it
   reads on fd 3 under $NQV_REC, then exits $NQV_PW_EXIT or runs its arguments. */
#include <fcntl.h>
#include <stdio.h>
#include <stdlib.h>
#include <string.h>
#include <time.h>
#include <unistd.h>
int main(int argc, char **argv)
{
  const char *d = getenv("NQV_REC"), *x = getenv("NQV_PW_EXIT"); char fn[700], b[8192]; struct timespec ts; ssize_t n, tot = 0; int fd;
  if (!d) _exit(98);
  for (;;) { n = read(3, b + tot, sizeof b - tot); if (n <= 0) break; tot += n; if ((size_t) tot >= sizeof b) break; }
  close(3);
  clock_gettime(CLOCK_MONOTONIC, &ts);
  snprintf(fn, sizeof fn, "%s/%020lld.%d.pw", d, (long long) ts.tv_sec * 1000000000LL + ts.tv_nsec, (int) getpid());
  fd = open(fn, O_WRONLY | O_CREAT | O_EXCL, 0644);
  if (fd >= 0) { write(fd, b, tot); close(fd); }
  if (x && atoi(x)) _exit(atoi(x));
  if (argc > 1) { execvp(argv[1], argv + 1); _exit(111); }
  _exit(0);
}
