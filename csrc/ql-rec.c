/* ql-rec: stand-in for bin/qmail-local (and, as qr-rec, for qmail-remote).  Records argv, real
   and effective ids, supplementary groups, cwd and the first bytes of fd 0 under $NQV_REC, then
   prints $NQV_QL_OUT (default none; or the bytes given in hex in $NQV_QL_OUTHEX) and exits $NQV_QL_EXIT (default 0). */
#include <fcntl.h>
#include <grp.h>
#include <stdio.h>
#include <stdlib.h>
#include <string.h>
#include <time.h>
#include <unistd.h>
static void hexs(FILE *f, const char *s, size_t n) { size_t i; for (i = 0; i < n; i++) fprintf(f, "%02x", (unsigned char) s[i]); }
int main(int argc, char **argv)
{
  const char *d = getenv("NQV_REC"), *o = getenv("NQV_QL_OUT"), *x = getenv("NQV_QL_EXIT"); char fn[700], cwd[4096]; struct timespec ts; FILE *f; int i, ng; gid_t gs[64];
  if (!d) _exit(98);
  clock_gettime(CLOCK_MONOTONIC, &ts);
  snprintf(fn, sizeof fn, "%s/%020lld.%d.run", d, (long long) ts.tv_sec * 1000000000LL + ts.tv_nsec, (int) getpid());
  umask(0);
  f = fopen(fn, "w");
  if (!f) _exit(98);
  fprintf(f, "argc=%d\n", argc);
  for (i = 0; i < argc; i++) { fprintf(f, "arg="); hexs(f, argv[i], strlen(argv[i])); fprintf(f, "\n"); }
  fprintf(f, "uid=%d\neuid=%d\ngid=%d\negid=%d\n", (int) getuid(), (int) geteuid(), (int) getgid(), (int) getegid());
  ng = getgroups(64, gs);
  fprintf(f, "groups=");
  for (i = 0; i < ng; i++) fprintf(f, "%s%d", i ? "," : "", (int) gs[i]);
  fprintf(f, "\ncwd=%s\n", getcwd(cwd, sizeof cwd) ? cwd : "?");
  { char b[256]; ssize_t n = pread(0, b, sizeof b, 0); fprintf(f, "stdin="); if (n > 0) hexs(f, b, n); fprintf(f, "\n"); }
  fclose(f);
  {
    /* NQV_QL_OUTHEX: output given in hex, so that it may contain NUL and any other byte */
    const char *h = getenv("NQV_QL_OUTHEX");
    if (h && *h) {
      static char ob[8192]; size_t n = 0;
      while (h[0] && h[1] && n < sizeof ob) { unsigned v; if (sscanf(h, "%2x", &v) != 1) break; ob[n++] = (char) v; h += 2; }
      write(1, ob, n);
    }
    else if (o) write(1, o, strlen(o));
  }
  _exit(x ? atoi(x) : 0);
}
