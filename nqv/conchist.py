"""Concurrent histories for C02: 1..3 qmail-queue processes interleaved at libc-call granularity with
a running qmail-send + qmail-clean under a seeded scheduler; crashes of any of them before a
gated call; garbage-collection scenarios with planted leftovers and suspended live injectors."""
import os
import signal

from . import core, qsim, shim, histories


class RandomScheduler:
    """PCT-flavoured: every role has a priority, the highest-priority held call is usually
    released; priorities are reshuffled at random change points; rare kills."""

    def __init__(self, rng, p_kill=0.0, suspend=()):
        self.rng = rng
        self.prio = {}
        self.p_kill = p_kill
        self.kills = 0
        self.suspend = set(suspend)     # roles never released (suspended injectors)
        self.suspend_at = {}            # role -> "S2" | "S3": suspend that injector when its files are in that state
        self.n = 0

    def pick(self, sim, held):
        rng = self.rng
        self.n += 1
        for c in held:
            rule = self.suspend_at.get(c.role)
            m = c.pending or {}
            if rule == "S2" and m.get("c") == "open" and (m.get("path") or "").startswith("queue/intd/"):
                self.suspend.add(c.role)
            if rule == "S3" and m.get("c") == "link" and (m.get("path2") or "").startswith("queue/todo/"):
                self.suspend.add(c.role)
        cands = [c for c in held if c.role not in self.suspend]
        if not cands:
            return None, None
        if rng.random() < 0.03:
            self.prio = {}
        for c in cands:
            self.prio.setdefault(c.role, rng.random())
        if rng.random() < 0.75:
            c = max(cands, key=lambda x: self.prio[x.role])
        else:
            c = rng.choice(cands)
        if self.p_kill and self.kills < 2 and rng.random() < self.p_kill:
            self.kills += 1
            return c, "k"
        return c, "g"

    def runnable(self, held):
        return [c for c in held if c.role not in self.suspend]


class ConcHistory(histories.History):
    def __init__(self, b, rng, res, profile, oracle_classes=(), plan=None, label=""):
        profile.gate_m = True
        profile.max_quiescent = max(profile.max_quiescent, 2500)   # every scheduler step at an idle daemon counts as one
        super().__init__(b, rng, res, profile, oracle_classes, plan, label)
        self.sim.gate_progs = "qmail-send,qmail-clean,qmail-queue"
        self.sched = RandomScheduler(rng, p_kill=getattr(profile, "p_kill", 0.0))
        self.sim.scheduler = self.sched
        self.ninj = 0
        self.max_inj = getattr(profile, "max_inj", 4)
        self.gc = getattr(profile, "gc", False)
        self.planted = []

    def start_conc_injector(self):
        rng = self.rng
        self.ninj += 1
        self.nmsg += 1
        m = self.nmsg
        sender = rng.choice([b"s%d@local.test" % m, b"", b"s%d@remote.test" % m])
        rc = [b"r%d.%d@%s" % (m, k, rng.choice([b"local.test", b"remote.test"])) for k in range(rng.randint(1, 3))]
        token = "%s%04d" % (core.hashlib.sha256(self.label.encode()).hexdigest()[:8], m)
        size = rng.choice([10, 10, 300, 3000])
        body = b"Subject: m%d\nX-Token: %s\n\n" % (m, token.encode()) + b"x" * size + b"\n"
        env = b"F" + sender + b"\0" + b"".join(b"T" + r + b"\0" for r in rc) + b"\0"
        if rng.random() < 0.1:
            env = env[:rng.randrange(1, len(env))]       # malformed: leaves an S3 leftover
        self.sim.start_injector(body, env, "inj%d" % self.ninj)
        self.log.append(("inj-start", self.ninj, sender, rc))

    def start_suspended(self, state):
        """a live injector that stops (forever) with its files in S2 or S3; its own 24 h alarm must kill it
        before the collector may touch its files"""
        self.nmsg += 1
        role = "susp%d" % self.nmsg
        self.sched.suspend_at[role] = state
        body = b"Subject: suspended\n\n" + b"y" * 40 + b"\n"
        self.sim.start_injector(body, b"Fs@x.test\0Tr@local.test\0\0", role)
        self.log.append(("suspended-injector", role, state))

    def backlog(self, n):
        """the daemon was down for more than 36 hours with a backlog: n messages queued (S4), everything about
        them older than the garbage-collection horizon"""
        sim = self.sim
        now = sim.vnow()
        for i in range(n):
            self.nmsg += 1
            st, num = sim.inject(b"Subject: backlog %d\nX-Token: bl%04d\n\nold\n" % (i, i), b"Fs@local.test\0Tbl%d@local.test\0\0" % i)
            if num is None:
                continue
            for p in (sim.qpath("mess", str(num % qsim.SPLIT), str(num)), sim.qpath("intd", str(num)), sim.qpath("todo", str(num))):
                os.utime(p, (now - 144000, now - 144000))
        self.log.append(("backlog", n))

    def plant(self):
        """leftovers of dead injectors with chosen ages, and pid files"""
        sim, rng = self.sim, self.rng
        now = sim.vnow()
        # negative ages: a file stamped a little AFTER the daemon's clock sample (created by an injector later in the same
        # second-resolution round, or before the clock was stepped back) is young, not 2^64 seconds old
        for age in (3600, 129600 - 1, 129600, 129600 + 1, 259200, -1, -90):
            p = sim.qpath("pid", "plant.%d" % age)
            with open(p, "wb") as f:
                f.write(b"Received: planted\nleftover\n")
            ino = os.stat(p).st_ino
            dst = sim.qpath("mess", str(ino % qsim.SPLIT), str(ino))
            os.rename(p, dst)
            os.utime(dst, (now - age, now - age))
            kind = rng.choice(["S2", "S3"])
            if kind == "S3":
                ip = sim.qpath("intd", str(ino))
                with open(ip, "wb") as f:
                    f.write(b"u0\0p1\0Fx@y\0")
                os.utime(ip, (now - age, now - age))
            pp = sim.qpath("pid", "9999.%d.1" % age)
            with open(pp, "wb") as f:
                f.write(b"x")
            os.utime(pp, (now - age, now - age))
            self.planted.append((ino, age, kind))
            sim.emit("planted", num=ino, age=age, state=kind)

    def run(self):
        sim, rng, p = self.sim, self.rng, self.prof
        try:
            if self.gc:
                self.plant()
            if getattr(p, "backlog", 0):
                self.backlog(p.backlog)
            sim.start_daemons()
            if self.gc:
                for stt in rng.sample(["S2", "S3"], rng.randint(1, 2)):
                    self.start_suspended(stt)
            qn = 0
            idle_rounds = 0
            while True:
                try:
                    ent = sim.run_until_quiescent()
                except qsim.DaemonExit as e:
                    st = e.status
                    if os.WIFSIGNALED(st) and os.WTERMSIG(st) == signal.SIGKILL:
                        sim.kill_daemons(who=("clean",))
                        sim.held = []
                        sim.inflight = None
                        self.after_crash()
                        continue
                    if os.WIFEXITED(st) and os.WEXITSTATUS(st) == 0 and (self.term_pending or self.sched.kills):
                        # clean exit after TERM, or the cleaner was killed by the scheduler and the daemon gave up
                        self.term_pending = False
                        sim.kill_daemons(who=("clean",))
                        sim.held = []
                        sim.inflight = None
                        if self.finished:
                            break
                        self.crashes += 1 if self.sched.kills else 0
                        self.restart()
                        continue
                    self.res.violate("C02/daemon-died/%s" % (("sig%d" % os.WTERMSIG(st)) if os.WIFSIGNALED(st) else "exit%d" % os.WEXITSTATUS(st)),
                                     "qmail-send ended unexpectedly; log tail %r" % sim.dlog[-400:], self.witness())
                    break
                qn += 1
                if qn > p.max_quiescent:
                    self.res.inconclusive.append("history %s did not finish within %d quiescent points; held=%r inflight=%r live=%r term=%r out=%d left=%r tail=%r log=%r" % (
                        self.label, p.max_quiescent, [(c.role, (c.pending or {}).get("c")) for c in sim.held], sim.inflight and sim.inflight.role,
                        [(sim.procs[x]["role"]) for x in sim.live_injectors()], self.term_pending, len(sim.outstanding), dict(list(sim.scan().items())[:4]),
                        [(e["kind"], e.get("c"), e.get("sig"), e.get("T")) for e in sim.events[-14:]], sim.dlog[-200:]))
                    break
                T = ent.get("T", 0)
                # injectors still have held calls: let one step happen
                runnable = self.sched.runnable([c for c in sim.held if c.pending is not None])
                if runnable or sim.inflight is not None:
                    if not sim.sched_step():
                        sim._pump(0.002)
                        while sim.inbox:
                            c, m = sim.inbox.pop(0)
                            sim._handle(c, m)
                    sim.tainted = True
                    continue
                sim._reap()
                running = [p_ for p_ in sim.live_injectors() if sim.procs[p_]["role"] not in self.sched.suspend]
                if running:
                    # an injector is between two gates (or still starting): wait for it rather than burning
                    # quiescent points; a generous wall-clock watchdog makes a stuck one inconclusive
                    self.wait_budget = getattr(self, "wait_budget", 0) + 1
                    if self.wait_budget > 20000:
                        raise qsim.SimTimeout("injector %r made no progress" % running)
                    sim._pump(0.002)
                    while sim.inbox:
                        c, m = sim.inbox.pop(0)
                        sim._handle(c, m)
                    sim.tainted = True
                    qn -= 1
                    continue
                if self.term_pending:
                    if sim.outstanding:
                        k = rng.choice(sorted(sim.outstanding))
                        sim.report(sim.outstanding[k], self.choose_report(sim.outstanding[k]))
                    else:
                        self.res.violate("C04/no-exit-after-term", "TERM delivered, nothing outstanding, daemon keeps sleeping", self.witness())
                        break
                    continue
                if self.ninj < self.max_inj and rng.random() < 0.5:
                    for _ in range(rng.randint(1, 3)):
                        if self.ninj < self.max_inj:
                            self.start_conc_injector()
                    sim.tainted = True
                    continue
                if sim.outstanding and rng.random() < 0.8:
                    k = rng.choice(sorted(sim.outstanding))
                    sim.report(sim.outstanding[k], self.choose_report(sim.outstanding[k]))
                    continue
                left = {n: d for n, d in sim.scan().items() if "info" in d or "todo" in d}
                if not left and not sim.outstanding and self.ninj >= self.max_inj and not sim.live_injectors():
                    if self.gc and idle_rounds < 4:
                        idle_rounds += 1
                        sim.advance(rng.choice([T, 76431 + 5, 129600, 43200]))
                        continue
                    self.finished = True
                    self.term_pending = True
                    sim.signal("TERM")
                    continue
                if sim.outstanding:
                    k = rng.choice(sorted(sim.outstanding))
                    sim.report(sim.outstanding[k], self.choose_report(sim.outstanding[k]))
                elif self.gc and not left and sim.live_injectors() and all(
                        sim.procs[p_]["role"] in self.sched.suspend for p_ in sim.live_injectors()):
                    # only suspended injectors are left: walk the clock towards their 24 h alarm and the 36 h horizon
                    sim.advance(rng.choice([43200, 43200, 86400 - 100, 3600]))
                else:
                    sim.advance(max(1, T))
            for o in self.oracles:
                o.at_end(sim)
        finally:
            self.sim.teardown()
        return self.sim
