"""Scripted SMTP server on 127.0.0.1 (DESIGN.md 2.5 smtpscript).  One listening socket per
worker; each connection follows a script and records exactly what the client sent."""
import socket
import threading
import time


class Script:
    """reply per phase: bytes (sent as is; may be multi-line), list of bytes (sent as
    separate segments), 'DROP' (close instead of replying), 'STALL' (never reply)."""

    def __init__(self, greet=b"220 ok\r\n", helo=b"250 ok\r\n", mail=b"250 ok\r\n", rcpt=None,
                 data=b"354 go\r\n", dot=b"250 queued\r\n", quit=b"221 bye\r\n"):
        self.greet, self.helo, self.mail = greet, helo, mail
        self.rcpt = rcpt or [b"250 ok\r\n"]
        self.data, self.dot, self.quit = data, dot, quit


class Transcript:
    def __init__(self):
        self.commands = []      # command lines received (without CRLF)
        self.payload = None     # raw DATA bytes including the terminator
        self.after = b""        # raw bytes received after the terminator (commands)
        self.phase_reached = "connect"
        self.closed_by = None
        self.raw = b""


class Sink:
    def __init__(self, host="127.0.0.1", port=0):
        self.ls = socket.socket(socket.AF_INET, socket.SOCK_STREAM)
        self.ls.setsockopt(socket.SOL_SOCKET, socket.SO_REUSEADDR, 1)
        self.ls.bind((host, port))
        self.ls.listen(8)
        self.port = self.ls.getsockname()[1]
        self.thread = None
        self.result = None

    def close(self):
        try:
            self.ls.close()
        except OSError:
            pass

    def start(self, script, stall_s=30.0, accept_timeout=20.0):
        self.result = Transcript()
        self.thread = threading.Thread(target=self._serve, args=(script, self.result, stall_s, accept_timeout), daemon=True)
        self.thread.start()

    def finish(self, timeout=40.0):
        self.thread.join(timeout)
        return self.result

    # -------------------------------------------------------------------------------
    def _send(self, c, rep, tr, stall_s):
        if rep == "DROP":
            tr.closed_by = "server"
            c.close()
            return False
        if rep == "STALL":
            # hold the connection open without replying until the client gives up
            c.settimeout(stall_s)
            try:
                while True:
                    d = c.recv(65536)
                    if not d:
                        break
                    tr.raw += d
            except (socket.timeout, OSError):
                pass
            tr.closed_by = "client-after-stall"
            c.close()
            return False
        segs = rep if isinstance(rep, (list, tuple)) else [rep]
        try:
            for i, s in enumerate(segs):
                c.sendall(s)
                if i + 1 < len(segs):
                    time.sleep(0.002)
        except OSError:
            tr.closed_by = "client"
            return False
        return True

    def _readline(self, c, buf, tr):
        while b"\n" not in buf[0]:
            try:
                d = c.recv(65536)
            except OSError:
                d = b""
            if not d:
                return None
            tr.raw += d
            buf[0] += d
        line, buf[0] = buf[0].split(b"\n", 1)
        return line + b"\n"

    def _serve(self, script, tr, stall_s, accept_timeout):
        self.ls.settimeout(accept_timeout)
        try:
            c, _ = self.ls.accept()
        except (socket.timeout, OSError):
            tr.phase_reached = "no-connection"
            return
        c.settimeout(stall_s)
        buf = [b""]
        try:
            tr.phase_reached = "greet"
            if not self._send(c, script.greet, tr, stall_s):
                return
            nrcpt = 0
            while True:
                line = self._readline(c, buf, tr)
                if line is None:
                    tr.closed_by = tr.closed_by or "client"
                    return
                cmd = line.rstrip(b"\r\n")
                tr.commands.append(cmd)
                verb = cmd[:4].upper()
                if verb in (b"HELO", b"EHLO"):
                    tr.phase_reached = "helo"
                    rep = script.helo
                elif verb == b"MAIL":
                    tr.phase_reached = "mail"
                    rep = script.mail
                elif verb == b"RCPT":
                    tr.phase_reached = "rcpt%d" % nrcpt
                    rep = script.rcpt[nrcpt] if nrcpt < len(script.rcpt) else b"250 ok\r\n"
                    nrcpt += 1
                elif verb == b"DATA":
                    tr.phase_reached = "data"
                    rep = script.data
                    if not self._send(c, rep, tr, stall_s):
                        return
                    first = rep if isinstance(rep, bytes) else rep[-1]
                    # only a 3xx final line opens the data phase
                    lastline = [l for l in first.split(b"\r\n") if l][-1] if first.strip() else b""
                    if not lastline.startswith(b"3"):
                        continue
                    # read payload until CR LF . CR LF (stream start counts as after CR LF)
                    data = buf[0]
                    buf[0] = b""
                    while True:
                        pos = 0 if data.startswith(b".\r\n") else data.find(b"\r\n.\r\n")
                        if pos == 0 and data.startswith(b".\r\n"):
                            end = 3
                            break
                        if pos >= 0:
                            end = pos + 5
                            break
                        try:
                            d = c.recv(65536)
                        except OSError:
                            d = b""
                        if not d:
                            tr.payload = data
                            tr.closed_by = tr.closed_by or "client-in-data"
                            return
                        tr.raw += d
                        data += d
                    tr.payload = data[:end]
                    buf[0] = data[end:]
                    tr.phase_reached = "dot"
                    if not self._send(c, script.dot, tr, stall_s):
                        tr.after = buf[0]
                        return
                    # everything from here on is command stream
                    rest_start = len(tr.commands)
                    continue
                elif verb == b"QUIT":
                    tr.phase_reached = "quit"
                    self._send(c, script.quit, tr, stall_s)
                    tr.closed_by = "quit"
                    return
                else:
                    rep = b"502 unimplemented\r\n"
                if not self._send(c, rep, tr, stall_s):
                    return
        finally:
            try:
                c.close()
            except OSError:
                pass
