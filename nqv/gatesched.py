"""A small stand-alone controller for the shim's gates (csrc/nqshim.c, NQV_GATE): a handful of processes
are held before each call of the gated classes and released ONE AT A TIME in an order chosen by the caller.
Used where the daemon simulation (qsim) is not involved: controlled interleavings of 2-3 qmail-local runs.

A released call that is expected to block (flock on a file another process has locked) is not waited
for: its process is 'blocked' until the exit message arrives."""
import json
import os
import select
import socket
import time


class Proc:
    def __init__(self, sock):
        self.sock = sock
        self.buf = b""
        self.pid = None
        self.role = None
        self.held = None        # the 'enter' message of the call it waits to make
        self.inflight = None    # the call that was released and has not returned
        self.blocked = False    # inflight and known to wait for somebody else
        self.gone = False


class GateCtl:
    def __init__(self, path):
        self.path = path
        if os.path.exists(path):
            os.unlink(path)
        self.lsock = socket.socket(socket.AF_UNIX, socket.SOCK_STREAM)
        self.lsock.bind(path)
        os.chmod(path, 0o777)
        self.lsock.listen(16)
        self.lsock.setblocking(False)
        self.procs = []
        self.events = []        # every enter/exit message, in arrival (= causal, one call at a time) order
        self.grants = []        # (role, call) in the order released
        self.status = {}        # pid -> wait status of the processes that have been reaped

    def close(self):
        for p in self.procs:
            try:
                p.sock.close()
            except OSError:
                pass
        self.lsock.close()
        try:
            os.unlink(self.path)
        except OSError:
            pass

    def _accept(self):
        while True:
            try:
                s, _ = self.lsock.accept()
            except (BlockingIOError, InterruptedError):
                return
            s.setblocking(False)
            self.procs.append(Proc(s))

    def pump(self, timeout):
        """read whatever the processes have sent; returns the list of new messages [(proc, msg)]"""
        self._accept()
        live = [p for p in self.procs if not p.gone]
        try:
            r, _, _ = select.select([self.lsock] + [p.sock for p in live], [], [], timeout)
        except (InterruptedError, ValueError):
            return []
        out = []
        for s in r:
            if s is self.lsock:
                self._accept()
                continue
            p = next((x for x in live if x.sock is s), None)
            if p is None:
                continue
            try:
                d = s.recv(65536)
            except (BlockingIOError, InterruptedError):
                continue
            except OSError:
                d = b""
            if not d:
                p.gone = True
                p.held = None
                p.inflight = None
                p.blocked = False
                continue
            p.buf += d
            while b"\n" in p.buf:
                line, p.buf = p.buf.split(b"\n", 1)
                try:
                    m = json.loads(line)
                except ValueError:
                    continue
                out.append((p, m))
        out.sort(key=lambda pm: pm[1].get("q", 0) or 0)
        for p, m in out:
            self._handle(p, m)
        return out

    def _handle(self, p, m):
        c = m.get("c")
        if c == "hello":
            p.pid, p.role = m.get("p"), m.get("r")
            return
        ph = m.get("ph")
        if c == "select" and ph == "enter":
            self.send(p, "g")
            return
        if ph == "enter":
            p.held = m
            self.events.append(("enter", p.role, m))
        elif ph == "exit":
            p.inflight = None
            p.blocked = False
            self.events.append(("exit", p.role, m))

    def send(self, p, text):
        try:
            p.sock.sendall((text + "\n").encode())
        except OSError:
            p.gone = True

    def release(self, p, dec="g", expect_block=False):
        m = p.held
        p.held = None
        p.inflight = m
        p.blocked = expect_block
        self.grants.append((p.role, m.get("c")))
        self.send(p, dec)

    def reap(self, pids):
        for pid in pids:
            if pid in self.status:
                continue
            try:
                q, st = os.waitpid(pid, os.WNOHANG)
            except ChildProcessError:
                self.status[pid] = None
                continue
            if q:
                self.status[pid] = st

    def settle(self, pids, wall=30.0):
        """wait until every started process is held before a call, blocked inside one, or has exited.
        Returns False on a wall-clock expiry (the caller reports that as inconclusive, never as a verdict)."""
        t_end = time.time() + wall
        while time.time() < t_end:
            self.pump(0.002)
            self.reap(pids)
            ok = True
            for pid in pids:
                if pid in self.status:
                    continue
                p = next((x for x in self.procs if x.pid == pid and not x.gone), None)
                if p is None or (p.held is None and not p.blocked):
                    ok = False
                    break
            if ok:
                return True
        return False

    def held(self):
        return [p for p in self.procs if not p.gone and p.held is not None]
