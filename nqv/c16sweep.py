"""C16: enumeration of the interleavings of an injector's publish-then-signal steps
{link todo, open trigger, write trigger, close trigger} with the daemon's re-arm-then-scan steps
{close trigger, open trigger, opendir todo, readdir ...} at libc-call granularity (DESIGN.md C16).
An interleaving is a non-decreasing tuple a: injector step i is released once a[i] relevant daemon
steps have been granted (or the daemon has gone idle)."""
import itertools
import os

from . import core, qsim, oracles, ledger as ledgermod


class MergeSched:
    def __init__(self, plan):
        self.plan = plan                  # {role: tuple a}
        self.icount = {r: 0 for r in plan}
        self.dcount = 0
        self.armed = {r: False for r in plan}
        self.daemon_idle = False
        self.trace = []

    @staticmethod
    def daemon_relevant(m):
        c = m.get("c")
        p = m.get("path") or ""
        if c in ("opendir", "readdir"):
            return "todo" in p
        if c in ("open", "close"):
            return "lock/trigger" in p
        return False

    def pick(self, sim, held):
        # everything that is not part of the race runs freely
        for c in held:
            m = c.pending
            if c.role in self.plan:
                if not self.armed[c.role]:
                    # the race starts at the injector's first publish-or-signal step, whichever the tree does first
                    if (m.get("c") == "link" and (m.get("path2") or "").startswith("queue/todo/")) or \
                            (m.get("c") == "open" and "lock/trigger" in (m.get("path") or "")):
                        self.armed[c.role] = True
                    else:
                        return c, "g"
            elif not self.daemon_relevant(m):
                return c, "g"
        inj = [c for c in held if c.role in self.plan and self.armed[c.role]]
        dae = [c for c in held if c.role not in self.plan]
        for c in sorted(inj, key=lambda x: x.role):
            a = self.plan[c.role]
            i = self.icount[c.role]
            need = a[i] if i < len(a) else 0
            if self.dcount >= need or self.daemon_idle:
                self.icount[c.role] += 1
                self.trace.append("%s:%s" % (c.role, c.pending.get("c")))
                return c, "g"
        # the race starts when every injector stands at its link(intd, todo): until then the daemon's
        # relevant steps are held back, so that the plan decides the order and not process start-up time
        alive_roles = {sim.procs[p_]["role"] for p_ in sim.live_injectors()}
        started = {d["role"] for d in sim.procs.values()}
        if any((r in alive_roles and not self.armed[r]) or r not in started for r in self.plan):
            return None, None
        if dae:
            c = dae[0]
            self.dcount += 1
            self.daemon_idle = False
            self.trace.append("D:%s" % c.pending.get("c"))
            return c, "g"
        return None, None


class _H:
    """minimal stand-in for a History (what the oracles need)"""

    def __init__(self, res, label):
        self.res, self.label = res, label
        self.lifetime = 604800
        self.conc = (10, 20)
        self.spawn = (120, 120)
        self.finished = False
        self.stuck = False
        self.prof = type("P", (), {"variant": "keep-all"})()
        self.sim = None
        self.log = []

    def limit(self, chan):
        return 10 if chan == "l" else 20

    def witness(self):
        return {"history": self.label, "schedule": getattr(self, "sched_trace", []), "daemon_log_tail": core.hx(self.sim.dlog[-400:]) if self.sim else ""}


def run_interleaving(b, plan, start, res, label):
    """plan: {role: tuple}; start: 'idle' | 'midscan'.  Returns the realised schedule (list of strings)."""
    h = _H(res, label)
    led = ledgermod.Ledger(res)
    h.ledger = led
    wo = oracles.WakeupOracle(res, h)
    sim = qsim.Sim(b, gate_m=True, trace="md", oracles=[led, wo], label=label)
    h.sim = sim
    sim.gate_progs = "qmail-send,qmail-queue"
    sched = MergeSched(plan)
    try:
        orig_env = sim.env

        def env(role, gated=True, plan=None, extra=None, gatecls=None):
            return orig_env(role, gated=gated, plan=plan, extra=extra, gatecls="msd")
        sim.env = env
        sim.start_daemons()
        sim.run_until_quiescent()
        sim.scheduler = sched
        if start == "midscan":
            st, num = sim.inject(b"Subject: A\n\nA\n", b"Fs@local.test\0Ta@local.test\0\0")
        for k, role in enumerate(sorted(plan)):
            sim.start_injector(b"Subject: %s\n\nbody\n" % role.encode(), b"Fs@local.test\0T%s@local.test\0\0" % role.encode(), role)
        for _ in range(4000):
            ent = sim.run_until_quiescent()
            if sim.live_injectors() or [c for c in sim.held if c.pending is not None]:
                sched.daemon_idle = True
                if not sim.sched_step():
                    sim._pump(0.002)
                    while sim.inbox:
                        c, m = sim.inbox.pop(0)
                        sim._handle(c, m)
                    sim._reap()
                sim.tainted = True
                continue
            break
        else:
            raise qsim.SimTimeout("interleaving %r did not settle" % (plan,))
        h.sched_trace = sched.trace
        res.counters.inc("interleavings_run")
        todo = os.listdir(sim.qpath("todo"))
        return sched.trace, todo
    finally:
        h.sched_trace = sched.trace
        sim.teardown()


def enumerate_plans(n_inj_steps, nd):
    return list(itertools.combinations_with_replacement(range(nd + 1), n_inj_steps))


def worker(bdir, variant, start, plans, tag):
    from . import build
    res = core.Result()
    b = build.Build(variant, bdir)
    for plan in plans:
        if len(res.violations) >= 3:
            break                      # enough witnesses; every further spinning run costs thousands of selects
        label = "C16-%s-%s" % (start, "_".join("%s%s" % (r, "".join(map(str, a))) for r, a in sorted(plan.items())))
        for attempt in (0, 1):
            try:
                trace, todo = run_interleaving(b, plan, start, res, label)
                res.evaluations += 1
                res.nontrivial(tuple(trace))
                res.counters.setdefault("distinct_interleavings", set()).add(hash(tuple(trace)))
                if len(res.samples) < 2:
                    res.sample({"start": start, "plan": {r: list(a) for r, a in plan.items()}, "granted": trace[:30]})
                break
            except (qsim.SimTimeout, qsim.DaemonExit) as e:
                if attempt == 1:
                    res.inconclusive.append("%s: %s" % (label, str(e)[:200]))
            except core.Inconclusive as e:
                res.inconclusive.append("%s: %s" % (label, str(e)[:200]))
                break
    return res
