"""Generator of RFC 822 address lists whose mailboxes are known by construction (so no second
parser has to be trusted), plus the documented qmail-inject host rewriting.

Grammar generated (RFC 822 section 6 with the RFC 1123 relaxation "<addr>" without phrase, and the two
qmail-header(5) extensions: a lone box name, and "djb fred" = two addresses):

  list      = [ item *( sep item ) ]            sep = CFWS "," CFWS   (sometimes ",," - null elements are legal)
                                                 or just white space between two *bare* items (missing comma)
  item      = mailbox / group
  group     = phrase ":" [ mailbox *( "," mailbox ) ] ";"
  mailbox   = addr-spec / addr-spec comment / [phrase] "<" [route] addr-spec ">"
  route     = 1#( "@" domain ) ":"
  addr-spec = local-part [ "@" domain ]         (no domain = lone box name, only without route)
  local-part= word *( "." word )                word = atom / quoted-string
  domain    = atom *( "." atom ) / domain-literal
  CFWS      = blanks, tabs, folding (newline + blank/tab, also CR LF), nested comments

Every mailbox is returned as (local part bytes, domain bytes or None).  Stated domain of the
generator: no NUL and no LF inside any address (folding only between tokens and inside comments,
never inside a quoted string or a domain literal); domains are dotted names, single labels, names
ending in '+', or dotted-decimal literals; nothing is generated whose reading the documents leave open
(a missing comma next to a phrase, a route in front of a lone box, '+' alone as a host name).
"""

ATOM_EXTRA = b"!#$%&'*+-/=?^_`{|}~"
ALNUM = b"abcdefghijklmnopqrstuvwxyzABCDEFGHIJKLMNOPQRSTUVWXYZ0123456789"
ATOM_CHARS = set(ALNUM + ATOM_EXTRA)
# local-part words: plain atoms, things that need quoting, hostile bytes
PLAIN_WORDS = [b"user", b"first", b"last", b"x+y", b"a-b", b"O'Reilly", b"U", b"j_doe", b"!def!xyz%abc", b"a=b", b"42", b"tail+"]
ODD_WORDS = [b"a b", b'we"ird', b"back\\slash", b"(paren", b"par)en", b"semi;colon", b"a,b", b"<x>", b"a@b", b"",
             b"dot.", b".lead", b"a..b", b"tab\tx", b"cr\rx", b"\x80\xff", b":", b"[x]", b"x]", b" ", b'"', b"\\", b"a\\\"b",
             b"caf\xe9", b"\x01\x7f", b"@", b"group: a@b;", b"<@r:u@h>"]
HOSTILE = b"()<>@,;:\\\".[] \r\t\x80\xffaB"
LABELS = [b"ex", b"test", b"sub", b"host", b"UP", b"x-y", b"a1", b"h_i", b"MiXed", b"n0", b"xn--q", b"org", b"z"]
PHRASE_WORDS = [b"John", b"Doe", b"Q", b"Name", b"the", b"list+", b"x=y", b"Dr", b"A1"]
PHRASE_QUOTED = [b"Doe, John", b"Q. Name", b"a <b@c>", b"semi; colon: x", b"(not a comment)", b"back\\slash", b'quo"te', b"", b"@"]


class Mailbox:
    """flags: how the mailbox was written, for classifying disagreements
       'angle-leading-comment'  a comment is the first token after '<'
       'angle-trailing-comment' a comment is the last token before '>'
       'route'                  written with a source route"""
    __slots__ = ("local", "domain", "flags", "route")

    def __init__(self, local, domain):
        self.local = local
        self.domain = domain
        self.flags = set()
        self.route = []          # source route domains, in order (qmail-inject strips them, the tokenizer does not)

    def raw(self):
        return self.local if self.domain is None else self.local + b"@" + self.domain

    def raw_with_route(self):
        """the address as the bare RFC 822 tokenizer sees it: route-addr contents without comments and blanks"""
        r = b",".join(b"@" + d for d in self.route)
        return (r + b":" if r else b"") + self.raw()


class Gen:
    def __init__(self, rng, fold=True, comments=True, hostile=0.25):
        self.rng = rng
        self.fold = fold
        self.comments = comments
        self.hostile = hostile
        self.features = set()

    # ---------------------------------------------------------------- lexical pieces
    def comment(self, depth=0):
        r = self.rng
        out = b"("
        for _ in range(r.randint(0, 3)):
            k = r.random()
            if k < 0.5:
                out += r.choice([b"c", b"a comment", b"<x@y>", b"a, b; c: d", b"\"", b"[", b"]", b"@", b"1.2", b"caf\xe9"])
            elif k < 0.65:
                out += b"\\" + r.choice([b"(", b")", b"\\", b"x", b"\""])
            elif k < 0.8 and depth < 2:
                out += self.comment(depth + 1)
                self.features.add("nested-comment")
            elif k < 0.9 and self.fold:
                out += r.choice([b"\n ", b"\n\t"])
                self.features.add("fold-in-comment")
            else:
                out += b" "
        self.features.add("comment")
        return out + b")"

    def ws(self, need=False):
        """optional (need=False) or mandatory (need=True) separator between two tokens"""
        r = self.rng
        k = r.random()
        if k < 0.45:
            s = b""
        elif k < 0.65:
            s = b" "
        elif k < 0.72:
            s = r.choice([b"  ", b"\t", b" \t "])
        elif k < 0.84 and self.fold:
            s = r.choice([b"\n ", b"\n\t", b" \n ", b"\r\n ", b"\n  "])
            self.features.add("folding")
        elif k < 0.97 and self.comments:
            s = r.choice([b"", b" "]) + self.comment() + r.choice([b"", b" "])
        else:
            s = b" "
        if need and not s:
            s = b" "
        return s

    def quoted(self, value):
        r = self.rng
        out = b'"'
        for c in value:
            ch = bytes([c])
            if ch in (b'"', b"\\", b"\r") or r.random() < 0.04:
                out += b"\\"                    # quoted-pair: legal in front of any character
            out += ch
        self.features.add("quoted-string")
        return out + b'"'

    def word(self, value):
        if value and all(c in ATOM_CHARS for c in value) and self.rng.random() < 0.85:
            return value
        return self.quoted(value)

    # ---------------------------------------------------------------- addresses
    def local_part(self):
        r = self.rng
        vals = []
        for _ in range(r.choice([1, 1, 1, 2, 3])):
            k = r.random()
            if k < 0.6:
                v = r.choice(PLAIN_WORDS)
            elif k < 0.6 + self.hostile:
                v = r.choice(ODD_WORDS)
                self.features.add("odd-local-part")
            else:
                v = bytes(r.choice(HOSTILE) for _ in range(r.randint(1, 6)))
                self.features.add("hostile-local-part")
            vals.append(v)
        enc = self.word(vals[0])
        for v in vals[1:]:
            enc += self.ws() + b"." + self.ws() + self.word(v)
        if len(vals) > 1:
            self.features.add("dotted-local-part")
        return enc, b".".join(vals)

    def domain(self):
        r = self.rng
        k = r.random()
        if k < 0.12:
            lit = b"[" + b".".join(b"%d" % r.randint(0, 255) for _ in range(4)) + b"]"
            self.features.add("domain-literal")
            return lit, lit
        if k < 0.30:
            labels = [r.choice(LABELS)]                          # no dots: default domain applies
            self.features.add("host-without-dots")
        else:
            labels = [r.choice(LABELS) for _ in range(r.randint(2, 4))]
        if r.random() < 0.15:
            labels[-1] = labels[-1] + b"+"                       # plus domain applies
            self.features.add("host-ending-in-plus")
        enc = labels[0]
        for l in labels[1:]:
            enc += self.ws() + b"." + self.ws() + l
        return enc, b".".join(labels)

    def addr_spec(self, lone_ok=True):
        enc, local = self.local_part()
        if lone_ok and self.rng.random() < 0.15:
            self.features.add("lone-box")
            return enc, Mailbox(local, None)
        denc, dom = self.domain()
        return enc + self.ws() + b"@" + self.ws() + denc, Mailbox(local, dom)

    def phrase(self):
        r = self.rng
        words = []
        for _ in range(r.randint(1, 3)):
            if r.random() < 0.7:
                words.append(r.choice(PHRASE_WORDS))
            else:
                words.append(self.quoted(r.choice(PHRASE_QUOTED)))
        out = words[0]
        for w in words[1:]:
            out += self.ws(need=True) + w
        return out

    def mailbox(self):
        """-> (text, Mailbox, bare) ; bare = plain addr-spec form (may stand next to a missing comma)"""
        r = self.rng
        form = r.choice([0, 0, 0, 1, 2, 2, 3, 4])
        if form == 0:
            enc, mb = self.addr_spec()
            return enc, mb, True
        if form == 3:
            enc, mb = self.addr_spec()
            self.features.add("addr-comment")
            return enc + self.ws() + self.comment(), mb, True
        if form == 4:
            enc, mb = self.addr_spec(lone_ok=False)
            route = b""
            for j in range(r.randint(1, 3)):
                denc, dval = self.domain()
                route += (self.ws() + b"," + self.ws() if j else b"") + b"@" + self.ws() + denc
                mb.route.append(dval)
            self.features.add("route")
            mb.flags.add("route")
            pre = self.phrase() + self.ws() if r.random() < 0.5 else b""
            enc = route + self.ws() + b":" + self.ws() + enc
        else:
            enc, mb = self.addr_spec()
            pre = self.phrase() + self.ws() if form == 2 else b""
            self.features.add("angle-addr" if form == 1 else "phrase-angle-addr")
        lead, trail = self.ws(), self.ws()
        if b"(" in lead:
            mb.flags.add("angle-leading-comment")
            self.features.add("comment-first-in-angle-addr")
        if b"(" in trail:
            mb.flags.add("angle-trailing-comment")
            self.features.add("comment-last-in-angle-addr")
        return pre + b"<" + lead + enc + trail + b">", mb, False

    def group(self):
        r = self.rng
        out = self.phrase() + self.ws() + b":" + self.ws()
        mbs = []
        prev_bare = False
        for j in range(r.choice([0, 1, 1, 2, 3])):
            enc, mb, bare = self.mailbox()
            if j:
                if prev_bare and bare and r.random() < 0.1:
                    out += self.ws(need=True)
                    self.features.add("missing-comma")
                else:
                    out += self.ws() + b"," + self.ws()
            out += enc
            mbs.append(mb)
            prev_bare = bare
        self.features.add("group" if mbs else "empty-group")
        return out + self.ws() + b";", mbs

    def address_list(self, maxitems=5, allow_empty=False):
        """-> (field body bytes without the final newline, [Mailbox])"""
        r = self.rng
        n = r.randint(0 if allow_empty else 1, maxitems)
        out = b""
        mbs = []
        prev_bare = False
        first = True
        if r.random() < 0.03 and n:
            out += b"," + self.ws()
            self.features.add("null-element")
        for _ in range(n):
            if r.random() < 0.15:
                enc, m, bare = self.group() + (False,)
            else:
                enc, mb, bare = self.mailbox()
                m = [mb]
            if not first:
                if prev_bare and bare and r.random() < 0.12:
                    out += self.ws(need=True)
                    self.features.add("missing-comma")
                elif r.random() < 0.04:
                    out += self.ws() + b"," + self.ws() + b"," + self.ws()
                    self.features.add("null-element")
                else:
                    out += self.ws() + b"," + self.ws()
            out += enc
            mbs += m
            prev_bare = bare
            first = False
        if n and r.random() < 0.03:
            out += self.ws() + b","
            self.features.add("null-element")
        return out, mbs

    def field(self, name, maxitems=5, allow_empty=False):
        """a complete header field, newline-terminated"""
        body, mbs = self.address_list(maxitems, allow_empty)
        lead = self.ws() if body else b""
        if not lead and self.rng.random() < 0.8:
            lead = b" "
        tail = self.rng.choice([b"", b"", b" ", b"\t"]) if body else b""
        # RFC 822 section 3.4.2 / RFC 2822 obs-fields: blanks and tabs between the field name and the colon
        pre = b""
        if self.rng.random() < 0.1:
            pre = self.rng.choice([b" ", b"\t", b" \t", b"\t ", b"  "])
            self.features.add("space-before-colon")
        text = name + pre + b":" + lead + body + tail
        # a folded field must not end in a white-space-only line
        while text.endswith((b"\n ", b"\n\t", b"\n")):
            text = text[:-1]
        return text + b"\n", mbs


# --------------------------------------------------------------------- documented rewriting

class InjectConfig:
    """defaulthost / defaultdomain / plusdomain as qmail-inject(8) documents them:
    control file, default me, environment variable overrides the control file."""

    def __init__(self, me, defaulthost=None, defaultdomain=None, plusdomain=None, env=None):
        env = env or {}
        self.me = me
        self.controls = {"defaulthost": defaulthost, "defaultdomain": defaultdomain, "plusdomain": plusdomain}
        self.env = dict(env)
        self.defaulthost = env.get("QMAILDEFAULTHOST", defaulthost if defaulthost is not None else me)
        self.defaultdomain = env.get("QMAILDEFAULTDOMAIN", defaultdomain if defaultdomain is not None else me)
        self.plusdomain = env.get("QMAILPLUSDOMAIN", plusdomain if plusdomain is not None else me)


def qualify(local, domain, cfg):
    """qmail-header(5) / qmail-inject(8): lone box -> default host; host ending in '+' -> plus domain
    (instead of the default domain); host without dots -> default domain; dotted-decimal literal and
    dotted names unchanged.  Applies to defaulthost itself as well."""
    if domain is None:
        domain = cfg.defaulthost
    if domain.startswith(b"["):
        return local + b"@" + domain
    if domain.endswith(b"+"):
        domain = domain[:-1] + b"." + cfg.plusdomain
    elif b"." not in domain:
        domain = domain + b"." + cfg.defaultdomain
    return local + b"@" + domain


def gen_inject_config(rng):
    me = rng.choice([b"me.test", b"me.test", b"me.test", b"mehost"])
    pick = lambda vals: None if rng.random() < 0.3 else rng.choice(vals)
    dh = pick([b"dh.test", b"dh", b"dh+", b"Mail.DH.test", b"a.b+"])
    dd = pick([b"dd.test", b"lan", b"Dom.Test"])
    pd = pick([b"pd.test", b"plus", b"P.D.test"])
    env = {}
    if rng.random() < 0.15:
        env["QMAILDEFAULTHOST"] = rng.choice([b"envdh.test", b"envdh", b"envdh+"])
    if rng.random() < 0.15:
        env["QMAILDEFAULTDOMAIN"] = rng.choice([b"envdd.test", b"envlan"])
    if rng.random() < 0.15:
        env["QMAILPLUSDOMAIN"] = rng.choice([b"envpd.test", b"envplus"])
    return InjectConfig(me, dh, dd, pd, env)


def gen_raw_address(rng):
    """an address as it is passed on a command line: (argument bytes, Mailbox)"""
    k = rng.random()
    if k < 0.5:
        local = rng.choice(PLAIN_WORDS)
    elif k < 0.75:
        local = rng.choice(ODD_WORDS)
    else:
        local = bytes(rng.choice(HOSTILE) for _ in range(rng.randint(1, 8)))
    k = rng.random()
    if k < 0.15 and local and b"@" not in local:
        # (the empty string is not a recipient address, addresses(5); a box with @ would read as box@host)
        return local, Mailbox(local, None)
    if k < 0.25:
        dom = b"[" + b".".join(b"%d" % rng.randint(0, 255) for _ in range(4)) + b"]"
    elif k < 0.45:
        dom = rng.choice(LABELS)
    else:
        dom = b".".join(rng.choice(LABELS) for _ in range(rng.randint(2, 4)))
    if not dom.startswith(b"[") and rng.random() < 0.15:
        dom += b"+"
    return local + b"@" + dom, Mailbox(local, dom)
