"""vbuild: scratch builds of /repo's *current working tree* (DESIGN.md 2.1).
/repo is never written.  Nothing is cached between invocations."""
import atexit
import os
import shutil
import subprocess
import tempfile

from . import core

ASAN_SAN = ("-fsanitize=address,bounds,null,pointer-overflow,signed-integer-overflow,"
            "object-size,vla-bound,shift,return,unreachable,integer-divide-by-zero")
VARIANTS = {
    # clang: static ASan runtime (no LD_PRELOAD ordering problems), UBSan groups of DESIGN 2.1
    "asan": ("clang -O1 -g -fno-omit-frame-pointer " + ASAN_SAN +
             " -fno-sanitize-recover=all -DNOTQMAIL_VERIF -Wno-everything",
             "clang -g " + ASAN_SAN + " -fno-sanitize-recover=all"),
    "plain": ("gcc -O2 -g -DNOTQMAIL_VERIF -w", "gcc -g"),
    "fuzz": ("clang -O1 -g -fno-omit-frame-pointer -fsanitize=fuzzer-no-link,address,bounds,null,"
             "pointer-overflow,signed-integer-overflow,object-size,vla-bound,shift"
             " -fno-sanitize-recover=all -DNOTQMAIL_VERIF -Wno-everything",
             "clang -g -fsanitize=address,bounds,null,pointer-overflow,signed-integer-overflow,"
             "object-size,vla-bound,shift"),
}
CONF_USERS = "games\ndaemon\nlp\nroot\nproxy\nmail\nnews\nuucp\n"
CONF_GROUPS = "mail\nnogroup\n"
# uid/gid of those accounts on this image (resolved at run time by the programs themselves)
AUTO_QMAIL_C = r'''
#include <stdlib.h>
#include <string.h>
char auto_qmail[4096] = "/nonexistent/nqv-home-unset";
__attribute__((constructor)) static void nqv_auto_qmail_init(void)
{
  const char *h = getenv("NQV_HOME");
  if (h && strlen(h) < sizeof auto_qmail) strcpy(auto_qmail, h);
}
'''
ASAN_ENV = {"ASAN_OPTIONS": "abort_on_error=1:detect_leaks=0:handle_abort=1:allocator_may_return_null=1:"
                            "detect_stack_use_after_return=0:symbolize=1:max_allocation_size_mb=3000",
            "UBSAN_OPTIONS": "print_stacktrace=1:halt_on_error=1"}

_tmpdirs = []


def tmproot():
    return os.environ.get("NQV_TMP") or os.environ.get("TMPDIR") or "/tmp"


def mktemp(prefix):
    d = tempfile.mkdtemp(prefix=prefix, dir=tmproot())
    _tmpdirs.append((os.getpid(), d))
    return d


def _cleanup():
    for pid, d in _tmpdirs:
        if pid == os.getpid():
            shutil.rmtree(d, ignore_errors=True)


atexit.register(_cleanup)


def copy_tree(dst, src=None):
    src = src or core.REPO
    try:
        out = subprocess.run(["git", "-C", src, "ls-files", "-co", "--exclude-standard", "-z"],
                             check=True, capture_output=True).stdout
        files = [f for f in out.decode().split("\0") if f]
    except Exception:
        files = []
        for r, ds, fs in os.walk(src):
            if ".git" in ds:
                ds.remove(".git")
            for f in fs:
                if not f.endswith((".o", ".a")):
                    files.append(os.path.relpath(os.path.join(r, f), src))
    n = 0
    for f in files:
        s = os.path.join(src, f)
        if not os.path.isfile(s) and not os.path.islink(s):
            continue            # deleted in the working tree
        if f.endswith((".o", ".a")):
            continue
        try:
            with open(s, "rb") as fh:
                if fh.read(4) == b"\x7fELF":
                    continue
        except OSError:
            continue
        d = os.path.join(dst, f)
        os.makedirs(os.path.dirname(d) or dst, exist_ok=True)
        shutil.copy2(s, d, follow_symlinks=False)
        n += 1
    if n < 100:
        raise core.Inconclusive("source tree copy found only %d files in %s" % (n, src))


class Build:
    def __init__(self, variant, d):
        self.variant = variant
        self.dir = d
        self.cc, self.ld = VARIANTS[variant]

    def path(self, name):
        return os.path.join(self.dir, name)

    def env(self, home=None, extra=None):
        e = {"PATH": "/usr/bin:/bin"}
        if self.variant in ("asan", "fuzz"):
            e.update(ASAN_ENV)
        if home:
            e["NQV_HOME"] = home
        if extra:
            e.update(extra)
        return e

    def compile_harness(self, src, out=None, extra_objs=(), defs=(), libs=(), cc_extra=()):
        """Compile a harness C file against this scratch tree (include path = tree) and
        link with the given objects/archives of the tree."""
        out = out or os.path.join(self.dir, "nqv_" + os.path.basename(src).replace(".c", ""))
        cc = self.cc.split()
        objs = [o if os.path.isabs(o) else os.path.join(self.dir, o) for o in extra_objs]
        cmd = cc + ["-I", self.dir, "-I", os.path.join(core.VERIF, "harness")] + list(defs) + list(cc_extra) + \
            ["-o", out, src] + objs + list(libs)
        p = subprocess.run(cmd, capture_output=True, text=True, cwd=self.dir)
        if p.returncode != 0:
            raise core.Inconclusive("harness %s does not compile against this tree:\n%s" % (
                os.path.basename(src), p.stderr[-3000:]))
        return out

    def cleanup(self):
        shutil.rmtree(self.dir, ignore_errors=True)


def vbuild(variant="asan", src=None, targets=("it",)):
    d = mktemp("nqv-b-%s-" % variant)
    copy_tree(d, src)
    cc, ld = VARIANTS[variant]
    with open(os.path.join(d, "conf-cc"), "w") as f:
        f.write(cc + "\n\nscratch build (nqv)\n")
    with open(os.path.join(d, "conf-ld"), "w") as f:
        f.write(ld + "\n\nscratch build (nqv)\n")
    with open(os.path.join(d, "conf-users"), "w") as f:
        f.write(CONF_USERS + "\nscratch\n")
    with open(os.path.join(d, "conf-groups"), "w") as f:
        f.write(CONF_GROUPS + "\nscratch\n")
    env = dict(os.environ)
    env.pop("MAKEFLAGS", None)
    p = subprocess.run(["make", "-s", "auto-str"], cwd=d, capture_output=True, text=True, env=env)
    if p.returncode != 0:
        raise core.Inconclusive("scratch build failed (auto-str):\n" + (p.stdout + p.stderr)[-3000:])
    with open(os.path.join(d, "auto_qmail.c"), "w") as f:
        f.write(AUTO_QMAIL_C)
    os.utime(os.path.join(d, "auto_qmail.c"))
    p = subprocess.run(["make", "-s", "-j16"] + list(targets), cwd=d, capture_output=True, text=True, env=env)
    if p.returncode != 0:
        raise core.Inconclusive("scratch build of the working tree failed:\n" + (p.stdout + p.stderr)[-4000:])
    return Build(variant, d)
