"""Online oracles over qsim event streams (DESIGN.md section 3: C02, C03, C04, C14, C15, C16).
Each oracle is constructed as O(res, history) and consumes events via the qsim.Oracle hooks."""
import os
import math

from . import core, qsim, shim
from .ledger import CH, parse_chanfile
from .refmodel import bounce as bouncemodel

SPLIT = qsim.SPLIT
OSSIFIED = 129600


class HOracle(qsim.Oracle):
    def __init__(self, res, hist):
        super().__init__(res)
        self.h = hist

    @property
    def ledger(self):
        return self.h.ledger

    def violate(self, key, why, extra=None):
        w = self.h.witness()
        if extra:
            w.update(extra)
        self.res.violate(key, why, w)


def qparts(ev):
    """('local', 123) from a sys event path 'queue/local/7/123'"""
    p = (ev.get("path") or "").replace(" (deleted)", "")
    parts = p.split("/")
    if len(parts) >= 3 and parts[0] == "queue":
        try:
            return parts[1], int(parts[-1])
        except ValueError:
            return parts[1], None
    return None, None


def qparts2(ev):
    p = (ev.get("path2") or "")
    parts = p.split("/")
    if len(parts) >= 3 and parts[0] == "queue":
        try:
            return parts[1], int(parts[-1])
        except ValueError:
            return parts[1], None
    return None, None


# ============================================================================ C03
class NoLossOracle(HOracle):
    property_id = "C03"

    def __init__(self, res, hist):
        super().__init__(res, hist)
        self.marks_checked = 0
        self.unlinks_checked = 0

    def on_event(self, ev, sim):
        if ev["kind"] == "disk-forgot" and ev.get("path", "").startswith("bounce/"):
            try:
                m = self.ledger.msg(int(ev["path"].split("/")[-1]))
            except ValueError:
                m = None
            if m is not None:
                m.bounce_lost_gen = self.ledger.generation

    def on_step(self, ev, sim):
        # (a) a D mark may only follow a K or D report (Z only when the pass is dying)
        if ev.get("c") == "write" and ev.get("len") == 1 and ev.get("data") == "44" and ev.get("ret") == 1:
            d, num = qparts(ev)
            if d not in ("local", "remote"):
                return
            r, m = ev.get("rcpt"), ev.get("msg")
            if r is None or m is None:
                return
            self.marks_checked += 1
            self.res.counters.inc("marks_checked")
            last = ev.get("last_report_before_mark")
            if ev.get("expired"):
                # legitimate: Z in a dying pass (the ledger checked pass-open time > birth + lifetime)
                self.res.counters.inc("z_turned_d_by_lifetime")
                return
            if last in ("K", "D"):
                return
            self.violate("C03/mark-after/%s" % (last or "no-report"),
                         "recipient %r of message %d marked done although its latest report is %r" % (r.addr, m.num, last))

    def on_gate(self, ev, sim):
        c = ev.get("c")
        if c != "unlink":
            return
        d, num = qparts(ev)
        if num is None:
            return
        if d in ("local", "remote"):
            # (b) a channel file may only disappear when every record is marked D
            p = sim.qpath(d, str(num % SPLIT), str(num))
            if not os.path.exists(p):
                return
            if ev.get("role", "").startswith("send") and ev.get("prog") == "qmail-send":
                m = self.ledger.msg(num)
                todo = os.path.exists(sim.qpath("todo", str(num)))
                if todo:
                    return     # preprocessing (re)starts from the todo entry: old channel files are rebuilt
                data = qsim.read_noatime(p)
                self.unlinks_checked += 1
                self.res.counters.inc("channel_unlinks_checked")
                chan = "l" if d == "local" else "r"
                byoff = {r.off: r for r in ((m.records or {}).get(chan, []) if m is not None else [])}
                left = []
                for off, t, a in parse_chanfile(data, d):
                    if t == b"D":
                        continue
                    r = byoff.get(off)
                    if r is not None and not r.final() and self.ledger.expire_if_dying(m, r):
                        # Z in a dying pass whose mark could not be written (injected fault): a failure, and rule (c)
                        # below demands the notice for it
                        self.res.counters.inc("expired_unmarked_at_unlink")
                    if r is not None and r.final():
                        # reported K or D but the one-byte mark could not be written (injected write/open
                        # fault: "trouble marking ... will be delivered twice"): the recipient is accounted for
                        self.res.counters.inc("unmarked_but_finished_at_unlink")
                        continue
                    left.append(a)
                if left:
                    self.violate("C03/channel-file-removed-with-open-recipients/%s" % d,
                                 "%s/%d unlinked while %r still not done" % (d, num, left[:3]))
        elif d == "info" and ev.get("prog") == "qmail-send":
            # (c) the message may only leave when every recipient is accounted for
            if os.path.exists(sim.qpath("todo", str(num))):
                return
            m = self.ledger.msg(num)
            if m is None or m.records is None:
                return
            self.ledger.scan_recs(sim)
            self.res.counters.inc("message_removals_checked")
            for r in m.all_rcpts():
                if not r.final() and not r.marked:
                    self.ledger.expire_if_dying(m, r)
                if not r.final() or not r.marked:
                    # marks can be reverted by a lose-unsynced crash; what matters is the report
                    if not r.final():
                        self.violate("C03/message-removed-with-unfinished-recipient",
                                     "info/%d unlinked but recipient %r has reports %r" % (num, r.addr, r.reports))
                        continue
                if r.reports[-1] == "D":
                    if m.sender == b"#@[]":
                        r.discarded = True
                        continue
                    if not self.bounced(m, r):
                        if getattr(m, "bounce_lost_gen", None) is not None and (r.finished_gen or 0) <= m.bounce_lost_gen:
                            # INTERNALS: "bounce/457 is not crashproof" - the note was written, then a crash
                            # lost the un-fsynced bounce file (disk variant); the documented exemption
                            self.res.counters.inc("exempt_bounce_record_lost_in_crash")
                            continue
                        self.violate("C03/failed-recipient-not-in-a-queued-bounce",
                                     "info/%d unlinked; recipient %r failed permanently but no queued notice names it" % (num, r.addr),
                                     {"notices_seen": [{"to": [core.hx(x) for x in rec.get("recips", [])],
                                                        "parent": rec["parent"].key() if rec.get("parent") else None,
                                                        "paragraph_heads": [core.hx(p.split(b"\n", 1)[0][:60]) for p in (rec.get("notice") or {}).get("paras", [])]}
                                                       for rec in self.ledger.bounce_recs[-6:]], "message": m.key()})
                    else:
                        r.bounced = True

    def bounced(self, m, r):
        for rec in self.ledger.bounce_recs:
            if not rec.get("complete"):
                continue
            if rec.get("parent") is not m:
                # parent links are computed when a record is first seen; decide again now that every body is known
                orig = (rec.get("notice") or {}).get("original") or b""
                if not (m.body and m.body in orig):
                    continue
            n = rec.get("notice")
            if not n:
                continue
            for p in n["paras"]:
                a = bouncemodel.para_recipient(p)
                if a is not None and (a == r.addr.replace(b"\n", b"_") or r.addr.endswith(a)):
                    return True
        return False

    def at_end(self, sim):
        # bounded progress: the scenario answered everything and stepped the clock; the queue must be empty
        left = {n: d for n, d in sim.scan().items() if "info" in d or "todo" in d or not d <= {"mess", "intd"}}
        if self.h.finished and not self.h.stuck:
            if left:
                self.violate("C03/queue-not-drained", "history finished but the queue still holds %r" % dict(list(left.items())[:4]))
            for m in self.ledger.msgs.values():
                if m.records is None:
                    if m.recips and m.kind == "user":
                        self.violate("C03/message-never-preprocessed", "message %d accepted but never preprocessed" % m.num)
                    continue
                for r in m.all_rcpts():
                    if not r.final():
                        self.violate("C03/recipient-lost", "recipient %r of message %d ended with reports %r, marked=%s" % (
                            r.addr, m.num, r.reports, r.marked))
                n_env = len(m.recips)
                n_rec = len(m.all_rcpts())
                if n_env != n_rec:
                    self.violate("C03/recipient-count-changed", "message %d: %d envelope recipients, %d channel records" % (m.num, n_env, n_rec))
            self.res.counters.inc("histories_finished")


# ============================================================================ C04
class OnceOracle(HOracle):
    property_id = "C04"

    def on_event(self, ev, sim):
        k = ev["kind"]
        if k == "cmd":
            cmd = ev["cmd"]
            self.res.counters.inc("commands_seen")
            if ev.get("delnum_in_use"):
                self.violate("C04/delnum-reused-while-outstanding", "delivery number %d on channel %s issued while still outstanding" % (cmd.delnum, cmd.chan))
            n_out = sum(1 for (c, d) in sim.outstanding if c == cmd.chan) + (0 if (cmd.chan, cmd.delnum) in sim.outstanding else 1)
            lim = self.h.limit(cmd.chan)
            if n_out > lim:
                self.violate("C04/concurrency-exceeded/%s" % CH[cmd.chan], "%d outstanding on %s, limit min(%r, %r)" % (
                    n_out, cmd.chan, self.h.conc, self.h.spawn))
            self.res.counters["max_outstanding_seen"] = max(self.res.counters.get("max_outstanding_seen", 0), n_out)
            if self.ledger.term_sent:
                self.violate("C04/delivery-started-after-TERM", "command %r after SIGTERM" % (cmd,))
            m, r = ev.get("msg"), ev.get("rcpt")
            if m is None or r is None:
                return
            # multiset rule: attempts in flight + finished <= multiplicity of that address on that channel
            same = [x for x in (m.records or {}).get(cmd.chan, []) if x.addr == cmd.recip]
            fin = sum(1 for x in same if x.final())
            inflight = sum(1 for (c, d), oc in sim.outstanding.items() if oc is not cmd and oc.num == cmd.num and oc.gen == cmd.gen and oc.chan == cmd.chan and oc.recip == cmd.recip)
            if inflight + 1 > len(same) - fin:
                if inflight >= len(same) - fin and inflight > 0 and fin < len(same):
                    self.violate("C04/two-attempts-in-flight", "second attempt for %r of message %d while one is outstanding" % (cmd.recip, cmd.num))
                else:
                    # every record of that address already finished: allowed only after a crash that lost the mark
                    lost = [x for x in same if x.final() and not x.marked]
                    if lost and self.ledger.crashed:
                        self.res.counters.inc("reattempt_after_crash_before_mark")
                        x = lost[0]
                        x.reports.append("R")     # re-opened
                    elif self.ledger.crashed and self.h.prof.variant != "keep-all":
                        self.res.counters.inc("reattempt_after_unsynced_mark_lost")
                        for x in same:
                            if x.final():
                                x.reports.append("R")
                                x.marked = False
                                break
                    else:
                        self.violate("C04/finished-recipient-attempted-again",
                                     "command for %r of message %d although it was reported %r (marked=%r)" % (
                                         cmd.recip, cmd.num, [x.reports for x in same], [x.marked for x in same]))
        elif k == "exit" and ev.get("who") == "send":
            st = ev["status"]
            if self.ledger.term_sent and os.WIFEXITED(st) and sim.outstanding:
                alive = True
                self.violate("C04/exit-with-deliveries-outstanding", "daemon exited after TERM with %d deliveries outstanding" % len(sim.outstanding))

    def at_end(self, sim):
        if self.ledger.crashed:
            return
        for m in self.ledger.msgs.values():
            for r in m.all_rcpts():
                if "R" in r.reports:
                    continue        # re-opened after a failed mark write (injected fault): "will be delivered twice" is documented
                ks = r.reports.count("K")
                if ks > 1 or (ks == 1 and r.reports[-1] != "K"):
                    self.violate("C04/delivered-more-than-once", "recipient %r of message %d: reports %r without any crash" % (r.addr, m.num, r.reports))




# ============================================================================ C02
def pattern_ok(s):
    """INTERNALS.md section 2: S1..S5 over {mess,intd,todo,info,local,remote,bounce}"""
    if not s:
        return "S1"
    if "mess" not in s:
        return None
    if "todo" in s:
        return None if "bounce" in s else "S4"
    if "intd" in s:
        return "S3" if s == {"mess", "intd"} else None
    if "info" in s:
        return "S5"
    return "S2" if s == {"mess"} else None


class QueueStateOracle(HOracle):
    property_id = "C02"

    def __init__(self, res, hist):
        super().__init__(res, hist)
        self.last_state = {}
        self.eliminating = set()

    def check_num(self, num, sim, ev, why):
        s = sim.pattern_of(num)
        st = pattern_ok(s)
        self.res.counters.inc("pattern_checks")
        key = "".join(c if d in s else "-" for c, d in zip("MITFLRB", qsim.QDIRS))
        d = self.res.counters.setdefault("distinct_patterns", set())
        d.add(key)
        prev = self.last_state.get(num)
        if prev != key:
            self.res.counters.setdefault("distinct_transitions", set()).add((prev or "-------", key))
            self.last_state[num] = key
        if st is None:
            self.violate("C02/undocumented-state/%s/by=%s" % (key, (ev.get("prog") or "?").replace("qmail-", "")),
                         "after %s %s by %s message %d is in pattern %s (mess intd todo info local remote bounce), not S1-S5" % (
                             ev.get("c"), ev.get("path2") or ev.get("path"), ev.get("prog"), num, key))
        if "mess" in s:
            p = sim.qpath("mess", str(num % SPLIT), str(num))
            try:
                ino = os.stat(p).st_ino
                if ino != num:
                    self.violate("C02/name-not-inode", "mess/%d has inode %d" % (num, ino))
            except OSError:
                pass

    def on_step(self, ev, sim):
        c = ev.get("c")
        if c not in ("unlink", "link", "rename", "open", "close"):
            return
        if ev.get("ret", -1) < 0:
            return
        if c == "open" and not ev.get("creat"):
            return
        if c == "close":
            return
        for d, num in (qparts(ev), qparts2(ev)):
            if d in qsim.QDIRS and num is not None:
                self.check_num(num, sim, ev, c)
        d2, num2 = qparts2(ev)
        if c == "link" and d2 == "mess" and num2 is not None:
            s = sim.pattern_of(num2)
            if s != {"mess"}:
                self.violate("C02/number-shared", "message number %d given to a new message while files %r of another still exist" % (num2, sorted(s - {"mess"})))
        d, num = qparts(ev)
        if c == "unlink" and d == "info" and ev.get("prog") == "qmail-send" and num is not None:
            if not os.path.exists(sim.qpath("todo", str(num))):
                self.eliminating.add(num)
        if c == "unlink" and d == "mess" and num is not None:
            self.eliminating.discard(num)

    def on_gate(self, ev, sim):
        # removals by the cleaner outside elimination/preprocessing = garbage collection: only after 36 h, no info, no todo
        if ev.get("c") != "unlink" or ev.get("prog") != "qmail-clean":
            return
        d, num = qparts(ev)
        if num is None:
            return
        if d in ("mess", "intd"):
            s = sim.pattern_of(num)
            if "todo" in s and d == "intd":
                return                      # end of preprocessing: intd then todo
            if num in self.eliminating:
                return
            p = sim.qpath("mess", str(num % SPLIT), str(num))
            self.res.counters.inc("gc_removals_checked")
            try:
                at = int(os.stat(p).st_atime)
            except OSError:
                at = None
            if "info" in s or "todo" in s:
                self.violate("C02/gc-of-live-message", "qmail-clean removes %s/%d although %r exist" % (d, num, sorted(s)))
            elif at is not None and not (sim.vnow() > at + OSSIFIED):
                self.violate("C02/gc-before-36h", "qmail-clean removes %s/%d at age %d s (atime %d, now %d)" % (d, num, sim.vnow() - at, at, sim.vnow()))
        elif d == "pid" or (ev.get("path") or "").startswith("queue/pid/"):
            pass

    def on_quiesce(self, q, sim):
        for num, dirs in sim.scan().items():
            if not num.isdigit():
                self.violate("C02/foreign-file", "file named %r in the queue" % num)
                continue
            if any(x.startswith("WRONGSPLIT") for x in dirs):
                self.violate("C02/wrong-split-directory", "message %s filed under the wrong subdirectory: %r" % (num, sorted(dirs)))
            self.check_num(int(num), sim, {"c": "scan", "prog": "scan"}, "scan")
        self.res.counters.inc("full_scans")


# ============================================================================ C14
def text_conserved(report, rest):
    """every non-newline byte of the report text appears in order; each newline of the report maps to
    exactly one byte (a newline or a substitute); trailing newlines may be absent.  -> bool"""
    i = j = 0
    n, m = len(report), len(rest)
    while i < n:
        if report[i] == 10:
            if j < m:
                j += 1
                i += 1
                continue
            # paragraph ended: the remaining report bytes must all be newlines
            return all(c == 10 for c in report[i:])
        if j >= m or rest[j] != report[i]:
            return False
        i += 1
        j += 1
    return j >= m or all(c == 10 for c in rest[j:])


class BounceOracle(HOracle):
    property_id = "C14"

    def __init__(self, res, hist):
        super().__init__(res, hist)
        self.checked = set()
        self.fail_seq = {}

    def vstrip(self, addr):
        """remove the virtual-domain prefix the scenario configured: the entry for the domain, else for the nearest
        parent (.parent), else the catch-all decides (qmail-send(8), virtualdomains); an empty prepend means
        'not virtual'"""
        v = getattr(self.h, "vdoms", {})
        if b"@" in addr and v:
            local, dom = addr.rsplit(b"@", 1)
            d = dom.lower()
            keys = [d] + [d[i:] for i in range(1, len(d)) if d[i:i + 1] == b"."] + [b""]
            for k in keys:
                if k in v:
                    p = v[k]
                    if p and addr.startswith(p + b"-"):
                        return addr[len(p) + 1:]
                    return addr
        return addr

    def expected_recipient(self, m):
        if m.sender == b"":
            return self.h.doublebounceto
        s = m.sender
        if s.endswith(b"-@[]"):
            s = s[:-4]
        return s

    def direct_recs(self, m):
        out = []
        for rec in self.ledger.bounce_recs:
            n = rec.get("notice")
            if not n or not rec.get("complete"):
                continue
            orig = n.get("original") or b""
            parts = orig.split(b"\n", 2)
            if len(parts) == 3 and parts[2] == m.body and parts[0].startswith(b"Return-Path: <"):
                out.append(rec)
        return out

    def on_gate(self, ev, sim):
        if ev.get("c") != "unlink" or ev.get("prog") != "qmail-send":
            return
        d, num = qparts(ev)
        if num is None or d not in ("bounce", "info"):
            return
        if os.path.exists(sim.qpath("todo", str(num))):
            return
        m = self.ledger.msg(num)
        if m is None or m.records is None:
            return
        self.ledger.scan_recs(sim)
        failed = [r for r in m.all_rcpts() if r.final() and r.reports[-1] == "D"]
        recs = self.direct_recs(m)
        if d == "bounce":
            # the bounce record may only go once the notice is queued (or is being discarded)
            if failed and m.sender != b"#@[]" and not recs and os.path.exists(sim.qpath("bounce", str(num))) \
                    and os.path.getsize(sim.qpath("bounce", str(num))) > 0:
                self.violate("C14/bounce-record-removed-before-notice-queued", "bounce/%d unlinked but no notice for message %d was queued" % (num, num))
            return
        if m.key() in self.checked:
            return
        self.checked.add(m.key())
        self.res.counters.inc("messages_checked")
        if not failed:
            if recs:
                self.violate("C14/notice-without-failure", "message %d had no permanent failure but a notice was queued" % num)
            return
        self.res.counters.inc("messages_with_failures")
        if m.sender == b"#@[]":
            self.res.counters.inc("double_bounce_failures_discarded")
            if recs:
                self.violate("C14/failing-double-bounce-generated-mail", "a message with sender #@[] failed and produced another message")
            return
        if len(recs) != 1:
            self.violate("C14/notice-count/%d" % len(recs), "message %d with %d failed recipients produced %d notices" % (num, len(failed), len(recs)))
            if not recs:
                return
        rec = recs[0]
        n = rec["notice"]
        kind = "double" if m.sender == b"" else "single"
        self.res.counters.inc("notices_checked_" + kind)
        want_sender = b"#@[]" if m.sender == b"" else b""
        if rec["sender"] != want_sender:
            self.violate("C14/envelope-sender/%s" % kind, "notice sent with envelope sender %r, expected %r" % (rec["sender"], want_sender))
        want_rcpt = self.expected_recipient(m)
        if rec["recips"] != [want_rcpt]:
            self.violate("C14/envelope-recipient/%s" % kind, "notice addressed to %r, expected [%r] (original sender %r)" % (rec["recips"], want_rcpt, m.sender))
        # one paragraph per failed recipient, in the order the failures were reported
        failed_sorted = sorted(failed, key=lambda r: self.fail_seq.get(id(r), 0))
        paras = n["paras"]
        if len(paras) != len(failed):
            self.violate("C14/paragraph-count", "%d failed recipients but %d paragraphs: %r" % (
                len(failed), len(paras), [core.hx(p.split(b"\n", 1)[0][:50]) for p in paras]))
            return
        # the statement fixes no order of the paragraphs (reports of the two channels that arrive together are
        # processed channel by channel): every paragraph must belong to a failed recipient not yet used, preferably
        # the one reported earliest whose text it carries
        def head_ok(head, want):
            return head is not None and len(head) == len(want) and all((a == b_) or (b_ == 10 and a != 10) for a, b_ in zip(head, want))

        def text_ok(r, rest):
            text = r.bounce_text or b""
            if text == b"(expired)":
                return b"too long" in rest
            return len(text) > 9000 or text_conserved(text, rest)
        remaining = list(failed_sorted)
        for p in paras:
            head = bouncemodel.para_recipient(p)
            rest = p.split(b"\n", 1)[1] if b"\n" in p else b""
            cands = [r for r in remaining if head_ok(head, self.vstrip(r.addr))]
            if not cands:
                self.violate("C14/paragraph-head", "paragraph starts %r, which is none of the failed recipients still unnamed %r" % (
                    core.hx(p.split(b"\n", 1)[0][:80]), [core.hx(self.vstrip(r.addr))[:60] for r in remaining[:4]]))
                continue
            r = next((x for x in cands if text_ok(x, rest)), cands[0])
            remaining.remove(r)
            text = r.bounce_text or b""
            if text == b"(expired)":
                if b"too long" not in rest:
                    self.violate("C14/expiry-text-missing", "expired recipient %r bounced without the explanatory text" % r.addr)
                continue
            if len(text) > 9000:
                self.res.counters.inc("oversized_reports")
                continue
            if not text_conserved(text, rest):
                self.violate("C14/failure-text-not-conserved", "recipient %r: report %r became %r" % (r.addr, core.hx(text[:120]), core.hx(rest[:120])))
        hdr_to = bouncemodel.header_field(n["header"], b"To")
        if hdr_to is None:
            self.violate("C14/no-to-header", "notice has no To: field")
        self.res.sample({"notice_for": core.hx(m.sender), "to": [core.hx(x) for x in rec["recips"]],
                         "paragraph_heads": [core.hx(p.split(b"\n", 1)[0][:60]) for p in paras]}, cap=3)

    def on_event(self, ev, sim):
        if ev["kind"] == "report" and ev.get("eff") in ("D", "Z") and ev.get("rcpt") is not None:
            self.fail_seq[id(ev["rcpt"])] = ev["seq"]


# ============================================================================ C15 / C16
def isqrt(x):
    return math.isqrt(x) if x > 0 else 0


def f_retry(birth, t, chan):
    n = isqrt(t - birth) if t > birth else 0
    n += 10 if chan == "l" else 20
    return birth + n * n


class RetryOracle(HOracle):
    """C15 on histories, judged on delivery commands: a recipient that was deferred is not attempted
    again before the retry time fixed when the pass of its previous attempt was opened
    (birth + (isqrt(t_open - birth) + 10|20)^2, observed through the class-o events of the shim),
    it is attempted promptly once that time has come and a slot is free, earlier-due messages are
    served first, the schedule survives TERM + restart, ALRM makes waiting messages due at once,
    and past the queue lifetime a deferral becomes a failure."""
    property_id = "C15"

    def __init__(self, res, hist):
        super().__init__(res, hist)
        self.alrms = []              # seq of every ALRM
        self.alrm_due = {}           # (msg key, chan) -> seq of the latest ALRM that found it waiting
        self.crash_gen = set()
        self.term_busy = {}          # generation -> set of channels that had deliveries outstanding when TERM arrived
        self.last_po = {}            # id(rcpt) -> pass-open tuple of its latest attempt
        self.term_waiting = {}       # generation -> {(msg key, chan)} that waited in the schedule when TERM arrived

    def waiting(self, sim):
        """(msg, chan) pairs that wait in the schedule: nothing of that message outstanding on the channel"""
        out = []
        for m in self.ledger.msgs.values():
            if m.gone or m.records is None or m.birth is None or self.ledger.cur.get(m.num) != m.gen:
                continue
            for chan, recs in m.records.items():
                if not [r for r in recs if not r.marked and not r.final()]:
                    continue
                if any(c.num == m.num and c.gen == m.gen and c.chan == chan for c in sim.outstanding.values()):
                    continue
                out.append((m, chan))
        return out

    def in_schedule(self, m, chan, sim):
        """no pass over (m, chan) is open: the latest pass (class-o open of the channel file) has reached every record that
        is still open, and all deliveries it started have been reported, so the job was closed and the message put back"""
        if any(c.num == m.num and c.gen == m.gen and c.chan == chan for c in sim.outstanding.values()):
            return False
        po = m.pass_open.get(chan, [])
        if not po or po[-1][1] != self.ledger.generation:
            return True
        s_open = po[-1][2]
        for r in m.records.get(chan, []):
            if not r.marked and not r.final() and not any(c.seq > s_open for c in r.cmds):
                return False          # the pass has not reached this record yet (no free slot): it is still open
        return True

    def on_event(self, ev, sim):
        k = ev["kind"]
        if k == "signal" and ev["sig"] == "ALRM":
            self.alrms.append(ev["seq"])
            for m, chan in self.waiting(sim):
                # only messages waiting in the schedule are made due; one whose pass is open is being served anyway
                if self.in_schedule(m, chan, sim):
                    self.alrm_due[(m.key(), chan)] = ev["seq"]
        elif k == "signal" and ev["sig"] == "TERM":
            self.term_busy[self.ledger.generation] = {c.chan for c in sim.outstanding.values()}
            self.term_waiting[self.ledger.generation] = {(m.key(), chan) for m, chan in self.waiting(sim) if self.in_schedule(m, chan, sim)}
        elif k == "crash" and "send" in ev.get("who", []):
            self.crash_gen.add(self.ledger.generation + 1)
        elif k == "cmd":
            m, r = ev.get("msg"), ev.get("rcpt")
            if m is None or r is None or m.birth is None:
                return
            chan = r.chan
            po = m.pass_open.get(chan, [])
            if not po:
                return
            cur = po[-1]
            prev = self.last_po.get(id(r))
            self.last_po[id(r)] = cur
            self.res.counters.inc("attempts_seen")
            if prev is None:
                return
            t0_, g0, s0 = prev
            t1, g1, s1 = cur
            due = f_retry(m.birth, t0_, chan)
            if due <= t0_:
                self.violate("C15/retry-time-not-in-future", "computed retry %d <= pass time %d" % (due, t0_))
            excused = any(a > s0 for a in self.alrms) or getattr(self.h, "faults_active", False)
            if g1 != g0:
                if any(g in self.crash_gen for g in range(g0 + 1, g1 + 1)):
                    excused = True           # no pqfinish after a crash: the file's own mtime applies
                elif any(chan in self.term_busy.get(g, {chan}) for g in range(g0, g1)):
                    excused = True           # a pass that is still open at exit is not written back (observed behaviour)
            if t1 < due and not excused:
                self.violate("C15/retried-before-backoff/%s%s" % (CH[chan], "/across-restart" if g1 != g0 else ""),
                             "recipient %r of message %d: attempt in the pass opened at age %d, next attempt in a pass opened at age %d, "
                             "earliest allowed age %d = (isqrt(%d)+%d)^2" % (r.addr, m.num, t0_ - m.birth, t1 - m.birth, due - m.birth,
                                                                            max(0, t0_ - m.birth), 10 if chan == "l" else 20))
            elif not excused:
                self.res.counters.inc("backoff_intervals_checked")
                if g1 != g0:
                    self.res.counters.inc("backoff_checked_across_restart")

    def due_of(self, m, chan, now):
        po = m.pass_open.get(chan, [])
        if not po:
            return None
        if po[-1][1] != self.ledger.generation:
            # the schedule survives a clean restart: a message that waited in it at every TERM since its latest pass has its due
            # time (also one set by an ALRM) written back at exit and read again at start-up
            for g in range(po[-1][1], self.ledger.generation):
                if (g + 1) in self.crash_gen or (m.key(), chan) not in self.term_waiting.get(g, ()):
                    return None
        due = f_retry(m.birth, po[-1][0], chan)
        if self.alrm_due.get((m.key(), chan), 0) > po[-1][2]:
            due = min(due, now)
        return due

    def on_step(self, ev, sim):
        # the converse of expiry: a temporary failure of a message that is not older than the lifetime (as of the
        # opening of its latest pass) must stay a deferral; the daemon shows its decision by writing the mark
        if ev.get("c") == "write" and ev.get("len") == 1 and ev.get("data") == "44" and ev.get("ret") == 1 \
                and ev.get("rcpt") is not None and ev.get("msg") is not None and qparts(ev)[0] in ("local", "remote"):
            self.res.counters.inc("marks_seen")
            if ev.get("last_report_before_mark") == "Z":
                if ev.get("expired"):
                    self.res.counters.inc("expired_deferrals_made_permanent")
                else:
                    m, r = ev["msg"], ev["rcpt"]
                    opens = [po[-1] for po in m.pass_open.values() if po]
                    age = (max(opens, key=lambda x: x[2])[0] - m.birth) if opens and m.birth is not None else None
                    self.violate("C15/temporary-failure-made-permanent-before-lifetime",
                                 "recipient %r of message %d answered Z in a pass opened at age %s (lifetime %d) was marked done" % (
                                     r.addr, m.num, age, self.h.lifetime))
            return
        # earliest-due first: a pass opens while nothing at all is outstanding on its channel (so every other
        # message of the channel waits in the schedule): no waiting message may have an earlier due time
        if ev.get("c") != "openr" or ev.get("prog") != "qmail-send" or ev.get("ret", -1) < 0:
            return
        d, num = qparts(ev)
        if d not in ("local", "remote") or num is None:
            return
        m = self.ledger.msg(num)
        if m is None or m.birth is None:
            return
        chan = "l" if d == "local" else "r"
        self.res.counters.inc("pass_opens_seen")
        po = m.pass_open.get(chan, [])
        if len(po) < 2 or po[-2][1] != po[-1][1] or any(c.chan == chan for c in sim.outstanding.values()):
            return
        if any(a > po[-2][2] for a in self.alrms):
            return
        now = sim.vnow()
        my_due = f_retry(m.birth, po[-2][0], chan)
        for o, ochan in self.waiting(sim):
            if o is m or ochan != chan:
                continue
            opo = o.pass_open.get(chan, [])
            if not opo or opo[-1][1] != self.ledger.generation or any(a > opo[-1][2] for a in self.alrms):
                continue
            odue = f_retry(o.birth, opo[-1][0], chan)
            self.res.counters.inc("ordering_pairs_checked")
            if odue < my_due and odue <= now:
                self.violate("C15/later-due-served-first", "message %d (due %d) got a pass at %d before message %d (due %d)" % (
                    num, my_due - shim.T0, now - shim.T0, o.num, odue - shim.T0))

    def on_quiesce(self, q, sim):
        if self.ledger.term_sent:
            return
        T = q.get("T", 0)
        now = sim.vnow()
        busy_ch = {c.chan for c in sim.outstanding.values()}
        for m, chan in self.waiting(sim):
            if chan in busy_ch or self.h.limit(chan) == 0:
                continue         # slots in use or a pass possibly open on this channel: the bound need not hold
            due = self.due_of(m, chan, now)
            if due is None:
                continue
            self.res.counters.inc("sleep_bounds_checked")
            if now + T > due + 2:
                key = "C15/not-retried-promptly" if due <= now else "C16/sleeps-past-due-retry"
                self.violate(key + "/" + CH[chan], "message %d due at %d, now %d, daemon asks to sleep %d s with free slots" % (
                    m.num, due - shim.T0, now - shim.T0, T))
        # past the lifetime: a Z answered in a pass opened after expiry must have become a failure
        for m in self.ledger.msgs.values():
            if m.gone or m.records is None or m.birth is None or self.ledger.cur.get(m.num) != m.gen:
                continue
            for chan, recs in m.records.items():
                po = m.pass_open.get(chan, [])
                for r in recs:
                    lp = self.last_po.get(id(r))
                    if r.reports and r.reports[-1] == "Z" and not r.marked and lp and lp[1] == self.ledger.generation \
                            and lp[0] > m.birth + self.h.lifetime and not any(sim.outstanding.get((c.chan, c.delnum)) is c for c in r.cmds):
                        self.violate("C15/expired-message-deferred-again", "message %d: recipient %r answered Z in a pass opened %d s after birth "
                                     "(lifetime %d) and is still pending" % (m.num, r.addr, lp[0] - m.birth, self.h.lifetime))


class WakeupOracle(HOracle):
    property_id = "C16"

    def __init__(self, res, hist):
        super().__init__(res, hist)
        self.spin = 0
        self.work = 0
        self.last_work = 0

    def on_step(self, ev, sim):
        # directory reads do not count as work (a daemon that rescans an empty todo directory forever is spinning)
        if ev.get("c") not in ("opendir", "readdir", "openr"):
            self.work += 1

    def on_event(self, ev, sim):
        k = ev["kind"]
        if k == "selret":
            if ev.get("T") == 0 and self.work == self.last_work:
                self.spin += 1
                if self.spin == 200:
                    try:
                        todo = os.listdir(sim.qpath("todo"))
                    except OSError:
                        todo = ["?"]
                    if not todo:
                        self.violate("C16/busy-loop", "200 consecutive zero-timeout selects while todo/ is empty, no delivery command was issued, "
                                     "no report arrived and no file was touched in between (last select returned %r)" % ev.get("ret"))
            else:
                self.spin = 0
            self.last_work = self.work
            self.res.counters["max_idle_zero_timeout_selects"] = max(self.res.counters.get("max_idle_zero_timeout_selects", 0), self.spin)
        elif k in ("cmd", "report", "inject", "clock", "signal", "start"):
            self.spin = 0

    def on_quiesce(self, q, sim):
        self.res.counters.inc("quiescent_points_checked")
        if self.ledger.term_sent:
            return
        if getattr(sim, "live_injectors", None) and sim.live_injectors():
            return
        todo = os.listdir(sim.qpath("todo"))
        if todo:
            self.violate("C16/lost-wakeup", "daemon asks to sleep %s s while %r (injection complete) is unprocessed" % (q.get("T"), todo[:3]))
        T = q.get("T", 0)
        if T > 1501 + 1:
            self.violate("C16/sleeps-past-todo-rescan", "requested sleep %d s exceeds the 25-minute rescan interval" % T)


# ============================================================================ C18 (qmail-send part)
class ReportFuzzOracle(HOracle):
    """hostile bytes on the report channels change nothing: judged together with the C03/C04 rules
    (re-keyed under C18 by the check) plus the REPORTMAX bound on what is stored."""
    property_id = "C18"
    REPORTMAX = 10000

    def on_step(self, ev, sim):
        if ev.get("c") == "write" and (ev.get("path") or "").startswith("queue/bounce/") and ev.get("ret", 0) > 0:
            if ev.get("len", 0) > self.REPORTMAX + 1200:
                self.violate("C18/send/stored-report-exceeds-REPORTMAX", "a bounce note of %d bytes was stored" % ev.get("len"))
            self.res.counters.inc("bounce_notes_measured")
