"""Online oracles over qsim event streams (DESIGN.md section 3: C02, C03, C04, C14, C15, C16).
Each oracle is constructed as O(res, history) and consumes events via the qsim.Oracle hooks."""
import os
import math

from . import core, qsim, shim
from .ledger import CH, parse_chanfile
from .refmodel import bounce as bouncemodel

SPLIT = qsim.SPLIT
OSSIFIED = 129600


class HOracle(qsim.Oracle):
    def __init__(self, res, hist):
        super().__init__(res)
        self.h = hist

    @property
    def ledger(self):
        return self.h.ledger

    def violate(self, key, why, extra=None):
        w = self.h.witness()
        if extra:
            w.update(extra)
        self.res.violate(key, why, w)


def qparts(ev):
    """('local', 123) from a sys event path 'queue/local/7/123'"""
    p = (ev.get("path") or "").replace(" (deleted)", "")
    parts = p.split("/")
    if len(parts) >= 3 and parts[0] == "queue":
        try:
            return parts[1], int(parts[-1])
        except ValueError:
            return parts[1], None
    return None, None


def qparts2(ev):
    p = (ev.get("path2") or "")
    parts = p.split("/")
    if len(parts) >= 3 and parts[0] == "queue":
        try:
            return parts[1], int(parts[-1])
        except ValueError:
            return parts[1], None
    return None, None


# ============================================================================ C03
class NoLossOracle(HOracle):
    property_id = "C03"

    def __init__(self, res, hist):
        super().__init__(res, hist)
        self.marks_checked = 0
        self.unlinks_checked = 0

    def on_event(self, ev, sim):
        if ev["kind"] == "disk-forgot" and ev.get("path", "").startswith("bounce/"):
            try:
                m = self.ledger.msg(int(ev["path"].split("/")[-1]))
            except ValueError:
                m = None
            if m is not None:
                m.bounce_lost_gen = self.ledger.generation

    def on_step(self, ev, sim):
        # (a) a D mark may only follow a K or D report (Z only when the pass is dying)
        if ev.get("c") == "write" and ev.get("len") == 1 and ev.get("data") == "44" and ev.get("ret") == 1:
            d, num = qparts(ev)
            if d not in ("local", "remote"):
                return
            r, m = ev.get("rcpt"), ev.get("msg")
            if r is None or m is None:
                return
            self.marks_checked += 1
            self.res.counters.inc("marks_checked")
            last = r.reports[-1] if r.reports else None
            if last in ("K", "D"):
                return
            if last == "Z":
                # legitimate only in a dying pass: the pass was opened when recent > birth + lifetime
                po = m.pass_open.get(r.chan, [])
                opened = po[-1][0] if po else None
                if opened is not None and m.birth is not None and opened > m.birth + self.h.lifetime:
                    self.res.counters.inc("z_turned_d_by_lifetime")
                    m.lifetime_hit = True
                    r.reports[-1] = "D"
                    r.bounce_text = b"(expired)"
                    return
            self.violate("C03/mark-after/%s" % (last or "no-report"),
                         "recipient %r of message %d marked done although its latest report is %r" % (r.addr, m.num, last))

    def on_gate(self, ev, sim):
        c = ev.get("c")
        if c != "unlink":
            return
        d, num = qparts(ev)
        if num is None:
            return
        if d in ("local", "remote"):
            # (b) a channel file may only disappear when every record is marked D
            p = sim.qpath(d, str(num % SPLIT), str(num))
            if not os.path.exists(p):
                return
            if ev.get("role", "").startswith("send") and ev.get("prog") == "qmail-send":
                m = self.ledger.msg(num)
                todo = os.path.exists(sim.qpath("todo", str(num)))
                if todo:
                    return     # preprocessing (re)starts from the todo entry: old channel files are rebuilt
                data = qsim.read_noatime(p)
                self.unlinks_checked += 1
                self.res.counters.inc("channel_unlinks_checked")
                left = [a for off, t, a in parse_chanfile(data, d) if t != b"D"]
                if left:
                    self.violate("C03/channel-file-removed-with-open-recipients/%s" % d,
                                 "%s/%d unlinked while %r still not done" % (d, num, left[:3]))
        elif d == "info" and ev.get("prog") == "qmail-send":
            # (c) the message may only leave when every recipient is accounted for
            if os.path.exists(sim.qpath("todo", str(num))):
                return
            m = self.ledger.msg(num)
            if m is None or m.records is None:
                return
            self.ledger.scan_recs(sim)
            self.res.counters.inc("message_removals_checked")
            for r in m.all_rcpts():
                if not r.final() or not r.marked:
                    # marks can be reverted by a lose-unsynced crash; what matters is the report
                    if not r.final():
                        self.violate("C03/message-removed-with-unfinished-recipient",
                                     "info/%d unlinked but recipient %r has reports %r" % (num, r.addr, r.reports))
                        continue
                if r.reports[-1] == "D":
                    if m.sender == b"#@[]":
                        r.discarded = True
                        continue
                    if not self.bounced(m, r):
                        if getattr(m, "bounce_lost_gen", None) is not None and (r.finished_gen or 0) <= m.bounce_lost_gen:
                            # INTERNALS: "bounce/457 is not crashproof" - the note was written, then a crash
                            # lost the un-fsynced bounce file (disk variant); the documented exemption
                            self.res.counters.inc("exempt_bounce_record_lost_in_crash")
                            continue
                        self.violate("C03/failed-recipient-not-in-a-queued-bounce",
                                     "info/%d unlinked; recipient %r failed permanently but no queued notice names it" % (num, r.addr),
                                     {"notices_seen": [{"to": [core.hx(x) for x in rec.get("recips", [])],
                                                        "parent": rec["parent"].key() if rec.get("parent") else None,
                                                        "paragraph_heads": [core.hx(p.split(b"\n", 1)[0][:60]) for p in (rec.get("notice") or {}).get("paras", [])]}
                                                       for rec in self.ledger.bounce_recs[-6:]], "message": m.key()})
                    else:
                        r.bounced = True

    def bounced(self, m, r):
        for rec in self.ledger.bounce_recs:
            if not rec.get("complete"):
                continue
            if rec.get("parent") is not m:
                # parent links are computed when a record is first seen; decide again now that every body is known
                orig = (rec.get("notice") or {}).get("original") or b""
                if not (m.body and m.body in orig):
                    continue
            n = rec.get("notice")
            if not n:
                continue
            for p in n["paras"]:
                a = bouncemodel.para_recipient(p)
                if a is not None and (a == r.addr.replace(b"\n", b"_") or r.addr.endswith(a)):
                    return True
        return False

    def at_end(self, sim):
        # bounded progress: the scenario answered everything and stepped the clock; the queue must be empty
        left = sim.scan()
        if self.h.finished and not self.h.stuck:
            if left:
                self.violate("C03/queue-not-drained", "history finished but the queue still holds %r" % dict(list(left.items())[:4]))
            for m in self.ledger.msgs.values():
                if m.records is None:
                    if m.recips and m.kind == "user":
                        self.violate("C03/message-never-preprocessed", "message %d accepted but never preprocessed" % m.num)
                    continue
                for r in m.all_rcpts():
                    if not r.final():
                        self.violate("C03/recipient-lost", "recipient %r of message %d ended with reports %r, marked=%s" % (
                            r.addr, m.num, r.reports, r.marked))
                n_env = len(m.recips)
                n_rec = len(m.all_rcpts())
                if n_env != n_rec:
                    self.violate("C03/recipient-count-changed", "message %d: %d envelope recipients, %d channel records" % (m.num, n_env, n_rec))
            self.res.counters.inc("histories_finished")


# ============================================================================ C04
class OnceOracle(HOracle):
    property_id = "C04"

    def on_event(self, ev, sim):
        k = ev["kind"]
        if k == "cmd":
            cmd = ev["cmd"]
            self.res.counters.inc("commands_seen")
            if ev.get("delnum_in_use"):
                self.violate("C04/delnum-reused-while-outstanding", "delivery number %d on channel %s issued while still outstanding" % (cmd.delnum, cmd.chan))
            n_out = sum(1 for (c, d) in sim.outstanding if c == cmd.chan) + (0 if (cmd.chan, cmd.delnum) in sim.outstanding else 1)
            lim = self.h.limit(cmd.chan)
            if n_out > lim:
                self.violate("C04/concurrency-exceeded/%s" % CH[cmd.chan], "%d outstanding on %s, limit min(%r, %r)" % (
                    n_out, cmd.chan, self.h.conc, self.h.spawn))
            self.res.counters["max_outstanding_seen"] = max(self.res.counters.get("max_outstanding_seen", 0), n_out)
            if self.ledger.term_sent:
                self.violate("C04/delivery-started-after-TERM", "command %r after SIGTERM" % (cmd,))
            m, r = ev.get("msg"), ev.get("rcpt")
            if m is None or r is None:
                return
            # multiset rule: attempts in flight + finished <= multiplicity of that address on that channel
            same = [x for x in (m.records or {}).get(cmd.chan, []) if x.addr == cmd.recip]
            fin = sum(1 for x in same if x.final())
            inflight = sum(1 for (c, d), oc in sim.outstanding.items() if oc is not cmd and oc.num == cmd.num and oc.gen == cmd.gen and oc.chan == cmd.chan and oc.recip == cmd.recip)
            if inflight + 1 > len(same) - fin:
                if inflight >= len(same) - fin and inflight > 0 and fin < len(same):
                    self.violate("C04/two-attempts-in-flight", "second attempt for %r of message %d while one is outstanding" % (cmd.recip, cmd.num))
                else:
                    # every record of that address already finished: allowed only after a crash that lost the mark
                    lost = [x for x in same if x.final() and not x.marked]
                    if lost and self.ledger.crashed:
                        self.res.counters.inc("reattempt_after_crash_before_mark")
                        x = lost[0]
                        x.reports.append("R")     # re-opened
                    elif self.ledger.crashed and self.h.prof.variant != "keep-all":
                        self.res.counters.inc("reattempt_after_unsynced_mark_lost")
                        for x in same:
                            if x.final():
                                x.reports.append("R")
                                x.marked = False
                                break
                    else:
                        self.violate("C04/finished-recipient-attempted-again",
                                     "command for %r of message %d although it was reported %r (marked=%r)" % (
                                         cmd.recip, cmd.num, [x.reports for x in same], [x.marked for x in same]))
        elif k == "exit" and ev.get("who") == "send":
            st = ev["status"]
            if self.ledger.term_sent and os.WIFEXITED(st) and sim.outstanding:
                alive = True
                self.violate("C04/exit-with-deliveries-outstanding", "daemon exited after TERM with %d deliveries outstanding" % len(sim.outstanding))

    def at_end(self, sim):
        if self.ledger.crashed:
            return
        for m in self.ledger.msgs.values():
            for r in m.all_rcpts():
                ks = r.reports.count("K")
                if ks > 1 or (ks == 1 and r.reports[-1] != "K"):
                    self.violate("C04/delivered-more-than-once", "recipient %r of message %d: reports %r without any crash" % (r.addr, m.num, r.reports))




# ============================================================================ C02
def pattern_ok(s):
    """INTERNALS.md section 2: S1..S5 over {mess,intd,todo,info,local,remote,bounce}"""
    if not s:
        return "S1"
    if "mess" not in s:
        return None
    if "todo" in s:
        return None if "bounce" in s else "S4"
    if "intd" in s:
        return "S3" if s == {"mess", "intd"} else None
    if "info" in s:
        return "S5"
    return "S2" if s == {"mess"} else None


class QueueStateOracle(HOracle):
    property_id = "C02"

    def __init__(self, res, hist):
        super().__init__(res, hist)
        self.last_state = {}
        self.eliminating = set()

    def check_num(self, num, sim, ev, why):
        s = sim.pattern_of(num)
        st = pattern_ok(s)
        self.res.counters.inc("pattern_checks")
        key = "".join(c if d in s else "-" for c, d in zip("MITFLRB", qsim.QDIRS))
        d = self.res.counters.setdefault("distinct_patterns", set())
        d.add(key)
        prev = self.last_state.get(num)
        if prev != key:
            self.res.counters.setdefault("distinct_transitions", set()).add((prev or "-------", key))
            self.last_state[num] = key
        if st is None:
            self.violate("C02/undocumented-state/%s/by=%s" % (key, (ev.get("prog") or "?").replace("qmail-", "")),
                         "after %s %s by %s message %d is in pattern %s (mess intd todo info local remote bounce), not S1-S5" % (
                             ev.get("c"), ev.get("path2") or ev.get("path"), ev.get("prog"), num, key))
        if "mess" in s:
            p = sim.qpath("mess", str(num % SPLIT), str(num))
            try:
                ino = os.stat(p).st_ino
                if ino != num:
                    self.violate("C02/name-not-inode", "mess/%d has inode %d" % (num, ino))
            except OSError:
                pass

    def on_step(self, ev, sim):
        c = ev.get("c")
        if c not in ("unlink", "link", "rename", "open", "close"):
            return
        if ev.get("ret", -1) < 0:
            return
        if c == "open" and not ev.get("creat"):
            return
        if c == "close":
            return
        for d, num in (qparts(ev), qparts2(ev)):
            if d in qsim.QDIRS and num is not None:
                self.check_num(num, sim, ev, c)
        d2, num2 = qparts2(ev)
        if c == "link" and d2 == "mess" and num2 is not None:
            s = sim.pattern_of(num2)
            if s != {"mess"}:
                self.violate("C02/number-shared", "message number %d given to a new message while files %r of another still exist" % (num2, sorted(s - {"mess"})))
        d, num = qparts(ev)
        if c == "unlink" and d == "info" and ev.get("prog") == "qmail-send" and num is not None:
            if not os.path.exists(sim.qpath("todo", str(num))):
                self.eliminating.add(num)
        if c == "unlink" and d == "mess" and num is not None:
            self.eliminating.discard(num)

    def on_gate(self, ev, sim):
        # removals by the cleaner outside elimination/preprocessing = garbage collection: only after 36 h, no info, no todo
        if ev.get("c") != "unlink" or ev.get("prog") != "qmail-clean":
            return
        d, num = qparts(ev)
        if num is None:
            return
        if d in ("mess", "intd"):
            s = sim.pattern_of(num)
            if "todo" in s and d == "intd":
                return                      # end of preprocessing: intd then todo
            if num in self.eliminating:
                return
            p = sim.qpath("mess", str(num % SPLIT), str(num))
            self.res.counters.inc("gc_removals_checked")
            try:
                at = int(os.stat(p).st_atime)
            except OSError:
                at = None
            if "info" in s or "todo" in s:
                self.violate("C02/gc-of-live-message", "qmail-clean removes %s/%d although %r exist" % (d, num, sorted(s)))
            elif at is not None and not (sim.vnow() > at + OSSIFIED):
                self.violate("C02/gc-before-36h", "qmail-clean removes %s/%d at age %d s (atime %d, now %d)" % (d, num, sim.vnow() - at, at, sim.vnow()))
        elif d == "pid" or (ev.get("path") or "").startswith("queue/pid/"):
            pass

    def on_quiesce(self, q, sim):
        for num, dirs in sim.scan().items():
            if not num.isdigit():
                self.violate("C02/foreign-file", "file named %r in the queue" % num)
                continue
            if any(x.startswith("WRONGSPLIT") for x in dirs):
                self.violate("C02/wrong-split-directory", "message %s filed under the wrong subdirectory: %r" % (num, sorted(dirs)))
            self.check_num(int(num), sim, {"c": "scan", "prog": "scan"}, "scan")
        self.res.counters.inc("full_scans")
