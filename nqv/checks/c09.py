"""C09 - remote delivery verdicts are sound for every server behaviour (DESIGN.md section 3, C09).
(a) real qmail-remote.c smtp()/smtpcode()/blast()/quit()/dropped() in-process against a scripted
    server (harness/h_remote_smtp.c): bounded-exhaustive script families + random scripts; the
    harness judges every run, refmodel/remote_model.py re-judges emitted records from the script alone
(b) the real qmail-remote binary over loopback against nqv/smtpsink.py
(c) real qmail-rspawn.c report() in-process on every wait status x output family
    (harness/h_rspawn_report.c) and the real qmail-rspawn binary with a scripted $QMAILREMOTE."""
import json
import os
import shutil
import socket
import subprocess
import time

from .. import core, build, hrun, sandbox, smtpsink
from ..refmodel import remote_model as rm
from . import c06

PROP = "C09"
SMTP_OBJS = [o for o in c06.REMOTE_OBJS if o not in ("timeoutread.o", "timeoutwrite.o")]
RSPAWN_OBJS = "tcpto_clean.o open.a lock.a wait.a fd.a stralloc.a ids.a substdio.a error.a env.a str.a".split()
H = os.path.join(core.VERIF, "harness")
TIMEOUTREMOTE = 2
MSG = b"Subject: c09\n\nbody line\n.dot line\nlast\n"
NFAM = 56          # output families in h_rspawn_report.c


# ------------------------------------------------------------------ (a)/(c) re-judging by the model

def rejudge_worker(path):
    """records emitted by the harnesses, judged by the Python reference model alone"""
    res = core.Result()
    try:
        f = open(path)
    except OSError:
        return res
    with f:
        for line in f:
            t = line.split()
            if not t:
                continue
            if t[0] == "R" and len(t) >= 5:
                spec, maxphase, rc = t[1], int(t[2]), int(t[3])
                out = bytes.fromhex(t[4]) if t[4] != "-" else b""
                n, w, m, script = rm.parse_spec(spec)
                allowed, dup, flow = rm.expectations(script, n)
                sites = [rm.site_of(flow.delivered, flow.lost_at, i) for i in range(n)]
                probs, rep, folds = rm.judge_remote(n, allowed, dup, sites, out, rc)
                res.counters.inc("model_rejudged_smtp_records")
                phs = rm.phases(n)
                if max(phs.index(p) for p in flow.reached) == maxphase:
                    res.counters.inc("model_flow_agrees_with_client")
                else:
                    res.counters.inc("model_flow_differs_from_client")
                for rule, site, why in probs:
                    res.violate("C09/smtp-model/%s/%s" % (rule, site), why,
                                {"input": spec, "script": rm.show_script(script, n), "observed": core.hx(out[:400])})
            elif t[0] == "W" and len(t) >= 4:
                wstat = int(t[1])
                out = bytes.fromhex(t[2]) if t[2] != "-" else b""
                rep = bytes.fromhex(t[3]) if t[3] != "-" else b""
                res.counters.inc("model_rejudged_report_records")
                for rule in judge_report(wstat, out, rep):
                    res.violate("C09/rspawn-model/%s/%s" % (rule, rm.rspawn_site(wstat, out)), rule,
                                {"wstat": wstat, "output": core.hx(out[:300]), "output_hex": out[:2000].hex(), "report": core.hx(rep[:300])})
    return res


def judge_report(wstat, out, rep):
    """rules broken by the report (verdict letter + text, without the final NUL) rspawn relayed"""
    v = rep[:1].decode("latin1")
    if v not in ("K", "Z", "D"):
        return ["no-verdict-letter"]
    if b"\0" in rep:
        return ["nul-in-report"]
    allowed = rm.rspawn_allowed(wstat, out)
    if v in allowed:
        return []
    if v == "K":
        return ["success-unjustified"]
    if wstat & 127:
        return ["crash-not-temporary"]
    return ["stronger-than-fold"]


# ------------------------------------------------------------------ (b) real qmail-remote over loopback

def reply_bytes(a, ph):
    c = rm.GARBAGE[a.code - rm.GARBAGE_BASE] if rm.is_garbage(a.code) else b"%03d" % a.code
    if a.form == 1:
        return c + b"-first line\r\n" + c + b"-second\r\n" + c + b" last " + ph.encode() + b"\r\n"
    if a.form == 2:
        return [c[:2], c[2:] + b" split reply " + ph.encode() + b"\r\n"]
    if a.form == 3:
        return [c + b"-first line\r\n", c + b"-second\r\n", c + b" last\r\n"]
    return c + b" reply " + ph.encode() + b"\r\n"


def to_sink(script, n):
    def conv(ph):
        a = script.get(ph) or rm.default_action(ph)
        if a.kind == "reply":
            return reply_bytes(a, ph)
        return {"eof": "DROP", "timeout": "STALL"}[a.kind]
    return smtpsink.Script(greet=conv("greet"), helo=conv("helo"), mail=conv("mail"),
                           rcpt=[conv("rcpt%d" % i) for i in range(n)], data=conv("data"), dot=conv("dot"))


E2E_CODES = [200, 220, 250, 251, 354, 399, 400, 421, 450, 451, 452, 499, 500, 550, 552, 554, 599]


def e2e_cases(tier, ne2e):
    """deterministic core (every phase x class/drop, a few stalls, refused connect) + seeded random scripts.
    A 2xx reply to DATA is not generated here: the sink only opens its data phase on 3xx (covered in (a))."""
    cases = []
    n = 2
    for ph in rm.phases(n):
        k = rm.phase_kind(ph)
        for code in (220 if k != "greet" else 250, 251, 354 if k != "data" else 399, 400, 451, 499, 500, 550, 599):
            if k == "data" and code < 300:
                continue
            for form in ((0, 1) if code in (451, 550) else (0,)):
                cases.append((n, {ph: rm.Action("reply", code, form)}, "core"))
        cases.append((n, {ph: rm.Action("eof", 0, 0)}, "core"))
    # replies that do not start with a digit at every phase: never an acceptance (seed c09-s8)
    for ph in rm.phases(n):
        if rm.phase_kind(ph) == "data":
            continue        # the sink opens its data phase on 3xx only
        for gk in range(len(rm.GARBAGE)):
            if tier == "thorough" or (gk + len(ph)) % 3 == 0:
                cases.append((n, {ph: rm.Action("reply", rm.GARBAGE_BASE + gk, 0)}, "garbage-code"))
    cases.append((3, {"rcpt0": rm.Action("reply", 550, 0), "rcpt1": rm.Action("reply", 451, 3), "rcpt2": rm.Action("reply", 250, 2)}, "core"))
    cases.append((3, {"rcpt0": rm.Action("reply", 550, 0), "rcpt1": rm.Action("reply", 451, 0), "rcpt2": rm.Action("reply", 552, 0)}, "core"))
    cases.append((3, {"rcpt0": rm.Action("reply", 451, 0), "rcpt1": rm.Action("reply", 452, 1), "rcpt2": rm.Action("reply", 421, 0)}, "core"))
    cases.append((2, {"rcpt0": rm.Action("reply", 550, 0), "dot": rm.Action("eof", 0, 0)}, "core"))
    stalls = ["dot", "rcpt1", "greet"] if tier == "quick" else rm.phases(2)
    for ph in stalls:
        cases.append((2, {ph: rm.Action("timeout", 0, 0)}, "stall"))
    cases.append((2, {"greet": rm.Action("eof", 0, 0)}, "refused-connect"))
    # the destination is in connect-timeout backoff (queue/lock/tcpto holds >= 2 recent timeouts): qmail-remote skips the
    # address without connecting; having no host left to try is connect trouble, i.e. temporary (seed c09-s3)
    for count, age in ((2, 0), (2, 3000), (3, 100), (10, 0), (1, 0), (2, 100000)):
        cases.append((1 + (count + age) % 3, {"greet": rm.Action("eof", 0, 0)}, "backoff-%d-%d" % (count, age)))
    i = 0
    while len(cases) < ne2e:
        rng = core.case_rng(PROP, i, "e2e")
        i += 1
        n = rng.randint(1, 3)
        script = {}
        for ph in rm.phases(n):
            k = rm.phase_kind(ph)
            x = rng.random()
            if x < 0.62:
                script[ph] = rm.Action("reply", rm.ACCEPT[k], rng.choice([0, 0, 1, 2, 3]))
            elif x < 0.9:
                code = rng.choice(E2E_CODES)
                if k == "data" and code < 300:
                    code = 354
                script[ph] = rm.Action("reply", code, rng.choice([0, 0, 1, 2, 3]))
            elif x < 0.995 or tier == "quick":
                script[ph] = rm.Action("eof", 0, 0)
            else:
                script[ph] = rm.Action("timeout", 0, 0)
            if k == "data" and script[ph].kind == "reply" and script[ph].form == 2:
                script[ph] = script[ph]._replace(form=3)     # the sink looks at the last segment to open its data phase
        cases.append((n, script, "random"))
    return cases


def free_port():
    s = socket.socket()
    s.bind(("127.0.0.1", 0))
    p = s.getsockname()[1]
    s.close()
    return p


def run_remote(b, home, n, script, kind, sink, stall):
    """one run of the real qmail-remote; -> (rc, out, err, transcript|None)"""
    with open(home + "/queue/lock/tcpto", "wb") as f:
        rec = b""
        if kind.startswith("backoff-"):
            count, age = (int(x) for x in kind.split("-")[1:])
            when = int(time.time()) - age
            rec = bytes([127, 0, 0, 1, count, 0, 0, 0]) + when.to_bytes(4, "little") + b"\0" * 4
        f.write(rec + b"\0" * (1024 - len(rec)))
    tr = None
    # a scripted stall costs timeoutremote seconds; everywhere else the limit is generous so that a loaded
    # machine cannot fake a stall
    sandbox.write_control(home, "timeoutremote", TIMEOUTREMOTE if stall else 60)
    if kind == "refused-connect" or kind.startswith("backoff-"):
        sandbox.write_control(home, "smtproutes", ":127.0.0.1:%d" % free_port())
    else:
        sandbox.write_control(home, "smtproutes", ":127.0.0.1:%d" % sink.port)
        sink.start(to_sink(script, n), stall_s=90.0, accept_timeout=60.0)
    with open(home + "/msg", "rb") as fin:
        rc, out, err = core.run_with_watchdog(
            [home + "/bin/qmail-remote", "dest.test", "s@client.test"] + ["r%d@dest.test" % i for i in range(n)],
            150, env=b.env(home), stdin=fin)
    if kind != "refused-connect" and not kind.startswith("backoff-"):
        tr = sink.finish()
    return rc, out, err, tr


def e2e_worker(bdir, cases, tier):
    res = core.Result()
    b = build.Build("asan", bdir)
    home = build.mktemp("nqv-c09-")
    sink = smtpsink.Sink()
    try:
        sandbox.make_home(b, home, controls={"me": "client.test", "timeoutremote": TIMEOUTREMOTE},
                          bins=("qmail-remote",))
        with open(home + "/msg", "wb") as f:
            f.write(MSG)
        for n, script, kind in cases:
            allowed, dup, flow = rm.expectations(script, n)
            sites = [rm.site_of(flow.delivered, flow.lost_at, i) for i in range(n)]
            probs, folds, crashed = [], None, False
            for attempt in (0, 1):
                stall = any(ph in script and script[ph].kind == "timeout" for ph in flow.reached)
                rc, out, err, tr = run_remote(b, home, n, script, kind, sink, stall)
                res.evaluations += 1
                if rc is None:
                    continue
                crashed = rc < 0 or b"Sanitizer" in err or b"runtime error" in err
                if crashed:
                    break
                # the duplicate flag is only demanded when the sink really got the complete terminator
                got_dot = tr is not None and tr.payload is not None and tr.payload.endswith(b".\r\n")
                probs, rep, folds = rm.judge_remote(n, allowed, dup and got_dot, sites, out, rc)
                if not probs:
                    break
                if attempt == 0:        # a loaded machine can fake a stall: a disagreement must repeat to count
                    res.counters.inc("e2e_reruns_after_disagreement")
            wit = {"n": n, "kind": kind, "script": rm.show_script(script, n),
                   "spec": {ph: list(a) for ph, a in script.items()},
                   "reports": core.hx(out[:500]) if rc is not None else None,
                   "commands": [core.hx(c) for c in (tr.commands[:12] if tr else [])]}
            if rc is None:
                res.inconclusive.append("qmail-remote watchdog: %s" % wit["script"])
                continue
            if crashed:
                wit["stderr"] = err[-1500:].decode("latin1")
                res.violate("C20/sanitizer/qmail-remote/" + hrun.sanitizer_site(err.decode("latin1")),
                            "qmail-remote died rc=%s" % rc, wit)
                continue
            for ph in flow.reached:
                a = script.get(ph) or rm.default_action(ph)
                res.counters.inc("e2e_pc_%s_%s" % (rm.phase_kind(ph), rm.action_class(a)))
            if any(ph in script for ph in flow.reached):
                res.nontrivial("e2e", n, sorted(script.items()))
            if tr is not None:
                rc_cmds = [c for c in tr.commands if c[:4].upper() == b"RCPT"]
                want = [b"RCPT TO:<r%d@dest.test>" % i for i in range(n)]
                if rc_cmds != want[:len(rc_cmds)]:
                    res.violate("C09/e2e/rcpt-commands-not-in-argument-order/" + sites[-1], "RCPT commands %r" % rc_cmds[:4], wit)
                    continue
            for rule, site, why in probs:
                res.violate("C09/e2e/%s/%s" % (rule, site), why, wit)
            if not probs:
                res.counters.inc("e2e_ok")
                for v in folds:
                    res.counters.inc("e2e_fold_" + v)
                if dup:
                    res.counters.inc("e2e_possible_duplicate_flagged")
                if kind in ("stall", "refused-connect"):
                    res.counters.inc("e2e_" + kind.replace("-", "_"))
                if kind.startswith("backoff-"):
                    res.counters.inc("e2e_destination_in_tcpto_backoff")
                if kind != "random" or len(res.counters.get("samples_loopback", [])) < 2:
                    res.counters.setdefault("samples_loopback", []).append(
                        {"loopback_script": wit["script"], "reports": core.hx(out[:200])})
    finally:
        sink.close()
        shutil.rmtree(home, ignore_errors=True)      # pool workers do not run atexit handlers
    return res


# ------------------------------------------------------------------ (c) real qmail-rspawn binary

def rspawn_outputs():
    K = b"K127.0.0.1 accepted message.\nRemote host said: 250 ok\n"
    Z = b"ZConnected to 127.0.0.1 but connection died. (#4.4.2)\n"
    D = b"D127.0.0.1 failed after I sent the message.\nRemote host said: 554 no\n"
    h = b"h127.0.0.1 does not like recipient.\nRemote host said: 550 no\n"
    s = b"s127.0.0.1 does not like recipient.\nRemote host said: 451 later\n"
    z = b"\0"
    outs = [b"r" + z + K + z, b"r" + z + Z + z, b"r" + z + D + z, h + z + K + z, h + z + Z + z, h + z + D + z,
            s + z + K + z, s + z + Z + z, s + z + D + z, K + z, Z + z, D + z, b"r" + z, h + z, s + z, b"",
            z, z + K + z, b"xgarbage" + z + K + z, b"garbage" + z, b"garbage no nul", b"K", b"r", K, Z,
            b"r" + z + b"r" + z + K + z, b"r" + z + h + z + K + z, h + z + b"r" + z + K + z, b"r" + z + Z + z + K + z,
            Z + z + b"r" + z + K + z, b"r" + z + b"K" + b"y" * 70000 + z, s + z + b"K" + b"y" * 70000 + z,
            b"q" * 70000, bytes(range(1, 256)) * 3 + z + K + z,
            # long but well-formed temporary reports (qmail-remote keeps up to 5000 bytes of the server's text): still temporary
            b"r" + z + b"Z" + b"t" * 2990 + b"\n" + z, b"r" + z + b"Z" + b"t" * 3500 + b"\n" + z, b"r" + z + b"Z" + b"t" * 6000 + b"\n" + z,
            b"Z" + b"t" * 4000 + b"\n" + z, s + z + b"Z" + b"t" * 4000 + b"\n" + z, b"s" + b"u" * 4000 + b"\n" + z + Z + z,
            # message report not NUL-terminated after a terminated recipient report
            b"r" + z + K, b"r" + z + Z, b"r" + z + b"K", b"r" + z + b"K" + b"x" * 125, b"r" + z + b"K" + b"x" * 126]
    return outs


RSPAWN_STATUS = ["e0", "e1", "e100", "e111", "e255", "s11", "s9", "s6", "s15"]


def rspawn_cases(tier):
    outs = rspawn_outputs()
    sts = RSPAWN_STATUS if tier == "quick" else RSPAWN_STATUS + ["e%d" % e for e in (2, 42, 99, 101, 110, 112, 127, 128, 254)] + \
        ["s%d" % s for s in (1, 2, 3, 4, 7, 8, 10, 13, 14)]
    cases = []
    for oi, o in enumerate(outs):
        for st in (sts if tier != "quick" or oi % 3 == 0 or len(o) < 3 else ["e0", "s11", "e111", "e100"]):
            cases.append((o, st))
    return cases


def wstat_of(st):
    return int(st[1:]) << 8 if st[0] == "e" else int(st[1:])


def run_rspawn(b, home, standin, batch):
    """batch = list of (output, status); all run concurrently by one qmail-rspawn.
    -> (dict index -> report bytes, rc, stderr)"""
    d = home + "/cases"
    cmds = b""
    for k, (o, st) in enumerate(batch):
        with open("%s/%d.out" % (d, k), "wb") as f:
            f.write(o)
        with open("%s/%d.st" % (d, k), "w") as f:
            f.write(st)
        cmds += bytes([k]) + b"0/1\0s@client.test\0c%d@dest.test\0" % k
    fn = home + "/cmds"
    with open(fn, "wb") as f:
        f.write(cmds)
    with open(fn, "rb") as fin:
        rc, out, err = core.run_with_watchdog([home + "/bin/qmail-rspawn"], 120,
                                              env=b.env(home, {"QMAILREMOTE": standin, "NQV_C09_DIR": d}), stdin=fin)
    got = {}
    if rc is None:
        return got, rc, err
    body = out[1:]
    i = 0
    while i < len(body):
        k = body[i]
        e = body.find(b"\0", i + 1)
        if e < 0:
            break
        if k not in got:
            got[k] = body[i + 1:e]
        i = e + 1
    return got, rc, err


def rspawn_worker(bdir, standin, cases, tier):
    res = core.Result()
    b = build.Build("asan", bdir)
    home = build.mktemp("nqv-c09r-")
    try:
        return _rspawn_worker(res, b, home, standin, cases)
    finally:
        shutil.rmtree(home, ignore_errors=True)      # pool workers do not run atexit handlers


def _rspawn_worker(res, b, home, standin, cases):
    sandbox.make_home(b, home, controls={"me": "client.test"}, bins=("qmail-rspawn",))
    os.makedirs(home + "/queue/mess/0", exist_ok=True)
    os.makedirs(home + "/cases", exist_ok=True)
    with open(home + "/queue/mess/0/1", "wb") as f:
        f.write(MSG)
    os.chown(home + "/queue/mess/0/1", sandbox.uid("q"), sandbox.gid("q"))
    pending = list(cases)
    groups = [pending[i:i + 40] for i in range(0, len(pending), 40)]
    singles = []
    for grp in groups:
        got, rc, err = run_rspawn(b, home, standin, grp)
        if rc == 0 and len(got) == len(grp):
            judge_rspawn_batch(res, grp, got)
        else:
            singles.extend(grp)         # find the culprit one by one
    for c in singles:
        got, rc, err = run_rspawn(b, home, standin, [c])
        o, st = c
        wit = {"output": core.hx(o[:300]), "output_hex": o[:2000].hex(), "status": st}
        if rc is None:
            res.inconclusive.append("qmail-rspawn watchdog: %r %s" % (o[:40], st))
        elif rc != 0:
            e = err.decode("latin1")
            wit["stderr_tail"] = e[-2000:]
            if "Sanitizer" in e or "runtime error" in e or rc < 0:
                res.evaluations += 1
                res.nontrivial("rspawn", o, st)
                res.violate("C20/sanitizer/qmail-rspawn/" + hrun.sanitizer_site(e),
                            "qmail-rspawn died (rc=%s) on a qmail-remote output" % rc, wit)
            else:
                res.inconclusive.append("qmail-rspawn rc=%s: %s" % (rc, e[-200:]))
        elif len(got) != 1:
            res.violate("C09/rspawn-bin/no-report/" + rm.rspawn_site(wstat_of(st), o), "no report relayed for the delivery", wit)
        else:
            judge_rspawn_batch(res, [c], got)
    return res


def judge_rspawn_batch(res, grp, got):
    for k, (o, st) in enumerate(grp):
        rep = got[k]
        w = wstat_of(st)
        res.evaluations += 1
        res.counters.inc("rspawn_bin_cases")
        res.counters.inc("rspawn_bin_verdict_" + (rep[:1].decode("latin1") if rep[:1] in (b"K", b"Z", b"D") else "other"))
        site = rm.rspawn_site(w, o)
        res.counters.inc("rspawn_bin_in_" + site)
        if site != "fold-K":
            res.nontrivial("rspawn", o, st)
        for rule in judge_report(w, o, rep):
            res.violate("C09/rspawn-bin/%s/%s" % (rule, site), rule,
                        {"output": core.hx(o[:300]), "output_hex": o[:2000].hex(), "status": st, "report": core.hx(rep[:300])})
        if site != "fold-K" and len(res.counters.get("samples_rspawn", [])) < 3:
            res.counters.setdefault("samples_rspawn", []).append(
                {"rspawn_child_output": core.hx(o[:60]), "status": st, "relayed": core.hx(rep[:70])})


def run_rspawn_rounds(b, home, standin, rounds, deadline=120):
    """One long-lived qmail-rspawn, as under qmail-send: each round hands one delivery to every slot (delivery
    number) and waits for all reports before the slots are used again.  rounds = [[(output, status), ...], ...].
    -> (list of rounds of report bytes (None = missing), rc, stderr)"""
    import select as _select
    d = home + "/cases"
    errf = open(home + "/rspawn.err", "wb+")
    p = subprocess.Popen([home + "/bin/qmail-rspawn"], stdin=subprocess.PIPE, stdout=subprocess.PIPE, stderr=errf,
                         env=b.env(home, {"QMAILREMOTE": standin, "NQV_C09_DIR": d}))
    t_end = time.time() + deadline
    buf = bytearray()
    first = [True]
    results = []

    def pump(want):
        """read until `want` complete reports (delnum byte, text, NUL) are buffered; -> list or None"""
        while True:
            reps, i = [], (1 if first[0] else 0)
            if not first[0] or len(buf) >= 1:
                while i < len(buf) and len(reps) < want:
                    e = buf.find(b"\0", i + 1)
                    if e < 0:
                        break
                    reps.append((buf[i], bytes(buf[i + 1:e])))
                    i = e + 1
                if len(reps) == want:
                    del buf[:i]
                    first[0] = False
                    return reps
            left = t_end - time.time()
            if left <= 0:
                return None
            r, _, _ = _select.select([p.stdout], [], [], min(left, 5))
            if r:
                chunk = os.read(p.stdout.fileno(), 65536)
                if not chunk:
                    return None
                buf.extend(chunk)
    n = 0
    ok = True
    try:
        for rnd in rounds:
            cmds = b""
            for slot, (o, st) in enumerate(rnd):
                with open("%s/%d.out" % (d, n), "wb") as f:
                    f.write(o)
                with open("%s/%d.st" % (d, n), "w") as f:
                    f.write(st)
                cmds += bytes([slot]) + b"0/1\0s@client.test\0c%d@dest.test\0" % n
                n += 1
            try:
                p.stdin.write(cmds)
                p.stdin.flush()
            except OSError:
                ok = False
                break
            reps = pump(len(rnd))
            if reps is None:
                ok = False
                break
            got = {}
            for k, text in reps:
                got.setdefault(k, text)
            results.append([got.get(slot) for slot in range(len(rnd))])
    finally:
        try:
            p.stdin.close()
        except OSError:
            pass
        try:
            rc = p.wait(timeout=20 if ok else 2)
        except subprocess.TimeoutExpired:
            p.kill()
            p.wait()
            rc = None
        p.stdout.close()
        errf.seek(0)
        err = errf.read()
        errf.close()
    return results, (rc if ok or rc not in (0, None) else None), err


def rspawn_seq_worker(bdir, standin, lo, hi, tier):
    """slot reuse: what a slot relayed for an earlier delivery must not leak into a later one"""
    res = core.Result()
    b = build.Build("asan", bdir)
    home = build.mktemp("nqv-c09s-")
    try:
        sandbox.make_home(b, home, controls={"me": "client.test"}, bins=("qmail-rspawn",))
        os.makedirs(home + "/queue/mess/0", exist_ok=True)
        os.makedirs(home + "/cases", exist_ok=True)
        with open(home + "/queue/mess/0/1", "wb") as f:
            f.write(MSG)
        os.chown(home + "/queue/mess/0/1", sandbox.uid("q"), sandbox.gid("q"))
        outs = rspawn_outputs()
        small = [o for o in outs if len(o) < 3000]
        for i in range(lo, hi):
            rng = core.case_rng("C09", i, "rspawn-seq")
            nslots = rng.choice([1, 1, 2, 3])
            rounds = []
            for r in range(rng.randint(2, 6)):
                rounds.append([(rng.choice(small if rng.random() < 0.9 else outs),
                                rng.choice(["e0", "e0", "e0", "e111", "e100", "s11", "e1"])) for _ in range(nslots)])
            got, rc, err = run_rspawn_rounds(b, home, standin, rounds)
            e = err.decode("latin1")
            wit = {"history_index": i, "slots": nslots,
                   "rounds": [[{"output": core.hx(o[:120]), "status": st} for o, st in rnd] for rnd in rounds]}
            if rc is None:
                res.inconclusive.append("qmail-rspawn (slot reuse) did not answer every delivery of history %d: %s" % (i, e[-200:]))
                continue
            if rc != 0:
                if "Sanitizer" in e or "runtime error" in e or rc < 0:
                    res.evaluations += 1
                    res.violate("C20/sanitizer/qmail-rspawn/" + hrun.sanitizer_site(e),
                                "qmail-rspawn died (rc=%s) in a slot-reuse history" % rc, dict(wit, stderr_tail=e[-2000:]))
                else:
                    res.inconclusive.append("qmail-rspawn rc=%s (slot reuse): %s" % (rc, e[-200:]))
                continue
            res.counters.inc("rspawn_seq_histories")
            prev = {}
            for rn, (rnd, reps) in enumerate(zip(rounds, got)):
                for slot, ((o, st), rep) in enumerate(zip(rnd, reps)):
                    res.evaluations += 1
                    res.counters.inc("rspawn_seq_deliveries")
                    w = wstat_of(st)
                    site = rm.rspawn_site(w, o)
                    if rn and prev.get(slot) != (o, st):
                        res.nontrivial("rspawn-seq", prev.get(slot), o, st)
                        res.counters.inc("rspawn_seq_slot_reused_with_other_outcome")
                    prev[slot] = (o, st)
                    w2 = dict(wit, round=rn, slot=slot, output_hex=o[:2000].hex(), status=st)
                    if rep is None:
                        res.violate("C09/rspawn-seq/no-report/" + site, "no report for delivery %d of slot %d" % (rn, slot), w2)
                        continue
                    for rule in judge_report(w, o, rep):
                        res.violate("C09/rspawn-seq/%s/%s" % (rule, site),
                                    "%s (delivery %d of slot %d in one qmail-rspawn process)" % (rule, rn + 1, slot),
                                    dict(w2, report=core.hx(rep[:300])))
        return res
    finally:
        shutil.rmtree(home, ignore_errors=True)


def compile_standin(b):
    out = b.path("nqv_qr_standin")
    p = subprocess.run(["gcc", "-O1", "-o", out, os.path.join(H, "h_qr_standin.c")], capture_output=True, text=True)
    if p.returncode != 0:
        raise core.Inconclusive("stand-in does not compile: " + p.stderr[-500:])
    return out


# ------------------------------------------------------------------ driver

def _job(kind, *a):
    if kind == "h":
        return hrun.run_one(*a)
    if kind == "e2e":
        return e2e_worker(*a)
    if kind == "rspawn":
        return rspawn_worker(*a)
    if kind == "rspawn-seq":
        return rspawn_seq_worker(*a)
    raise ValueError(kind)


def compile_all(b):
    hs = b.compile_harness(os.path.join(H, "h_remote_smtp.c"), extra_objs=SMTP_OBJS, libs=["-lresolv"])
    hr = b.compile_harness(os.path.join(H, "h_rspawn_report.c"), extra_objs=RSPAWN_OBJS)
    return hs, hr


def main(tier):
    t0 = time.time()
    quick = tier == "quick"
    b = build.vbuild("asan")
    hs, hr = compile_all(b)
    standin = compile_standin(b)
    env = b.env()
    emitdir = build.mktemp("nqv-c09-emit-")
    to = 900 if quick else 3600
    jobs, emits = [], []

    def hjob(binary, args, emit=True):
        if emit:
            f = os.path.join(emitdir, "e%d.txt" % len(emits))
            emits.append(f)
            args = args + [f]
        jobs.append(("h", binary, args, env, to))

    # (a) samples come from the first jobs: focus + the class family; then the big families, deepest first
    hjob(hs, ["focus", 3, 1])
    n1max = 4 if quick else 5
    for n in range(1, n1max + 1):
        for w in range(3):
            for m in range(2):
                if n >= 4 and (w or m) and quick:
                    continue
                hjob(hs, ["enum", 1, n, w, m, 0, 1, 1 if n <= 2 and not w else 23])
    deep = {2: 3, 3: 2} if quick else {2: 4, 3: 3}          # family -> recipients
    nmax = max(deep.values())
    every = 197 if quick else 1999
    for n in (4, 3, 2, 1):
        for fam in (2, 3):
            if n > deep[fam]:
                continue
            ns = {4: 256, 3: 64, 2: 16, 1: 4}[n]
            for j in range(ns):
                hjob(hs, ["enum", fam, n, 0, 0, j, ns, every])
    nrand = core.scaled(160000 if quick else 16000000)
    for j in range(16):
        hjob(hs, ["rand", nrand // 16, core.seed() * 1000 + j, 61 if quick else 1999])
    # (c) in-process report(): one process per output family + random outputs
    for k in range(NFAM):
        hjob(hr, ["all", k, k + 1, 3])
    nrr = core.scaled(200000 if quick else 6000000)
    for j in range(32):
        hjob(hr, ["rand", nrr // 32, core.seed() * 1000 + j, 41 if quick else 499])
    # (b) real qmail-remote over loopback; (c) real qmail-rspawn with a scripted $QMAILREMOTE
    ne2e = core.scaled(300 if quick else 5000)
    cases = e2e_cases(tier, ne2e)
    stalls = [c for c in cases if c[2] == "stall"]
    others = [c for c in cases if c[2] != "stall"]
    nw = 16
    for k in range(nw):
        part = stalls[k::nw] + others[k::nw]
        if part:
            jobs.append(("e2e", b.dir, part, tier))
    rc_cases = rspawn_cases(tier)
    for k in range(4):
        jobs.append(("rspawn", b.dir, standin, rc_cases[k::4], tier))
    nseq = core.scaled(160 if quick else 4000)
    for lo, hi in core.chunks(nseq, 8):
        jobs.append(("rspawn-seq", b.dir, standin, lo, hi, tier))
    jobs.sort(key=lambda j: 0 if j[0] == "e2e" else 1)       # stalls cost wall time: start them first (stable sort)
    res = core.pmap(_job, jobs, timeout=to * 2)
    # independent re-judgement of the emitted records by the Python model
    res.merge(core.pmap(rejudge_worker, [(f,) for f in emits], timeout=to))

    res.samples = (res.samples[:5] + res.counters.pop("samples_loopback", [])[:3] + res.counters.pop("samples_rspawn", [])[:2])
    pcs = sorted(k[3:] for k, v in res.counters.items() if k.startswith("pc_") and v)
    epcs = sorted(k[7:] for k, v in res.counters.items() if k.startswith("e2e_pc_") and v)
    extra = {
        "distinct_phase_class_combinations_in_process": len(pcs),
        "distinct_phase_class_combinations_loopback": len(epcs),
        "phase_class_combinations": pcs,
        "exhaustive": True,
        "exhaustive_scope": "(a) every script of the families 'classes' (n<=%d), 'codes' (n<=%d), 'forms' (n<=%d) (a subtree is pruned "
                            "only where the real client never consulted the later phases); (c) 56 output families x every exit code "
                            "0..255 and every signal 1..127 (with/without core flag)" % (n1max, deep[2], deep[3]),
    }
    rule = ("(a) scripts = one server action per phase (greeting, HELO, MAIL, RCPT of each of n recipients keyed by address, DATA, final dot) "
            "run against the real smtp() in-process; enumerated depth-first, a subtree is skipped only when the real client never consulted "
            "that phase: family 'classes' (accept code, another 2xx, 3xx, 451, 550, EOF, reset, timeout, partial reply+EOF, partial+stall, "
            "write failure/timeout, failure of the final-dot write; n<=%d; whole/7-byte/1-byte writes; small/2.6 KB message), family 'codes' "
            "(16 codes incl. 399/400/499/500 + EOF + timeout; n<=%d), family 'forms' (4 classes x single/3-line/1-byte-per-read + EOF + EOF "
            "inside a multi-line reply; n<=%d), 'focus' (174 actions incl. 9 reply layouts, NUL/'K' injection, >5000-byte replies at one phase), "
            "%d random scripts with n<=5. Non-trivial = a consulted phase deviates from the plain accepting single-line reply (or chunked "
            "writes/large message); distinct = distinct (n, modes, consulted script prefix) (hash set per harness process). "
            "(b) %d scripts real qmail-remote -> loopback sink (every phase x class/drop for n=2, stalls, refused connect, random). "
            "(c) real report() on 56 output families x 511 wait statuses + %d random outputs, and the real qmail-rspawn binary with a scripted "
            "$QMAILREMOTE on %d output x status cases. Oracle = folded verdict per recipient (qmail-remote(8)) against the set of verdicts the "
            "statement does not refute; plus %d histories of one long-lived qmail-rspawn whose 1-3 delivery slots are reused 2-6 times with "
            "different outputs and statuses (every report judged by the same rule: nothing of an earlier delivery may leak into a later one)."
            % (n1max, deep[2], deep[3], nrand, len(cases), nrr, len(rc_cases), nseq))
    return core.finish(PROP, tier, "exploration", res, rule, t0, extra=extra, assumptions=[
        "reference model nqv/refmodel/remote_model.py (from qmail-remote(8), qmail-rspawn(8), RFC 5321 reply classes) and its C twin in "
        "the harnesses; the Python model re-judges emitted records from the script alone",
        "only the folded verdict is judged (h => permanent, s => temporary, r/absent => message report); where both a 5xx and a temporary "
        "cause apply to a recipient either verdict is accepted; a temporary report where everything was accepted is counted, not refuted",
        "replies outside 200..599 or without a 3-digit code are outside the statement's domain and not generated; a write failure of the "
        "QUIT after the post-dot reply is not generated (no phase of the quantifier)",
        "spawner: strength order K > D > Z; crash => Z; non-zero exit or unparseable output => not K; an output is read liberally "
        "(first report decides h/s, first NUL-terminated K/Z/D report is the message report)",
        "the loopback sink answers RCPT positionally and opens its data phase only on 3xx, so (b) never scripts 2xx to DATA",
    ])


def replay(path):
    """re-execute the witnesses of one replay file against the current tree; 1 = reproduced, 0 = not"""
    with open(path) as f:
        w = json.load(f)
    print(json.dumps(w, indent=1)[:2500])
    key = w.get("key", "")
    b = build.vbuild("asan")
    hs, hr = compile_all(b)
    env = dict(os.environ)
    env.update(b.env())
    hit = 0

    def harness(argv):
        p = subprocess.run(argv, env=env, capture_output=True, text=True)
        print(p.stderr[-3000:])
        bad = [l for l in p.stdout.splitlines() if l.startswith("V ")]
        for l in bad:
            print("reproduced: " + " ".join(l.split(" ")[:3]))
        return 1 if bad or p.returncode != 0 else 0

    for c in w.get("cases", [])[:3]:
        wit = c.get("witness") or {}
        if key.startswith("C09/smtp") and wit.get("input"):
            spec = wit["input"]
            n, wm, m, script = rm.parse_spec(spec)
            print("--- script: %s" % rm.show_script(script, n))
            allowed, dup, flow = rm.expectations(script, n)
            print("--- model: allowed per recipient %s, possible-duplicate required %s" % (["".join(sorted(a)) for a in allowed], dup))
            hit |= harness([hs, "one", spec])
        elif key.startswith("C09/rspawn/") and wit.get("input_hex"):
            raw = bytes.fromhex(wit["input_hex"])
            hit |= harness([hr, "one", str(raw[0] << 8 | raw[1]), raw[2:].hex() or "-"])
        elif "/e2e/" in key or (wit.get("spec") is not None and "n" in wit):
            script = {ph: rm.Action(*a) for ph, a in (wit.get("spec") or {}).items()}
            r = e2e_worker(b.dir, [(wit["n"], script, wit.get("kind", "core"))], w.get("tier", "quick"))
            for v in r.violations:
                print("reproduced: %s %s" % (v["key"], v["why"]))
            hit |= 1 if r.violations else 0
        elif key.startswith("C09/rspawn-seq/") and wit.get("history_index") is not None:
            os.environ["VERIF_SEED"] = str(w.get("seed", 1))
            i = int(wit["history_index"])
            r = rspawn_seq_worker(b.dir, compile_standin(b), i, i + 1, w.get("tier", "quick"))
            for v in r.violations:
                print("reproduced: %s %s" % (v["key"], v["why"]))
            hit |= 1 if r.violations else 0
        elif wit.get("output_hex") is not None and "status" in wit:
            r = rspawn_worker(b.dir, compile_standin(b), [(bytes.fromhex(wit["output_hex"]), wit["status"])], w.get("tier", "quick"))
            for v in r.violations:
                print("reproduced: %s %s" % (v["key"], v["why"]))
            hit |= 1 if r.violations else 0
        elif wit.get("output_hex") is not None and "wstat" in wit:
            hit |= harness([hr, "one", str(wit["wstat"]), wit["output_hex"] or "-"])
        elif wit.get("harness_args"):
            a = wit["harness_args"].split()
            if a and a[-1].startswith("/"):
                a = a[:-1]                 # the emit file of the original run
            hit |= harness([hr if "rspawn" in key else hs] + a)
    print("%s on this tree; full re-run: VERIF_SEED=%s ./check C09 --tier %s" % (
        "REPRODUCED" if hit else "not reproduced", w.get("seed"), w.get("tier")))
    return 1 if hit else 0
