"""C20 - no input corrupts memory (DESIGN.md section 3, C20).

Monitors (all run the real code of the tree under test on sanitised builds):
  (b) thirteen libFuzzer targets (harness/fuzz_*.c: real program sources #included, boundary functions
      substituted) seeded with structured corpora, one process per target/shard, -runs=N -seed=VERIF_SEED;
  (c) deterministic extreme inputs (huge lines, 10^5 tokens, deep comments, declared netstring lengths around
      2^31/2^32, every truncation of a valid session) run once through the same targets;
      length-arithmetic probes (harness/h_lenprobe.c) with fabricated len/a/n around 2^31 and 2^32-k;
      thorough tier: long-haul qmtpd/qmqpd cases behind a declared length of 2^31+k;
  (a') whole-binary smoke runs of the ASan/UBSan binaries on mutated sessions (smtpd, qmtpd, qmqpd, pop3d,
      popup, inject, qreceipt, showctl), generated envelopes through the real qmail-queue, generated .qmail files
      through qmail-local -n, corrupted users/cdb through qmail-lspawn;
  (d) valgrind memcheck on the plain binaries for a corpus sample (uninitialised / invalid accesses).
A sanitizer report, a fatal signal or an exit status outside the program's documented set is a violation keyed
C20/sanitizer/<target>/<kind>/<site>; a memcheck error is keyed C20/memcheck/<prog>/<kind>/<site>; a length probe
that is granted is keyed C20/lenprobe/<primitive>/<rule>.  libFuzzer timeouts / out-of-memory stops, watchdog
expiries and harnesses that do not build are inconclusive, never violations."""
import hashlib
import os
import re
import shutil
import subprocess
import threading
import time

from .. import core, build, hrun, sandbox, c20gen
from .. import shim as _shim

PROP = "C20"
H = os.path.join(core.VERIF, "harness")

# name -> (source, Makefile program whose link list is reused, objects dropped (substituted), explicit objects or None,
#          -max_len, has a trailing selector byte)
TARGETS = {
    "smtpd": ("fuzz_smtpd.c", "qmail-smtpd", ("qmail.o", "timeoutread.o", "timeoutwrite.o", "commands.o"), None, 4096, True),
    "qmtpd": ("fuzz_qmtpd.c", "qmail-qmtpd", ("qmail.o",), None, 4096, True),
    "qmqpd": ("fuzz_qmqpd.c", "qmail-qmqpd", ("qmail.o",), None, 4096, True),
    "pop3d": ("fuzz_pop3d.c", "qmail-pop3d", ("timeoutread.o", "timeoutwrite.o", "commands.o"), None, 1024, True),
    "popup": ("fuzz_popup.c", "qmail-popup", ("timeoutread.o", "timeoutwrite.o", "commands.o"), None, 1024, True),
    "inject822": ("fuzz_inject.c", "qmail-inject", ("qmail.o",), None, 4096, True),
    "dns": ("fuzz_dns.c", "dnsip", ("dns.o", "dnsdoe.o"), None, 2048, False),
    "remote-smtp": ("fuzz_remote.c", "qmail-remote", ("timeoutread.o", "timeoutwrite.o"), None, 8192, True),
    "send-reports": ("fuzz_send.c", "qmail-send", ("qsutil.o",), None, 12288, True),
    "control": ("fuzz_control.c", None, (), "constmap.o getln.a open.a case.a stralloc.a substdio.a error.a str.a fs.a".split(), 4096, True),
    "cdb": ("fuzz_cdb.c", None, (), "cdb.a error.a str.a".split(), 8192, False),
    "rspawn-report": ("fuzz_rspawn.c", "qmail-rspawn", ("spawn.o",), None, 2048, True),
    "lspawn-report": ("fuzz_lspawn.c", "qmail-lspawn", ("spawn.o",), None, 2048, True),
}
LENPROBE_OBJS = "token822.o ipalloc.o prioq.o quote.o stralloc.a error.a str.a".split()

CONTROLS = {"me": "me.test", "rcpthosts": ["me.test", ".a.test", "relay.test"], "defaulthost": "dh.test",
            "defaultdomain": "dd.test", "plusdomain": "pd.test", "databytes": 100000,
            "badmailfrom": ["bad@spam.test", "@worse.test"], "virtualdomains": ["vdom.test:prep", ".wild.test:prep"],
            "locals": ["me.test", "local.test"], "timeoutsmtpd": 5, "smtpgreeting": "me.test hello"}

# documented / deliberate exit statuses of the whole programs (man pages where they say so, else the statuses the
# program itself passes to _exit).  qmail-queue: 0 or 1..99 (qmail-queue(8)); qmail-local: "nonzero if any delivery
# instruction failed" -> every ordinary status is documented, only signals / sanitizer aborts are not.
ALLOWED = {
    "qmail-smtpd": {0, 1}, "qmail-qmtpd": {0, 100, 111}, "qmail-qmqpd": {0, 100, 111}, "qmail-pop3d": {0, 1},
    "qmail-popup": {0, 1}, "qmail-inject": {0, 100, 111}, "qmail-queue": set(range(0, 100)),
    "qmail-local": set(range(0, 126)), "qmail-lspawn": {0, 111}, "qreceipt": {0, 100, 111}, "qmail-showctl": {0, 111},
    "qmail-getpw": {0, 100, 111, 112, 113, 114, 115, 116, 117, 118, 119},      # qlx.h statuses
}


# ------------------------------------------------------------------------------------ building

def link_list(b, prog, drop=()):
    """objects and libraries the tree's own Makefile links into `prog`, minus the substituted ones"""
    mk = open(b.path("Makefile")).read()
    m = re.search(r"^%s: \\\n((?:.*\\\n)*.*)\n\t" % re.escape(prog), mk, re.M)
    if not m:
        raise core.Inconclusive("Makefile has no rule for %s" % prog)
    objs, libs = [], []
    for d in m.group(1).replace("\\\n", " ").split():
        if d in ("load", prog + ".o") or d in drop:
            continue
        if d.endswith(".lib"):
            libs += open(b.path(d)).read().split()
        else:
            objs.append(d)
    return objs, libs


def build_all():
    """the three scratch builds concurrently (each is a make -j16)"""
    out, errs = {}, []

    def one(v):
        try:
            out[v] = build.vbuild(v)
        except Exception as e:                       # noqa
            errs.append("%s build: %s" % (v, e))
    ts = [threading.Thread(target=one, args=(v,)) for v in ("fuzz", "asan", "plain")]
    for t in ts:
        t.start()
    for t in ts:
        t.join()
    if "fuzz" not in out or "asan" not in out:
        raise core.Inconclusive("; ".join(errs)[:3000])
    return out, errs


def compile_targets(bf):
    """compile the libFuzzer targets and the length probe against the fuzz build (in parallel); returns
    ({name: binary}, [problems])"""
    bins, probs = {}, []
    lock = threading.Lock()

    def one(name):
        src, prog, drop, objs, _, _ = TARGETS[name]
        try:
            libs = []
            if objs is None:
                objs, libs = link_list(bf, prog, drop)
            p = bf.compile_harness(os.path.join(H, src), out=bf.path("nqv_fuzz_" + name), extra_objs=objs, libs=libs,
                                   cc_extra=["-fsanitize=fuzzer"])
            with lock:
                bins[name] = p
        except core.Inconclusive as e:
            with lock:
                probs.append("target %s: %s" % (name, str(e)[:1200]))

    def lp():
        try:
            p = bf.compile_harness(os.path.join(H, "h_lenprobe.c"), out=bf.path("nqv_h_lenprobe"), extra_objs=LENPROBE_OBJS)
            with lock:
                bins["lenprobe"] = p
        except core.Inconclusive as e:
            with lock:
                probs.append("lenprobe: %s" % str(e)[:1200])
    ts = [threading.Thread(target=one, args=(n,)) for n in TARGETS] + [threading.Thread(target=lp)]
    for t in ts:
        t.start()
    for t in ts:
        t.join()
    return bins, probs


# ------------------------------------------------------------------------------------ corpora

def make_maildir(md, owner=None):
    for d in ("new", "cur", "tmp"):
        os.makedirs(os.path.join(md, d), exist_ok=True)
    fill_maildir(md, owner)


def fill_maildir(md, owner=None):
    msgs = [b"Subject: x\n\n.dot\nbody 0\n", b"From: a@b\nTo: c@d\n\nline\n..\n.\n" + b"x" * 3000 + b"\nno newline at end",
            b"\n\n\n", b"H: v\n" * 200 + b"\n" + b"l\n" * 500]
    for i, m in enumerate(msgs):
        p = os.path.join(md, "new" if i % 2 == 0 else "cur", "%d.%d.host%s" % (1500000000 + i, i, "" if i % 2 == 0 else ":2,S"))
        if not os.path.exists(p):
            with open(p, "wb") as f:
                f.write(m)
            os.utime(p, (1500000000 + i, 1500000000 + i))
            if owner is not None:
                os.chown(p, owner, owner)


def seed_corpus(name, d, n):
    """write n structured seeds for a target into directory d; returns the number written"""
    os.makedirs(d, exist_ok=True)
    k = 0

    def put(data, sel=None):
        nonlocal k
        if TARGETS[name][5]:
            data = data + bytes([sel if sel is not None else rng.randrange(256)])
        with open(os.path.join(d, "seed%05d" % k), "wb") as f:
            f.write(data)
        k += 1
    gens = {"smtpd": c20gen.smtp_session, "qmtpd": c20gen.qmtp_session, "qmqpd": c20gen.qmqp_session,
            "pop3d": c20gen.pop3_session, "popup": c20gen.popup_session, "inject822": c20gen.message,
            "remote-smtp": c20gen.smtp_replies, "control": c20gen.control_file,
            "rspawn-report": c20gen.remote_output, "lspawn-report": c20gen.local_output}
    for i in range(n):
        rng = core.case_rng(PROP, i, "seed-" + name)
        if name in gens:
            s = gens[name](rng)
            if rng.random() < 0.3:
                s = c20gen.mutate(rng, s)
            put(s[:TARGETS[name][4] - 1])
        elif name == "send-reports":
            put(c20gen.reports(rng, 10 if i % 2 == 0 else 20), sel=(i % 2) | (rng.randrange(8) << 1))
        elif name == "dns":
            put(c20gen.dns_random_case(rng)[:2048])
        elif name == "cdb":
            db = c20gen.cdb_seed(rng)
            if i % 3:
                db = c20gen.cdb_corrupt(rng, db)
            put(c20gen.cdb_fuzz_input(rng, db)[:8192])
    if name == "dns":
        rng = core.case_rng(PROP, 0, "seed-dns-b")
        for _, case in c20gen.dns_boundary_cases():
            put(case)
    return k


# ------------------------------------------------------------------------------------ judging a libFuzzer process

STAT_RE = re.compile(r"^NQVSTAT (\S+) runs=(\d+) exits=(\S+) returned=(\d+)(.*)$", re.M)
DONE_RE = re.compile(r"#(\d+)\s+DONE\s+cov: (\d+) ft: (\d+) corp: (\d+)/(\S+)")
AUX_RE = re.compile(r"^NQVSTAT-[A-Z]+ (.*)$", re.M)


def judge_fuzz(res, name, rc, err, artdir, what, argv_note):
    """fold one libFuzzer process into res; returns True if it ended normally"""
    text = err.decode("latin1", "replace")
    m = STAT_RE.search(text)
    runs = 0
    if m:
        runs = int(m.group(2))
        ck = "fuzz_executions" if what == "fuzz" else "extreme_executions"
        res.counters.setdefault(ck, {})
        res.counters[ck][name] = res.counters[ck].get(name, 0) + runs
        ex = res.counters.setdefault("exit_statuses_seen", {})
        if m.group(3) != "-":
            for kv in m.group(3).split(","):
                c, v = kv.split(":")
                ex["%s:%s" % (name, c)] = ex.get("%s:%s" % (name, c), 0) + int(v)
        if int(m.group(4)):
            ex["%s:returned" % name] = ex.get("%s:returned" % name, 0) + int(m.group(4))
        mon = res.counters.setdefault("target_monitors", {})
        for kv in m.group(5).split():
            if "=" in kv:
                a, v = kv.split("=", 1)
                if v.isdigit():
                    mon["%s.%s" % (name, a)] = mon.get("%s.%s" % (name, a), 0) + int(v)
        for am in AUX_RE.finditer(text):
            for kv in am.group(1).split():
                a, v = kv.split("=", 1)
                if v.isdigit():
                    mon["%s.%s" % (name, a)] = mon.get("%s.%s" % (name, a), 0) + int(v)
    res.evaluations += runs
    d = DONE_RE.search(text)
    if d and what == "fuzz":
        # coverage figures are per process (shards overlap): keyed target/shard; corpus units are summed per target
        sh = argv_note.split("shard=")[-1] if "shard=" in argv_note else "0"
        res.counters.setdefault("libfuzzer_cov_edges", {})["%s/%s" % (name, sh)] = int(d.group(2))
        res.counters.setdefault("libfuzzer_features", {})["%s/%s" % (name, sh)] = int(d.group(3))
        dd = res.counters.setdefault("corpus_units_final", {})
        dd[name] = dd.get(name, 0) + int(d.group(4))
        res.distinct_extra += int(d.group(4))         # corpus units: distinct inputs, each kept for new coverage
    if rc == 0:
        return True
    # abnormal end: find the artifact libFuzzer wrote
    art = None
    if os.path.isdir(artdir):
        fs = sorted(os.listdir(artdir))
        if fs:
            art = os.path.join(artdir, fs[0])
    wit = {"mode": what, "target": name, "note": argv_note}
    if art:
        with open(art, "rb") as f:
            data = f.read()
        wit["artifact"] = os.path.basename(art)
        wit["input_len"] = len(data)
        wit["input_hex"] = data[:65536].hex()
        wit["input"] = core.hx(data[:400])
    i = text.find("ERROR:")
    j = text.find("runtime error:")
    start = min(x for x in (i, j, len(text)) if x >= 0)
    wit["stderr"] = text[max(0, start - 200):start + 3500]
    um = re.search(r"NQV-UNDOCUMENTED-EXIT \S+ (\S+)", text)
    vm = re.search(r"NQV-VIOLATION (\S+) (.*)", text)
    if vm:
        res.violate("C20/%s" % vm.group(1), "harness monitor: %s" % vm.group(2)[:200], wit)
    elif um:
        res.violate("C20/sanitizer/%s/exit-status/%s" % (name, um.group(1).replace("status=", "")),
                    "exit status outside the documented set", wit)
    elif "ERROR: libFuzzer: timeout" in text:
        res.inconclusive.append("libFuzzer timeout (one input ran > limit) in %s %s: input %s" % (name, argv_note, wit.get("input", "?")[:200]))
    elif "ERROR: libFuzzer: out-of-memory" in text:
        res.inconclusive.append("libFuzzer out-of-memory stop in %s %s" % (name, argv_note))
    elif "ERROR: AddressSanitizer" in text or "runtime error:" in text or "ERROR: libFuzzer: deadly signal" in text or rc < 0:
        res.violate("C20/sanitizer/%s/%s" % (name, hrun.sanitizer_site(text)),
                    "sanitizer report or fatal signal (rc=%s)" % rc, wit)
    else:
        res.inconclusive.append("fuzz target %s %s ended rc=%s: %s" % (name, argv_note, rc, text[-400:]))
    return False


def fz_env(bdir, home, extra=None):
    b = build.Build("fuzz", bdir)
    e = b.env(home)
    e["NQV_FZ_MAILDIR"] = os.path.join(home, "fzmaildir")
    e["NQV_FZ_MFTFILE"] = os.path.join(home, "mft")
    e.update({"TCPREMOTEIP": "1.2.3.4", "TCPREMOTEHOST": "client.test", "TCPLOCALHOST": "me.test", "TCPREMOTEINFO": "ident",
              "USER": "u", "QMAILNAME": "Full (Name) \"Q\"", "QMAILHOST": "mh.test"})
    if extra:
        e.update(extra)
    return e


def job_fuzz(bdir, binary, name, home, corpus_src, runs, seedval, shard):
    """one libFuzzer process: -runs executions from the seed corpus"""
    res = core.Result()
    work = build.mktemp("nqv-c20-fz-")
    corp = os.path.join(work, "corpus")
    shutil.copytree(corpus_src, corp)
    nseed = len(os.listdir(corp))
    art = os.path.join(work, "art")
    os.makedirs(art)
    argv = [binary, "-runs=%d" % runs, "-seed=%d" % seedval, "-max_len=%d" % TARGETS[name][4], "-timeout=20",
            "-rss_limit_mb=4000", "-detect_leaks=0", "-print_final_stats=1", "-artifact_prefix=%s/" % art, corp]
    note = "-runs=%d -seed=%d shard=%d" % (runs, seedval, shard)
    wd = max(600, runs // 300)
    rc, out, err = core.run_with_watchdog(argv, wd, env=fz_env(bdir, home), cwd=work)
    if rc is None:
        rc, out, err = core.run_with_watchdog(argv, wd, env=fz_env(bdir, home), cwd=work)
        if rc is None:
            res.inconclusive.append("watchdog: fuzz target %s %s" % (name, note))
            shutil.rmtree(work, ignore_errors=True)
            return res
    judge_fuzz(res, name, rc, err, art, "fuzz", note)
    d = res.counters.setdefault("corpus_seeds", {})
    d[name] = max(d.get(name, 0), nseed)
    # a few real corpus units as samples
    try:
        fs = sorted(f for f in os.listdir(corp) if not f.startswith("seed"))[:1]
        for f in fs:
            with open(os.path.join(corp, f), "rb") as fh:
                res.sample({"target": name, "libfuzzer_found_unit": core.hx(fh.read()[:120])}, cap=1)
    except OSError:
        pass
    shutil.rmtree(work, ignore_errors=True)
    return res


SELECTORS = {"smtpd": (0, 1, 0x34, 0xc2), "qmtpd": (0, 1, 0x24, 0x88), "qmqpd": (0, 1, 0x82), "pop3d": (0, 1, 2), "popup": (0, 1, 4, 8, 12),
             "inject822": (0, 1, 0x42, 0xb9, 0x7c), "remote-smtp": (0, 1, 0x1c, 0x12), "send-reports": (0, 1, 2, 3, 6, 0x0f),
             "control": (0, 1, 2, 3), "rspawn-report": (0, 4, 5, 6), "lspawn-report": (0, 100, 111, 200)}


TRUNC_GENS = {"smtpd": c20gen.smtp_session, "qmtpd": c20gen.qmtp_session, "qmqpd": c20gen.qmqp_session, "pop3d": c20gen.pop3_session,
              "popup": c20gen.popup_session, "inject822": c20gen.message, "remote-smtp": c20gen.smtp_replies,
              "control": c20gen.control_file, "send-reports": lambda r: c20gen.reports(r, 10),
              "rspawn-report": c20gen.remote_output, "lspawn-report": c20gen.local_output}


def job_extremes(bdir, binary, name, home, ntrunc=0, group=None, longhaul=False):
    """deterministic extreme inputs, each executed once by the target binary"""
    res = core.Result()
    work = build.mktemp("nqv-c20-ex-")
    art = os.path.join(work, "art")
    os.makedirs(art)
    files = []
    if longhaul:
        ns = c20gen.ns
        if name == "qmtpd":
            cases = [ns(b"\nhi\n") + b"2147483649:", ns(b"\nhi\n") + ns(b"a@b") + b"4294967000:2147483650:",
                     b"2147483700:\n", b"2147483700:\r"]
        else:
            cases = [b"3000000000:1:x,2147483649:", b"3000000000:1:x,3:a@b,2147483650:", b"2147483700:2147483649:"]
        sels = (0,)
    elif group is not None:
        cases = [c for n, c in c20gen.dns_boundary_cases() if n.startswith(group)]
        sels = (None,)
    else:
        cases = c20gen.extremes(name)
        sels = SELECTORS.get(name, (None,))
    for i, c in enumerate(cases):
        for s in (sels if len(c) < 100000 else sels[:2]):
            p = os.path.join(work, "x%04d_%s" % (i, "n" if s is None else "%02x" % s))
            with open(p, "wb") as f:
                f.write(c + (bytes([s]) if s is not None else b""))
            files.append(p)
    if not longhaul and group is None and name in TRUNC_GENS:
        # every truncation point of generated valid sessions (selector 0: whole reads)
        for j in range(ntrunc):
            sess = TRUNC_GENS[name](core.case_rng(PROP, j, "trunc-" + name))[:700]
            for i in range(len(sess) + 1):
                p = os.path.join(work, "t%03d_%04d" % (j, i))
                with open(p, "wb") as f:
                    f.write(sess[:i] + b"\0")
                files.append(p)
            cases.append(sess)
    if not files:
        shutil.rmtree(work, ignore_errors=True)
        return res
    argv = [binary, "-timeout=%d" % (900 if longhaul else 120), "-rss_limit_mb=6000", "-detect_leaks=0",
            "-artifact_prefix=%s/" % art] + files
    env = fz_env(bdir, home, {"NQV_FZ_LONGHAUL": "1"} if longhaul else None)
    note = "long-haul inputs" if longhaul else "%d extreme inputs%s" % (len(files), " (%s group)" % group if group else "")
    rc, out, err = core.run_with_watchdog(argv, 3000 if longhaul else 900, env=env, cwd=work)
    if rc is None:
        res.inconclusive.append("watchdog: %s of %s" % (note, name))
    else:
        judge_fuzz(res, name, rc, err, art, "longhaul" if longhaul else "extreme", note)
        for c in cases:
            res.nontrivial(name, hashlib.blake2b(c, digest_size=8).digest())
        k = "longhaul_inputs" if longhaul else "extreme_inputs"
        res.counters.setdefault(k, {})[name + ("/" + group if group else "")] = len(files)
        if cases and not longhaul:
            big = max(cases, key=len)
            res.sample({"target": name, "extreme_input": core.hx(big[:60]) + "... (%d bytes)" % len(big)}, cap=1)
    shutil.rmtree(work, ignore_errors=True)
    return res


def job_lenprobe(bdir, binary):
    res = core.Result()
    b = build.Build("fuzz", bdir)
    env = b.env()
    env["ASAN_OPTIONS"] = env["ASAN_OPTIONS"].replace("max_allocation_size_mb=3000", "max_allocation_size_mb=128")
    rc, out, err = core.run_with_watchdog([binary], 300, env=env)
    if rc is None:
        res.inconclusive.append("watchdog: lenprobe")
        return res
    text = out.decode("latin1")
    hrun.parse(text, res, "h_lenprobe")
    marks = [l[2:] for l in text.splitlines() if l.startswith("P ")]
    res.counters["lenprobe_cases"] = res.counters.pop("cases", 0)
    if rc != 0:
        e = err.decode("latin1", "replace")
        e = "\n".join(l for l in e.splitlines() if "failed to allocate" not in l)
        prim = marks[-1] if marks else "?"
        if "Sanitizer" in e or "runtime error" in e or rc < 0:
            res.violate("C20/sanitizer/lenprobe-%s/%s" % (prim, hrun.sanitizer_site(e)),
                        "a fabricated length was accepted and the copy left the buffer (rc=%s)" % rc,
                        {"mode": "lenprobe", "probe": prim, "stderr": e[:3500]})
        else:
            res.inconclusive.append("lenprobe rc=%s: %s" % (rc, e[-300:]))
    else:
        res.sample({"lenprobe": "stralloc_readyplus(len=0xfffffff0,n=0x20), token822_readyplus(n=0x0aaaaaab), quote(len=0x80000000) ... all refused with ENOMEM"}, cap=1)
    return res


# ------------------------------------------------------------------------------------ whole binaries

SMOKE = ("qmail-smtpd", "qmail-qmtpd", "qmail-qmqpd", "qmail-pop3d", "qmail-popup", "qmail-inject", "qmail-queue",
         "qmail-local", "qmail-queue", "qmail-local", "qmail-lspawn", "qreceipt", "qmail-showctl", "qmail-getpw")
SMOKE_BINS = tuple(sorted(set(SMOKE) | {"qmail-getpw"}))
POPUID = 1000


def classify(res, prog, rc, err, wit, tool="sanitizer"):
    """whole-binary verdict: True if ordinary"""
    e = err.decode("latin1", "replace") if isinstance(err, bytes) else err
    ex = res.counters.setdefault("exit_statuses_seen", {})
    k = "%s:%s" % (prog, rc if rc >= 0 else "signal%d" % -rc)
    ex[k] = ex.get(k, 0) + 1
    if "ERROR: AddressSanitizer" in e or "runtime error:" in e or "Sanitizer:" in e:
        wit["stderr"] = e[max(0, e.find("ERROR:") - 100):][:3500] if "ERROR:" in e else e[:3500]
        res.violate("C20/sanitizer/%s/%s" % (prog, hrun.sanitizer_site(e)), "sanitizer report (rc=%s)" % rc, wit)
        return False
    if rc < 0:
        wit["stderr"] = e[-1500:]
        res.violate("C20/sanitizer/%s/signal-%d/?" % (prog, -rc), "program died by signal %d" % -rc, wit)
        return False
    if rc not in ALLOWED.get(prog, set(range(0, 126))):
        wit["stderr"] = e[-1500:]
        res.violate("C20/sanitizer/%s/exit-status/%d" % (prog, rc), "exit status %d is not a documented status of %s" % (rc, prog), wit)
        return False
    return True


def run_prog(argv, env, stdin_path, timeout=60, stdout_path=None, uid=None, cwd=None):
    def pre():
        if uid is not None:
            os.setgroups([])
            os.setgid(uid)
            os.setuid(uid)
    kw = {"env": env, "cwd": cwd}
    if uid is not None:
        kw["preexec_fn"] = pre
    fin = open(stdin_path, "rb")
    fout = open(stdout_path, "rb") if stdout_path else None
    try:
        p = subprocess.Popen(argv, stdin=fin, stdout=fout if fout else subprocess.PIPE, stderr=subprocess.PIPE,
                             start_new_session=True, **kw)
        try:
            out, err = p.communicate(timeout=timeout)
            return p.returncode, out or b"", err
        except subprocess.TimeoutExpired:
            try:
                os.killpg(p.pid, 9)
            except ProcessLookupError:
                pass
            out, err = p.communicate()
            return None, out or b"", err
    finally:
        fin.close()
        if fout:
            fout.close()


class SmokeHome:
    """one sandbox home per worker: controls, queue, maildir, users/cdb, a home directory for qmail-local"""

    def __init__(self, b, variant_bins):
        self.b = b
        self.root = build.mktemp("nqv-c20-sm-")
        os.chmod(self.root, 0o755)
        self.home = os.path.join(self.root, "home")
        sandbox.make_home(b, self.home, controls=CONTROLS, bins=variant_bins, queue=True)
        with open(os.path.join(self.home, "control", "morercpthosts.cdb"), "wb") as f:
            f.write(c20gen.cdb_make([(b"more.test", b""), (b".more2.test", b"")]))
        with open(os.path.join(self.home, "mft"), "wb") as f:
            f.write(b"x@y.test\na@b\nlist@lists.test\n")
        self.rec = os.path.join(self.root, "rec")
        os.makedirs(self.rec)
        os.chmod(self.rec, 0o777)
        self.md = os.path.join(self.root, "md")
        make_maildir(self.md, POPUID)
        for r, ds, fs in os.walk(self.md):
            os.chown(r, POPUID, POPUID)
        self.uhome = os.path.join(self.root, "uhome")
        os.makedirs(self.uhome)
        os.chmod(self.uhome, 0o755)
        os.makedirs(os.path.join(self.home, "queue", "mess", "0"), exist_ok=True)
        with open(os.path.join(self.home, "queue", "mess", "0", "23"), "wb") as f:
            f.write(b"Subject: x\n\nbody\n")
        os.chown(os.path.join(self.home, "queue", "mess", "0", "23"), sandbox.uid("q"), sandbox.gid("q"))   # spawn.c insists
        os.chmod(os.path.join(self.home, "queue", "mess", "0", "23"), 0o644)
        shutil.copy(_shim.tool("ql-rec"), os.path.join(self.root, "ql-rec"))
        self.tmp = os.path.join(self.root, "in")
        self.cdb_good = c20gen.cdb_make([
            (b"", b"-"), (b"!joe\0", b"joe\0" + b"%d\0%d\0" % (POPUID, POPUID) + self.uhome.encode() + b"\0\0\0"),
            (b"!joe-", b"joe\0" + b"%d\0%d\0" % (POPUID, POPUID) + self.uhome.encode() + b"\0-\0\0"),
            (b"!rooty\0", b"root\0000\0000\0/root\0\0\0"), (b"!nobody.x\0", b"nobody\00065534\00065534\0/nonexistent\0\0\0")])

    def clean(self):
        for d in ("mess", "info", "local", "remote"):
            base = os.path.join(self.home, "queue", d)
            for s in os.listdir(base):
                for f in os.listdir(os.path.join(base, s)):
                    if not (d == "mess" and s == "0" and f == "23"):
                        try:
                            os.unlink(os.path.join(base, s, f))
                        except OSError:
                            pass
        for d in ("intd", "todo", "pid", "bounce"):
            base = os.path.join(self.home, "queue", d)
            for f in os.listdir(base):
                try:
                    os.unlink(os.path.join(base, f))
                except OSError:
                    pass
        for f in os.listdir(self.rec):
            try:
                os.unlink(os.path.join(self.rec, f))
            except OSError:
                pass


def smoke_case(h, prog, rng, valgrind=False):
    """build one whole-binary case: returns (argv, env, stdin_bytes, extra) ; extra may carry 'stdout_bytes' (envelope),
    'uid', 'cwd'"""
    b = h.b
    env = b.env(h.home, {"TCPREMOTEIP": "1.2.3.4", "TCPREMOTEHOST": "client.test", "TCPLOCALHOST": "me.test", "USER": "u",
                         "NQV_REC": h.rec})
    if rng.random() < 0.3:
        env["RELAYCLIENT"] = rng.choice(["", "@relay.test"])
    if rng.random() < 0.7:
        env["QMAILQUEUE"] = _shim.tool("qq-rec")
        env["NQV_QQ_PLAN"] = rng.choice(["exit=0", "exit=0", "exit=0", "err=Dno thanks", "err=Ztry later", "exit=53", "exit=31", "stop=10,exit=54"])
    extra = {}
    light = valgrind or rng.random() < 0.15

    def mut(s):
        return s if light and rng.random() < 0.5 else c20gen.mutate(rng, s)
    bp = os.path.join(h.home, "bin", prog)
    if prog == "qmail-smtpd":
        return [bp], env, mut(c20gen.smtp_session(rng)), extra
    if prog == "qmail-qmtpd":
        return [bp], env, mut(c20gen.qmtp_session(rng)), extra
    if prog == "qmail-qmqpd":
        return [bp], env, mut(c20gen.qmqp_session(rng)), extra
    if prog == "qmail-pop3d":
        fill_maildir(h.md, POPUID)
        extra["uid"] = POPUID
        return [bp, h.md], env, mut(c20gen.pop3_session(rng)), extra
    if prog == "qmail-getpw":
        # the recipient's local part as qmail-lspawn hands it over: every length around the login-name buffer, break
        # characters at every offset, upper case, 8-bit
        n = rng.choice(list(range(0, 41)) * 3 + [64, 100, 1000, 5000])
        base = rng.choice([b"u", b"u", b"root", b"games", b"Joe", b"\xe9"])
        local = (base * (n // len(base) + 1))[:n]
        if n and rng.random() < 0.6:
            for _ in range(rng.randint(1, 3)):
                k = rng.randrange(0, n + 1)
                local = local[:k] + b"-" + local[k:]
        if rng.random() < 0.1:
            local = c20gen.mutate(rng, local)
        local = local.replace(b"\0", b"")
        return [bp, local.decode("latin1")], env, b"", extra
    if prog == "qmail-popup":
        return [bp, "pop.host.test", rng.choice(["/bin/true", "/bin/false"])], env, mut(c20gen.popup_session(rng)), extra
    if prog == "qmail-inject":
        env["QMAILINJECT"] = rng.choice(["", "c", "s", "f", "i", "r", "m", "csfirm"])
        env["QMAILMFTFILE"] = os.path.join(h.home, "mft")
        av = rng.choice([["-n"], ["-n"], [], ["-n", "-f", "\"odd s\"@[1.2.3.4]"], ["-n", "-a", "r1@x.test", "r2+"], ["-H", "a b@c"], ["-h", "-n"]])
        return [bp] + av, env, mut(c20gen.message(rng)), extra
    if prog == "qreceipt":
        env["SENDER"] = rng.choice(["s@x.test", "", "\"q\"@h"])
        return [bp, rng.choice(["a@b.test", "x@y.test", "\"q x\"@h"])], env, mut(c20gen.message(rng)), extra
    if prog == "qmail-showctl":
        # hostile control files: every file showctl reads is regenerated
        for name in ("badmailfrom", "bouncefrom", "concurrencylocal", "databytes", "defaultdomain", "envnoathost", "locals", "percenthack",
                     "qmqpservers", "queuelifetime", "rcpthosts", "smtproutes", "timeoutconnect", "virtualdomains", "helohost", "idhost"):
            if rng.random() < 0.5:
                with open(os.path.join(h.home, "control", name), "wb") as f:
                    f.write(mut(c20gen.control_file(rng))[:20000])
        extra["restore_controls"] = True
        return [bp], env, b"", extra
    if prog == "qmail-queue":
        env.pop("QMAILQUEUE", None)
        msg = rng.choice([b"Subject: s\n\nbody\n", b"", b"x" * 70000, b"no newline", b"\0\xff" * 50])
        e = c20gen.envelope(rng)
        if not light and rng.random() < 0.3:
            e = c20gen.mutate(rng, e)
        extra["stdout_bytes"] = e
        return [bp], env, msg, extra
    if prog == "qmail-local":
        ext = rng.choice(["", "ext", "a-b-c", "x.y", "UPPER", "default", "e" * 200])
        for f in os.listdir(h.uhome):
            fp = os.path.join(h.uhome, f)
            if os.path.isdir(fp) and not os.path.islink(fp):
                shutil.rmtree(fp, ignore_errors=True)
            else:
                os.unlink(fp)
        if rng.random() < 0.7:
            for d in ("Maildir", "Maildir/tmp", "Maildir/new", "Maildir/cur"):
                os.mkdir(os.path.join(h.uhome, d))
        names = [".qmail" + ("-" + ext if ext else "")]
        if rng.random() < 0.3:
            names.append(".qmail-default")
        for nm in names:
            nm = (".qmail" + nm[6:].lower().replace(".", ":"))[:250]      # dot-qmail(5): dots become colons, lower case
            with open(os.path.join(h.uhome, nm), "wb") as f:
                f.write(mut(c20gen.dotqmail(rng)))
            os.chmod(os.path.join(h.uhome, nm), rng.choice([0o644] * 7 + [0o600, 0o755, 0o666]))
        local = "joe" + ("-" + ext if ext else "")
        sender = rng.choice(["s@x.test", "", "#@[]", "a b@c", "s" * 500 + "@h", "weird\nsender@x"])
        extra["cwd"] = h.uhome
        # half of the runs are real deliveries (the executing pass stores what -n only prints); forwards go to qq-rec
        dry = ["-n"] if rng.random() < 0.5 else []
        return [bp] + dry + ["joe", h.uhome, local, "-" if ext else "", ext, rng.choice(["local.test", "a.b.c.d.e", ""]), sender,
                             rng.choice(["./Mailbox", "./Maildir/", "|true", "&x@y"])], env, \
            rng.choice([b"Subject: s\n\nbody\n", b"Subject: s\n\nbody\n", b"", b"From x\n>From y\nno newline", b"H: " + b"h" * 3000 + b"\n\nb\n"]), extra
    if prog == "qmail-lspawn":
        db = h.cdb_good
        if rng.random() < 0.85:
            db = c20gen.cdb_corrupt(rng, db)
        os.makedirs(os.path.join(h.home, "users"), exist_ok=True)
        with open(os.path.join(h.home, "users", "cdb"), "wb") as f:
            f.write(db)
        shutil.copy(os.path.join(h.root, "ql-rec"), os.path.join(h.home, "bin", "qmail-local"))
        cmds = b"".join(bytes([i + 1]) + b"0/23\0s@x\0" + l + b"@local.test\0"
                        for i, l in enumerate([b"joe", b"Joe-List-Foo", b"nobody.x", b"joe-x", b"rooty"]))
        env["NQV_QL_EXIT"] = "0"
        return [bp, "./Mailbox"], env, cmds, extra
    raise ValueError(prog)


def smoke_worker(bdir, lo, hi):
    res = core.Result()
    b = build.Build("asan", bdir)
    h = SmokeHome(b, SMOKE_BINS)
    real_local = os.path.join(h.root, "qmail-local.real")
    shutil.copy(os.path.join(h.home, "bin", "qmail-local"), real_local)
    inp = os.path.join(h.root, "stdin")
    envf = os.path.join(h.root, "envelope")
    try:
        _smoke_loop(res, h, real_local, inp, envf, lo, hi)
    finally:
        shutil.rmtree(h.root, ignore_errors=True)
    return res


def _smoke_loop(res, h, real_local, inp, envf, lo, hi):
    for i in range(lo, hi):
        rng = core.case_rng(PROP, i, "smoke")
        prog = SMOKE[i % len(SMOKE)]
        if prog == "qmail-local":
            shutil.copy(real_local, os.path.join(h.home, "bin", "qmail-local"))
        argv, env, data, extra = smoke_case(h, prog, rng)
        with open(inp, "wb") as f:
            f.write(data)
        sp = None
        if "stdout_bytes" in extra:
            with open(envf, "wb") as f:
                f.write(extra["stdout_bytes"])
            sp = envf
        rc, out, err = run_prog(argv, env, inp, 60, stdout_path=sp, uid=extra.get("uid"), cwd=extra.get("cwd"))
        if rc is None:
            rc, out, err = run_prog(argv, env, inp, 60, stdout_path=sp, uid=extra.get("uid"), cwd=extra.get("cwd"))
        res.evaluations += 1
        d = res.counters.setdefault("smoke_sessions", {})
        d[prog] = d.get(prog, 0) + 1
        if extra.get("restore_controls"):
            for k, v in CONTROLS.items():
                sandbox.write_control(h.home, k, v)
        if rc is None:
            res.inconclusive.append("watchdog: %s smoke case %d" % (prog, i))
            continue
        res.nontrivial(prog, hashlib.blake2b(data + extra.get("stdout_bytes", b"") + repr(argv[1:]).encode(), digest_size=8).digest())
        wit = {"mode": "smoke", "prog": prog, "case_index": i, "argv": [a if len(a) < 300 else a[:300] + "..." for a in argv[1:]],
               "stdin": core.hx(data[:400]), "stdin_hex": data[:20000].hex(), "stdin_len": len(data),
               "env": {k: v for k, v in env.items() if k in ("RELAYCLIENT", "QMAILQUEUE", "NQV_QQ_PLAN", "QMAILINJECT")}}
        if "stdout_bytes" in extra:
            wit["envelope_hex"] = extra["stdout_bytes"][:20000].hex()
            wit["envelope"] = core.hx(extra["stdout_bytes"][:300])
        if prog == "qmail-lspawn":
            # the children's descriptor 2 is the report pipe: a sanitizer report of a child arrives inside a report
            err = err + out
            if b"child crashed" in out:
                res.violate("C20/sanitizer/qmail-lspawn/child-crashed/?", "a qmail-lspawn child died by a signal (the stand-in qmail-local never does)",
                            dict(wit, reports=core.hx(out[:600])))
        ok = classify(res, prog, rc, err, wit)
        if ok and i % 997 == 0:
            res.sample({"whole_binary": prog, "stdin": core.hx(data[:100]), "rc": rc}, cap=2)
        if i % 100 == 99:
            h.clean()


VG_PROGS = ("qmail-smtpd", "qmail-qmtpd", "qmail-qmqpd", "qmail-inject", "qmail-queue", "qmail-local", "qmail-pop3d",
            "qmail-popup", "qreceipt", "qmail-lspawn")
VG_KINDS = (("Invalid read", "invalid-read"), ("Invalid write", "invalid-write"), ("Conditional jump or move depends on uninitialised", "uninit-branch"),
            ("Use of uninitialised value", "uninit-use"), ("contains uninitialised byte", "uninit-syscall-arg"),
            ("points to uninitialised byte", "uninit-syscall-buf"), ("Invalid free", "invalid-free"), ("Mismatched free", "mismatched-free"),
            ("Source and destination overlap", "overlap"), ("points to unaddressable byte", "unaddressable-syscall-buf"),
            ("Process terminating with default action of signal", "fatal-signal"))


def valgrind_worker(bdir, lo, hi):
    """memcheck on the plain binaries (uninitialised reads: MSan cannot be used with an uninstrumented libc)"""
    res = core.Result()
    b = build.Build("plain", bdir)
    h = SmokeHome(b, SMOKE_BINS)
    real_local = os.path.join(h.root, "qmail-local.real")
    shutil.copy(os.path.join(h.home, "bin", "qmail-local"), real_local)
    inp = os.path.join(h.root, "stdin")
    envf = os.path.join(h.root, "envelope")
    try:
        _vg_loop(res, h, real_local, inp, envf, lo, hi)
    finally:
        shutil.rmtree(h.root, ignore_errors=True)
    return res


def _vg_loop(res, h, real_local, inp, envf, lo, hi):
    for i in range(lo, hi):
        rng = core.case_rng(PROP, i, "memcheck")
        prog = VG_PROGS[i % len(VG_PROGS)]
        if prog == "qmail-local":
            shutil.copy(real_local, os.path.join(h.home, "bin", "qmail-local"))
        argv, env, data, extra = smoke_case(h, prog, rng, valgrind=True)
        data = data[:200000]
        with open(inp, "wb") as f:
            f.write(data)
        sp = None
        if "stdout_bytes" in extra:
            with open(envf, "wb") as f:
                f.write(extra["stdout_bytes"])
            sp = envf
        vg = ["valgrind", "-q", "--error-exitcode=97", "--track-origins=no", "--child-silent-after-fork=yes", "--trace-children=no",
              "--num-callers=12"]
        rc, out, err = run_prog(vg + argv, env, inp, 240, stdout_path=sp, uid=extra.get("uid"), cwd=extra.get("cwd"))
        res.evaluations += 1
        d = res.counters.setdefault("memcheck_runs", {})
        d[prog] = d.get(prog, 0) + 1
        if rc is None:
            res.inconclusive.append("watchdog: memcheck %s case %d" % (prog, i))
            continue
        res.nontrivial("vg", prog, hashlib.blake2b(data + extra.get("stdout_bytes", b""), digest_size=8).digest())
        e = err.decode("latin1", "replace")
        kind = None
        for pat, k in VG_KINDS:
            if pat in e:
                kind = k
                break
        if kind or rc == 97:
            site = "?"
            for m in re.finditer(r"(?:at|by) 0x[0-9A-F]+: (\S+) \((\S+?):\d+\)", e):
                fn, f = m.group(1), m.group(2)
                if f.endswith(".c") and not f.startswith("vg_") and not fn.startswith("_"):
                    site = "%s@%s" % (fn, f)
                    break
            res.violate("C20/memcheck/%s/%s/%s" % (prog, kind or "error", site), "valgrind memcheck error",
                        {"mode": "memcheck", "prog": prog, "case_index": i, "argv": argv[1:], "stdin": core.hx(data[:400]),
                         "stdin_hex": data[:20000].hex(), "stderr": e[:3500]})
        if i % 50 == 49:
            h.clean()


# ------------------------------------------------------------------------------------ orchestration

def run_job(kind, *a):
    if kind == "fuzz":
        return job_fuzz(*a)
    if kind == "extreme":
        return job_extremes(*a)
    if kind == "longhaul":
        return job_extremes(*a, longhaul=True)
    if kind == "dnsgroup":
        return job_extremes(*a[:-1], group=a[-1])
    if kind == "lenprobe":
        return job_lenprobe(*a)
    if kind == "smoke":
        return smoke_worker(*a)
    if kind == "memcheck":
        return valgrind_worker(*a)
    raise ValueError(kind)


def fuzz_home(b):
    """read-only home shared by the in-process targets: control files, a Maildir, the mft file"""
    root = build.mktemp("nqv-c20-fh-")
    home = os.path.join(root, "home")
    sandbox.make_home(b, home, controls=CONTROLS, bins=(), queue=False)
    with open(os.path.join(home, "control", "morercpthosts.cdb"), "wb") as f:
        f.write(c20gen.cdb_make([(b"more.test", b""), (b".more2.test", b"")]))
    with open(os.path.join(home, "mft"), "wb") as f:
        f.write(b"x@y.test\na@b\nlist@lists.test\n")
    make_maildir(os.path.join(home, "fzmaildir"))
    return root, home


def main(tier):
    t0 = time.time()
    quick = tier == "quick"
    builds, berrs = build_all()
    bf, ba, bp = builds["fuzz"], builds["asan"], builds.get("plain")
    bins, probs = compile_targets(bf)
    res = core.Result()
    for p in probs + berrs:
        res.inconclusive.append(p)
    froot, fhome = fuzz_home(bf)
    corpora = os.path.join(froot, "corpora")
    runs = core.scaled(200000 if quick else 10000000)
    shard_runs = 200000 if quick else 1250000
    nseeds = 150 if quick else 400
    jobs = []
    slow_first = ["inject822", "pop3d", "qmtpd", "remote-smtp", "control", "smtpd", "send-reports", "qmqpd", "cdb", "popup", "dns",
                  "rspawn-report", "lspawn-report"]
    for name in slow_first:
        if name not in bins:
            continue
        cdir = os.path.join(corpora, name)
        seed_corpus(name, cdir, nseeds)
        nshards = max(1, (runs + shard_runs - 1) // shard_runs)
        for k in range(nshards):
            jobs.append(("fuzz", bf.dir, bins[name], name, fhome, cdir, runs // nshards, core.seed() * 1000 + k, k))
    ntrunc = 5 if quick else 50
    for name in slow_first:
        if name in bins:
            jobs.append(("extreme", bf.dir, bins[name], name, fhome, ntrunc))
    if "dns" in bins:
        # the boundary-sized answers once more, one process per look-up kind, so that each kind reports its own site
        for g in ("a-", "mx-", "ptr-", "tc-"):
            jobs.append(("dnsgroup", bf.dir, bins["dns"], "dns", fhome, 0, g))
    if not quick:
        for name in ("qmtpd", "qmqpd"):
            if name in bins:
                jobs.insert(0, ("longhaul", bf.dir, bins[name], name, fhome))
    if "lenprobe" in bins:
        jobs.append(("lenprobe", bf.dir, bins["lenprobe"]))
    nsmoke = core.scaled(6500 if quick else 260000)
    per = 325 if quick else 2000
    smoke_jobs = [("smoke", ba.dir, lo, min(nsmoke, lo + per)) for lo in range(0, nsmoke, per)]
    nvg = core.scaled(30 if quick else 1500)
    vg_jobs = []
    if bp is not None and shutil.which("valgrind"):
        pervg = 10 if quick else 50
        vg_jobs = [("memcheck", bp.dir, lo, min(nvg, lo + pervg)) for lo in range(0, nvg, pervg)]
    else:
        res.inconclusive.append("memcheck part skipped: %s" % ("no valgrind" if bp is not None else "plain build failed"))
    # interleave: long fuzz jobs first, memcheck early (slow per case), smoke chunks fill the rest
    allj = jobs[:len(slow_first) if quick else len(jobs)] + vg_jobs + jobs[len(slow_first) if quick else len(jobs):] + smoke_jobs
    r = core.pmap(run_job, allj, timeout=7200 if quick else 6 * 3600)
    res.merge(r)
    missing = [n for n in TARGETS if n not in r.counters.get("fuzz_executions", {})]
    res.counters["fuzz_targets_run"] = len(TARGETS) - len(missing)
    if missing:
        res.inconclusive.append("targets without a single execution: %s" % ", ".join(missing))
    rule = ("(b) %d libFuzzer executions per target (%s) from %d structured seeds each (generated sessions / messages / answers / reports / "
            "files, 30%% pre-mutated; DNS answers sized 511/512/513/65535 with the last record cut at every byte); (c) deterministic "
            "extremes (1 MB lines, 10^5 tokens, 10^4-deep comments, declared lengths around 2^31 / 2^32 / 2^64, every truncation point of "
            "1 fixed + %d generated sessions per target, cdb files cut at every 8 bytes) once through the same targets, %s length-arithmetic probes with fabricated len/a/n; (a') %d whole-binary "
            "sessions on the ASan/UBSan build (mutated valid sessions; generated envelopes for qmail-queue; generated .qmail files for "
            "qmail-local -n; corrupted users/cdb for qmail-lspawn); (d) %d valgrind memcheck runs on the plain build. Non-trivial / "
            "distinct = libFuzzer corpus units (inputs kept for reaching new coverage) + distinct extreme inputs + distinct "
            "(program, input) smoke and memcheck cases + distinct probe triples." % (
                runs, ", ".join(n for n in TARGETS if n not in missing), nseeds, ntrunc, r.counters.get("lenprobe_cases", 0), nsmoke,
                nvg if vg_jobs else 0))
    hard = bool(missing) or "lenprobe" not in bins
    if hard:
        print("C20: incomplete run: %s" % "; ".join(res.inconclusive[:3])[:1500])
    return core.finish(PROP, tier, "exploration", res, rule, t0,
                       min_distinct=(1 << 62) if hard else 2,
                       assumptions=["trusted: clang ASan/UBSan runtimes, libFuzzer, valgrind; red-zone tools miss intra-object and far "
                                    "out-of-bounds accesses: 'clean' means no report on the executions counted here",
                                    "in-process targets replace only boundary functions (descriptor I/O, qmail-queue client, resolver, "
                                    "fork/wait, unlink/rename in the Maildir) and restart the program state per input",
                                    "stale bytes inside a program's own buffer are not poisoned (reading them is not 'outside its buffers')",
                                    "documented exit statuses: man pages where stated, otherwise the statuses the program passes to _exit"],
                       extra={"builds": sorted(builds.keys())})


# ------------------------------------------------------------------------------------ replay

def replay(path):
    import json
    with open(path) as f:
        w = json.load(f)
    case = (w.get("cases") or [{}])[0]
    wit = case.get("witness") or {}
    print("key: %s\nwhy: %s" % (w.get("key"), case.get("why")))
    mode = wit.get("mode")
    if mode in ("fuzz", "extreme", "longhaul") and wit.get("input_hex") and wit.get("input_len", 0) <= 65536:
        name = wit["target"]
        bf = build.vbuild("fuzz")
        bins, probs = compile_targets(bf)
        if name not in bins:
            print("INCONCLUSIVE property=C20: target does not build: %s" % probs[:1])
            return 2
        froot, fhome = fuzz_home(bf)
        p = os.path.join(froot, "replay-input")
        with open(p, "wb") as f:
            f.write(bytes.fromhex(wit["input_hex"]))
        env = fz_env(bf.dir, fhome, {"NQV_FZ_LONGHAUL": "1"} if mode == "longhaul" else None)
        rc, out, err = core.run_with_watchdog([bins[name], "-timeout=900", "-detect_leaks=0", "-artifact_prefix=%s/" % froot, p], 1200,
                                              env=env, cwd=froot)
        text = err.decode("latin1", "replace")
        print(text[-3000:])
        if rc is None:
            print("INCONCLUSIVE property=C20: replay timed out")
            return 2
        if rc != 0:
            vm = re.search(r"NQV-VIOLATION (\S+)", text)
            um = re.search(r"NQV-UNDOCUMENTED-EXIT \S+ (\S+)", text)
            k = "C20/" + vm.group(1) if vm else "C20/sanitizer/%s/exit-status/%s" % (name, um.group(1).replace("status=", "")) if um \
                else "C20/sanitizer/%s/%s" % (name, hrun.sanitizer_site(text))
            print("VIOLATION property=C20 replay=%s" % path)
            print("  key=%s (reproduced)" % k)
            return 1
        print("OK property=C20: the recorded input no longer fails on this tree")
        return 0
    print(json.dumps(wit, indent=1)[:4000])
    print("re-running the tier with VERIF_SEED=%s (case_index in the witness identifies the case)" % w.get("seed"))
    os.environ["VERIF_SEED"] = str(w.get("seed", 1))
    return main(w.get("tier", "quick"))
