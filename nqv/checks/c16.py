"""C16 - new mail wakes the daemon: no lost trigger, no busy loop, never sleeps past a due event
(DESIGN.md section 3, C16)."""
import time

from .. import core, build, histrun, c16sweep

PROP = "C16"
ND = 8      # relevant daemon steps of one scan of a one-entry todo directory: close, open, opendir, readdir x 4 (+1 slack)


def main(tier):
    t0 = time.time()
    b = build.vbuild("asan")
    quick = tier == "quick"
    res = core.Result()
    # (1) exhaustive merges of one injector's four steps with the daemon's scan steps, daemon woken for another message
    plans = [{"injB": a} for a in c16sweep.enumerate_plans(4, ND)]
    parts = [(b.dir, b.variant, "midscan", plans[lo:hi], "m") for lo, hi in core.chunks(len(plans), 64)]
    r1 = core.pmap(c16sweep.worker, parts, timeout=1800)
    res.merge(r1)
    # (2) daemon idle in select when the injector starts
    plans2 = [{"injB": a} for a in c16sweep.enumerate_plans(4, ND) if a[0] == 0 and a[1] == 0 and a[2] == 0]
    plans2 += [{"injB": (0, 0, k, k)} for k in range(1, ND + 1)]
    res.merge(core.pmap(c16sweep.worker, [(b.dir, b.variant, "idle", plans2[lo:hi], "i") for lo, hi in core.chunks(len(plans2), 16)], timeout=1800))
    # (3) two injectors against the scanning daemon: seeded sample of the product space
    n2 = core.scaled(700 if quick else 6000)
    allp = c16sweep.enumerate_plans(4, ND)
    plans3 = []
    for i in range(n2):
        rng = core.case_rng(PROP, i, "two")
        plans3.append({"injB": rng.choice(allp), "injC": rng.choice(allp)})
    res.merge(core.pmap(c16sweep.worker, [(b.dir, b.variant, "midscan", plans3[lo:hi], "t") for lo, hi in core.chunks(len(plans3), 32)], timeout=1800))
    # (4) every quiescent point of delivery/retry histories: requested timeout versus earliest due time, spin detection
    prof = {"lifetimes": [604800, 604800, 3000, 500], "p_alrm": 0.06, "p_term_restart": 0.05, "max_msgs": 4}
    rh = histrun.run(PROP, b, core.scaled(800 if quick else 6000), prof, ["RetryOracle", "WakeupOracle"], salt="h")
    # a channel put on hold (concurrency 0) with messages due on it: the daemon must block, not spin (seed c16-s8), and the
    # other channel's due times still bound its sleep
    prof0 = dict(prof, conc=[0, 0, 1, 5], max_idle_advances=6, p_term_restart=0.02)
    # (only the wake-up/spin oracle: a pass stuck on the held channel keeps its job slot, and with few job slots the other
    # channel legitimately waits - the sleep bound of the retry oracle presumes a free job)
    rh0 = histrun.run(PROP, b, core.scaled(240 if quick else 2000), prof0, ["WakeupOracle"], salt="hold")
    rh0.counters.inc("histories_with_a_channel_on_hold", rh0.evaluations)
    rh.merge(rh0)
    # "due now (its retry time has come, or an ALRM made it due), slots free, and the daemon asks to sleep" is the retry oracle's
    # C15/not-retried-promptly; it is just as much sleeping past the earliest due event (seed c16-s6)
    for v in rh.violations:
        if v["key"].startswith("C15/not-retried-promptly/"):
            v["key"] = "C16/sleeps-although-due-now/" + v["key"].split("/", 2)[2]
    rh.violations = [v for v in rh.violations if v["key"].startswith("C16/")]
    res.merge(rh)
    rule = ("(1) all %d merges (non-decreasing 4-tuples over 0..%d) of one qmail-queue's {link todo, open/write/close trigger} with "
            "qmail-send's {close/reopen trigger, opendir, readdir...} while the daemon scans for another message, realised exactly "
            "through libc-call gates; (2) the same against a daemon idle in select; (3) a seeded sample of two-injector merges; "
            "(4) every quiescent point of seeded delivery/retry histories, incl. histories with a channel on hold (concurrency 0). Oracle: with all injections complete and the clock not "
            "moved, a daemon that asks to sleep (timeout > 0) must have left no todo entry; no 200 consecutive zero-timeout selects "
            "without other activity; requested sleep <= earliest due retry (exact, from pass-open events) + fuzz and <= 1501 s. "
            "Non-trivial = an interleaving in which injector steps were merged with daemon steps; distinct by granted sequence." % (
                len(plans), ND))
    extra = {"exhaustive": True, "exhaustive_scope": "merges of 4 injector steps with up to %d daemon scan steps, one injector, two start states" % ND,
             "merges_possible_one_injector": len(plans)}
    return core.finish(PROP, tier, "exploration", res, rule, t0, extra=extra, assumptions=[
        "interleavings at libc-call granularity (opendir/readdir, not getdents)", "virtual clock; the controller never releases a select early without logging it"])


def replay(path):
    with open(path) as f:
        print(f.read()[:4000])
    return main("quick")
