"""C13 - .qmail delivery instructions interpreted as documented, loops cut (DESIGN.md section 3, C13).

The real qmail-local (asan) runs as an unprivileged account in generated home directories, once
with -n (description of the instructions) and once for real.  Program lines run a probe script
that appends (tag, environment, md5 of stdin, what has been delivered so far) to a log and exits
with a chosen code; forwards go to qq-rec through $QMAILQUEUE; mbox / maildir lines deliver into
the home.  Oracle: nqv/refmodel/dotqmail_model.py (dot-qmail(5), qmail-command(8), qmail-local(8)).
"""
import hashlib
import json
import os
import pwd
import re
import shutil
import time

from .. import core, build, hrun
from ..refmodel import dotqmail_model as dm
from . import c11 as _c11

PROP = "C13"
ACCOUNT = "games"
TAGRE = re.compile(rb"(?<![A-Za-z0-9_])(?:f\d+l\d+|dflt)(?![A-Za-z0-9_])")
PROBE = r'''#!/bin/sh
# usage: probe.sh LOG REC TAG EXITCODE
L="$1"; R="$2"; T="$3"; X="$4"
LC_ALL=C; export LC_ALL
{
printf 'T=%s\0' "$T"
for v in SENDER NEWSENDER RECIPIENT USER HOME HOST HOST2 HOST3 HOST4 LOCAL EXT EXT2 EXT3 EXT4 DTLINE RPLINE UFLINE; do
  eval "printf '%s=%s\0' $v \"\$$v\""
done
if [ "${DEFAULT+set}" = set ]; then printf 'DEFAULT=%s\0' "$DEFAULT"; else printf 'DEFAULT_UNSET=1\0'; fi
printf 'STDIN=%s\0' "$(md5sum | cut -c1-32)"
printf 'PWD=%s\0' "$(pwd)"
printf 'STATE='
for f in mb.*; do [ -f "$f" ] && printf '%s=%s,' "$f" "$(grep -c '^From ' "$f")"; done
for d in md.*; do [ -d "$d/new" ] && printf '%s=%s,' "$d" "$(ls "$d/new" | wc -l)"; done
printf 'q=%s\0' "$(ls "$R" | grep -c 'msg$')"
printf '\001'
} >> "$L"
# 1000+N: die by signal N (the shell execs this script, so it is the instruction's own process that is killed)
if [ "$X" -gt 1000 ]; then kill -$((X-1000)) $$; sleep 5; fi
exit "$X"
'''
EXIT_CODES = [0] * 14 + [99, 99, 99, 100, 111, 64, 65, 70, 76, 77, 78, 112, 1, 2, 255, 98, 101, 110, 113, 126, 127, 1009, 1011, 1015]
NAMES = [b".qmail", b".qmail-a", b".qmail-a-default", b".qmail-a-b", b".qmail-default", b".qmail-a:b",
         b".qmail-a-b-default", b".qmail-x-", b".qmail-a-b-c", b".qmail-a-owner", b".qmail-a-owner-default",
         b".qmail-a-b-owner", b".qmail-owner", b".qmail-x-default", b".qmail-a-b-c-default", b".qmail-a:b-default",
         b".qmail-default-owner", b".qmail-a-b-", b".qmail-a-", b".qmail-a-b-owner-default"]
EXTS = [b"a", b"A", b"a-b", b"a.b", b"A.B", b"a-B-c", b"a-b-", b"zz", b"", b"x-", b"a-b-c-d", b"../etc", b"a/b",
        b"default", b"a-default", b"a-owner", b"a-b-c", b"a\nb", b"a b", b"a--b", b"-", b"a-", b"A-Default", b"a.b-c",
        b"x-Y.z", b"a-b-owner", b"a:b", b"A-B-C-D-E", b"a-b-cc"]
FILE_MODES = [0o600] * 7 + [0o644] * 7 + [0o640, 0o602, 0o700, 0o700, 0o622, 0o744, 0o620, 0o666, 0o755]
HOME_MODES = [0o755] * 12 + [0o700] * 4 + [0o750, 0o711, 0o757, 0o775, 0o1755, 0o1700, 0o707, 0o751]
SENDERS = [b"s@x.test", b"s@x.test", b"Some.One+tag@Mixed.example", b"", b"#@[]", b"a b@x.test", b"new\nline@x.test",
           b"q\"uote@x.test", b"tab\tx@y.test", b"x\nReceived: forged@x.test", b"back\\slash@x.test", b"no-at-sign",
           b"\n", b"trail@x.test\n"]
HOSTS = [b"dom.test", b"a.b.c.d.example", b"nodots", b"h\nost.test", b"Mixed.Case.Test", b"x.y"]


class Sandbox:
    def __init__(self, b, tools):
        self.b = b
        self.base = build.mktemp("nqv-c13-")
        os.chmod(self.base, 0o755)
        pw = pwd.getpwnam(ACCOUNT)
        self.uid, self.gid = pw.pw_uid, pw.pw_gid
        os.mkdir(self.base + "/bin")
        shutil.copy(b.path("qmail-local"), self.base + "/bin/qmail-local")
        shutil.copy(os.path.join(tools, "qq-rec"), self.base + "/bin/qq-rec")
        with open(self.base + "/bin/probe.sh", "w") as f:
            f.write(PROBE)
        for n in ("qmail-local", "qq-rec", "probe.sh"):
            os.chmod(self.base + "/bin/" + n, 0o755)
        os.mkdir(self.base + "/q")               # auto_qmail: qmail.c changes into it before running $QMAILQUEUE
        os.chmod(self.base + "/q", 0o755)
        self.rec = self.base + "/rec"
        os.mkdir(self.rec)
        os.chown(self.rec, self.uid, self.gid)
        self.plog = self.base + "/plog"
        self.msg = self.base + "/msg"

    def env(self, qq_plan):
        e = self.b.env(self.base + "/q")
        e.update({"QMAILQUEUE": self.base + "/bin/qq-rec", "NQV_REC": self.rec, "NQV_QQ_PLAN": qq_plan,
                  "LC_ALL": "C"})
        return e

    def drop(self):
        os.setgroups([])
        os.setgid(self.gid)
        os.setuid(self.uid)

    def run(self, args, dash_n, qq_plan="exit=0"):
        argv = [self.base + "/bin/qmail-local"] + (["-n"] if dash_n else []) + ["--"] + args
        for attempt in (0, 1):
            with open(self.msg, "rb") as fin:
                rc, out, err = core.run_with_watchdog(argv, 60, env=self.env(qq_plan), stdin=fin, preexec_fn=self.drop,
                                                      cwd="/")
            if rc is not None:
                break
        return rc, out, err


# ------------------------------------------------------------------ generation

def gen_body(rng, sb, fidx, home):
    """-> (.qmail text, {program command -> exit code}, set of failing file targets)"""
    n = rng.choice([0, 1, 1, 2, 2, 3, 3, 4, 4, 5, 6, 7])
    big = rng.random() < 0.04
    if big:
        n = rng.choice([40, 120])        # a control file far larger than any of qmail-local's buffers
    lines, exits = [], {}
    for k in range(n):
        r = rng.random()
        blanks = rng.choice([b"", b"", b"", b" ", b"\t", b"  \t "])
        tag = "f%dl%d" % (fidx, k)
        if r < 0.08:
            lines.append(rng.choice([b"# comment", b"#", b"#|not a program", b"# &nobody@x.test"]) +
                         (b" x" * rng.choice([100, 511, 512, 2000]) if (big or rng.random() < 0.05) else b"") + blanks)
        elif r < 0.14:
            lines.append(rng.choice([b"", b" ", b"\t \t"]))
        elif r < 0.45:
            code = rng.choice(EXIT_CODES) if rng.random() < 0.8 else rng.randrange(256)
            cmd = ("%s/bin/probe.sh %s %s %s %d" % (sb.base, sb.plog, sb.rec, tag, code)).encode()
            cmd = rng.choice([b"", b"", b"exec ", b" "]) + cmd
            exits[cmd] = code
            lines.append(b"|" + cmd + blanks)
        elif r < 0.60:
            t = rng.choice([b"./mb.%d" % fidx, b"./mb.%d" % fidx, b"./mb.s", home.encode() + b"/mb.%d" % fidx, b"./nodir/mb.x"])
            lines.append(t + blanks)
        elif r < 0.72:
            t = rng.choice([b"./md.%d/" % fidx, b"./md.s/", home.encode() + b"/md.%d/" % fidx, b"./nomd/"])
            lines.append(t + blanks)
        elif r < 0.92:
            a = rng.choice([b"&%s@fwd.test" % tag.encode(), b"%s@bare.test" % tag.encode(),
                            b"&Mixed.%s@Case.Test" % tag.encode(), b"&%s-owner-x=y@v.test" % tag.encode()])
            lines.append(a + blanks)
        elif r < 0.97:
            lines.append(b"+list" + blanks)
        else:
            lines.append(rng.choice([b"+other", b"+", b"+list x", b"+LIST"]))
    text = b"\n".join(lines) + (b"\n" if lines else b"")
    if lines and rng.random() < 0.12:
        text = text[:-1]                          # last line without newline
    return text, exits


def gen_case(rng, sb, i):
    home = "%s/h%d" % (sb.base, i)
    files, exits = {}, {}
    picks = rng.sample(NAMES, rng.randint(0, 8))
    if rng.random() < 0.5 and b".qmail" not in picks:
        picks.append(b".qmail")
    if rng.random() < 0.3 and b".qmail-default" not in picks:
        picks.append(b".qmail-default")
    prefix = {}
    for fidx, name in enumerate(picks):
        if rng.random() < 0.07:
            files[name] = ("d", 0o755, b"")
            if rng.random() < 0.5:                # something inside, reachable only through a slash in ext
                body, ex = gen_body(rng, sb, 90 + fidx, home)
                files[name + b"/b"] = ("f", 0o600, body)
                prefix[name + b"/b"] = b"f%dl" % (90 + fidx)
                exits.update(ex)
            continue
        body, ex = gen_body(rng, sb, fidx, home)
        if rng.random() < 0.12:
            body = b""
        exits.update(ex)
        files[name] = ("f", rng.choice(FILE_MODES), body)
        prefix[name] = b"f%dl" % fidx
    hmode = rng.choice(HOME_MODES)
    dash = rng.choice([b"", b"-", b"-", b"-"])
    ext = b"" if dash == b"" else rng.choice(EXTS)
    if dash and rng.random() < 0.7:
        # an extension built from a file that exists, with case / dot noise
        cand = [n[7:] for n in files if n.startswith(b".qmail-") and b"/" not in n]
        if cand:
            ext = rng.choice(cand)
            if ext.endswith(b"default") and rng.random() < 0.7:
                ext = ext[:-7] + rng.choice([b"zz", b"Q-r", b"", b"x.y"])
            ext = ext.replace(b":", b".")
            if rng.random() < 0.4:
                ext = _c11.flipcase(rng, ext)
    # -owner / -owner-default companions of the addressed extension (envelope sender of forwards)
    if rng.random() < 0.25:
        base = b".qmail" + dash + dm.safe_ext(ext)
        if b"/" not in base and b"\n" not in base:
            files.setdefault(base + b"-owner", ("f", 0o644, b""))
            if rng.random() < 0.35:
                files.setdefault(base + b"-owner-default", ("f", 0o644, b""))
    user = rng.choice([b"joe", b"alias", b"Joe"])
    local = user + dash + ext if rng.random() < 0.8 else rng.choice([ext, b"li\nne" + dash + ext, b"virt-" + ext])
    host = rng.choice(HOSTS) if rng.random() < 0.5 else b"dom.test"
    sender = rng.choice(SENDERS)
    r = rng.random()
    tagd = "dflt"
    if r < 0.5:
        dflt = b"./mb.dflt"
    elif r < 0.75:
        dflt = b"./md.dflt/"
    else:
        code = rng.choice([0, 0, 99, 100, 111, 1])
        cmd = ("%s/bin/probe.sh %s %s %s %d" % (sb.base, sb.plog, sb.rec, tagd, code)).encode()
        exits[cmd] = code
        dflt = b"|" + cmd
    # message
    dt = b"Delivered-To: " + dm.one_line(local + b"@" + host)
    hdr = [b"Received: (qmail 1 invoked by uid 0); 1 Jan 2026 00:00:00 -0000", b"Subject: case %d" % i]
    r = rng.random()
    body = b"line one\nline two\n"
    loopkind = "none"
    if r < 0.07:
        hdr.insert(rng.randint(0, 2), dt)
        loopkind = "identical"
    elif r < 0.30:
        near = rng.choice([dt + b"x", dt[:-1], b"X-" + dt, dt + b" ", b"Delivered-To:  " + dt[14:],
                           b"Delivered-To: x" + dt[14:], b"Delivered-To: other@else.test", dt.replace(b"@", b"@@", 1)])
        hdr.insert(rng.randint(0, 2), near)
        loopkind = "near-miss"
    elif r < 0.38:
        body = b"quoted:\n" + dt + b"\nend\n"
        loopkind = "in-body"
    elif r < 0.42:
        hdr = []                                   # empty header, the line is body text
        body = dt + b"\n" + body
        loopkind = "after-empty-header"
    msg = b"".join(h + b"\n" for h in hdr) + b"\n" + body
    if loopkind == "after-empty-header":
        msg = b"\n" + body
    qq = rng.choice(["exit=0"] * 6 + ["exit=31", "exit=53"])
    return {"home": home, "files": files, "hmode": hmode, "user": user, "local": local, "dash": dash, "ext": ext,
            "host": host, "sender": sender, "dflt": dflt, "msg": msg, "exits": exits, "qq": qq, "loopkind": loopkind,
            "prefix": prefix}


def materialize(sb, c):
    home = c["home"]
    if os.path.exists(home):
        shutil.rmtree(home)
    os.mkdir(home)
    hb = home.encode()
    mds = set()
    for name, (kind, mode, body) in sorted(c["files"].items()):
        p = os.path.join(hb, name)
        if kind == "d":
            os.mkdir(p)
        else:
            with open(p, "wb") as f:
                f.write(body)
        os.chmod(p, mode)
        os.chown(p, sb.uid, sb.gid)
    # maildirs that any instruction may name (except the deliberately missing ./nomd/)
    texts = [b for (_, _, b) in c["files"].values()] + [c["dflt"]]
    for t in texts:
        for line in t.split(b"\n"):
            l = line.rstrip(b" \t")
            if l[:1] in (b".", b"/") and l.endswith(b"/") and b"nomd" not in l:
                mds.add(os.path.basename(l[:-1]))
    for m in mds:
        for sub in (b"", b"/tmp", b"/new", b"/cur"):
            p = os.path.join(hb, m) + sub
            if not os.path.isdir(p):
                os.mkdir(p)
            os.chown(p, sb.uid, sb.gid)
            os.chmod(p, 0o700)
    os.chown(home, sb.uid, sb.gid)
    os.chmod(home, c["hmode"])
    for f in os.listdir(sb.rec):
        os.unlink(os.path.join(sb.rec, f))
    with open(sb.plog, "wb"):
        pass
    os.chmod(sb.plog, 0o666)
    with open(sb.msg, "wb") as f:
        f.write(c["msg"])
    os.chmod(sb.msg, 0o644)
    return sorted(mds)


def target_name(home, arg):
    """mbox / maildir instruction -> name relative to the home ('mb.3', 'md.s'), None if outside"""
    a = arg[:-1] if arg.endswith(b"/") else arg
    if a.startswith(b"./"):
        a = a[2:]
    elif a.startswith(home.encode() + b"/"):
        a = a[len(home) + 1:]
    return a


def observe(sb, c, mds):
    """effects of a real run"""
    hb = c["home"].encode()
    eff = {"programs": [], "mbox": {}, "maildir": {}, "queue": []}
    with open(sb.plog, "rb") as f:
        for rec in f.read().split(b"\x01"):
            if not rec:
                continue
            d = {}
            for kv in rec.split(b"\0"):
                if kv:
                    k, _, v = kv.partition(b"=")
                    d[k] = v
            eff["programs"].append(d)
    for n in os.listdir(hb):
        p = os.path.join(hb, n)
        if n.startswith(b"mb.") and os.path.isfile(p):
            with open(p, "rb") as f:
                eff["mbox"][n] = f.read()
    for m in mds:
        d = os.path.join(hb, m, b"new")
        out = []
        for n in sorted(os.listdir(d)):
            with open(os.path.join(d, n), "rb") as f:
                out.append(f.read())
        eff["maildir"][m] = out
        eff.setdefault("maildir_tmp", 0)
        eff["maildir_tmp"] += len(os.listdir(os.path.join(hb, m, b"tmp")))
    for n in sorted(os.listdir(sb.rec)):
        if n.endswith(".msg"):
            with open(os.path.join(sb.rec, n), "rb") as f:
                m = f.read()
            with open(os.path.join(sb.rec, n[:-4] + ".env"), "rb") as f:
                e = f.read()
            eff["queue"].append((m, e))
    return eff


def nothing_happened(eff):
    return not eff["programs"] and not eff["mbox"] and not any(eff["maildir"].values()) and not eff["queue"]


def exit_class(code):
    if code == 0:
        return "0"
    if code == 99:
        return "99"
    if code in dm.HARD_CODES:
        return "hard"
    return "soft"


def split_mbox(data):
    """-> list of deliveries (each starts with its From_ line)"""
    out, cur = [], None
    for line in data.split(b"\n")[:-1] if data.endswith(b"\n") else data.split(b"\n"):
        if line.startswith(b"From "):
            if cur is not None:
                out.append(cur)
            cur = b""
        if cur is None:
            cur = b""
        cur += line + b"\n"
    if cur is not None:
        out.append(cur)
    return out


# ------------------------------------------------------------------ one case

def run_case(res, sb, i):
    rng = core.case_rng(PROP, i)
    c = gen_case(rng, sb, i)
    mds = materialize(sb, c)
    home = dm.Home(c["hmode"], c["files"])

    def program_exit(cmd):
        return c["exits"][cmd]

    def file_ok(kind, arg):
        return b"nodir" not in arg and b"nomd" not in arg

    qres = {"exit=0": 0, "exit=31": 100, "exit=53": 111}[c["qq"]]
    p = dm.plan(home, c["user"], c["local"], c["dash"], c["ext"], c["host"], c["sender"], c["dflt"], c["msg"],
                program_exit, file_ok, qres)
    args = [c["user"], c["home"].encode(), c["local"], c["dash"], c["ext"], c["host"], c["sender"], c["dflt"]]
    wit = {"case": i, "home_mode": oct(c["hmode"]),
           "files": {core.hx(k): [v[0], oct(v[1]), core.hx(v[2])[:600]] for k, v in c["files"].items()},
           "args": [core.hx(a) for a in args], "message": core.hx(c["msg"])[:600], "qq_plan": c["qq"],
           "model_control": core.hx(p.control) if p.control else None, "model_pre": sorted(p.pre), "model_why": p.why,
           "model_exit": p.exit}
    exp_prefix = c["prefix"].get(p.control, b"dflt") if (p.control is not None and c["files"][p.control][2]) else b"dflt"
    ckind = "none" if p.control is None else ("exact" if p.control == dm.candidates(c["dash"], c["ext"])[0][0] else "default")
    res.counters.setdefault("control_file_kind", {})
    res.counters["control_file_kind"][ckind] = res.counters["control_file_kind"].get(ckind, 0) + 1

    # ---------------- qmail-local -n
    rc, out, err = sb.run(args, True)
    res.evaluations += 1
    if rc is None:
        res.inconclusive.append("qmail-local -n watchdog, case %d" % i)
        return
    if _c11.is_sanitizer(err) or rc < 0:
        res.violate("C20/sanitizer/qmail-local/" + hrun.sanitizer_site(err.decode("latin1")), "qmail-local -n died rc=%s" % rc,
                    dict(wit, stderr=err[-2000:].decode("latin1")))
        return
    got = []
    for line in out.split(b"\n")[:-1]:
        k, _, v = line.partition(b" ")
        got.append((k.decode("latin1"), v))
    wn = dict(wit, dash_n_stdout=core.hx(out)[:800], dash_n_rc=rc, dash_n_stderr=core.hx(err)[:200])
    if p.either_writable and rc == 111 and not got:
        res.counters.inc("group_writable_deferred")
    elif p.pre_n:
        cond = "+".join(w for w in p.why if w not in ("home-sticky", "looping"))
        if got:
            res.violate("C13/dash-n/instructions-despite/" + cond, "instructions listed although %s" % cond, wn)
        elif rc not in p.pre_n:
            res.violate("C13/dash-n/exit/" + cond, "exit %d, documented %s" % (rc, sorted(p.pre_n)), wn)
        else:
            res.counters.inc("dash_n_refused")
    else:
        if got != p.dash_n:
            foreign = [t for k, v in got for t in TAGRE.findall(v) if not t.startswith(exp_prefix)]
            if foreign:
                key = "C13/dash-n/control-file/" + ckind
            elif "forward-only-violated" in p.notes or (len(got) > len(p.dash_n) and rc == 0 and p.dash_n_exit == 111):
                key = "C13/dash-n/forward-only-or-blank-first-line"
            elif rc != p.dash_n_exit:
                key = "C13/dash-n/exit/instructions"
            else:
                key = "C13/dash-n/instruction-list"
            res.violate(key, "-n describes %r, model %r (exit %d, model %d)" % (got[:8], p.dash_n[:8], rc, p.dash_n_exit), wn)
        elif rc != p.dash_n_exit:
            res.violate("C13/dash-n/exit/instructions", "exit %d, model %d" % (rc, p.dash_n_exit), wn)
        else:
            res.counters.inc("dash_n_ok")
    # -n must not deliver anything
    eff = observe(sb, c, mds)
    if not nothing_happened(eff):
        res.violate("C13/dash-n/delivered", "qmail-local -n carried out an instruction", wn)
        return

    # ---------------- real delivery
    rc, out, err = sb.run(args, False, c["qq"])
    res.evaluations += 1
    if rc is None:
        res.inconclusive.append("qmail-local watchdog, case %d" % i)
        return
    if _c11.is_sanitizer(err) or rc < 0:
        res.violate("C20/sanitizer/qmail-local/" + hrun.sanitizer_site(err.decode("latin1")), "qmail-local died rc=%s" % rc,
                    dict(wit, stderr=err[-2000:].decode("latin1")))
        return
    eff = observe(sb, c, mds)
    res.counters.setdefault("exit_codes", {})
    res.counters["exit_codes"][str(rc)] = res.counters["exit_codes"].get(str(rc), 0) + 1
    w = dict(wit, rc=rc, stdout=core.hx(out)[:300], stderr=core.hx(err)[:300],
             programs_run=[core.hx(d.get(b"T", b"?")) for d in eff["programs"]],
             mbox={core.hx(k): core.hx(v)[:500] for k, v in eff["mbox"].items()},
             maildir={core.hx(k): [core.hx(x)[:400] for x in v] for k, v in eff["maildir"].items() if v},
             queue=[(core.hx(m)[:400], core.hx(e)[:300]) for m, e in eff["queue"]])
    if p.either_writable and rc == 111 and nothing_happened(eff):
        res.counters.inc("group_writable_deferred")
        return
    if p.pre:
        cond = "+".join(p.why)
        for wname in p.why:
            res.counters.inc("refusal_" + wname)
        if not nothing_happened(eff):
            res.violate("C13/delivered-despite/" + cond, "an instruction was carried out although %s" % cond, w)
        elif rc not in p.pre:
            res.violate("C13/exit/" + cond, "exit %d, documented %s" % (rc, sorted(p.pre)), w)
        else:
            res.nontrivial("refuse", cond, i)
        return
    # programs, in order, with their environment
    want_prog = [s for s in p.steps if s.kind == "program"]
    got_tags = [d.get(b"T", b"?") for d in eff["programs"]]
    want_tags = [s.arg.split()[-2] for s in want_prog]
    # state the model expects each program to see
    counts = {}
    state_at = []
    for s in p.steps:
        if s.kind == "program":
            st = b"".join(b"%s=%d," % (k, v) for k, v in sorted(counts.items()) if k.startswith(b"mb.") and v)
            st += b"".join(b"%s=%d," % (m, counts.get(m, 0)) for m in mds)
            state_at.append(st + b"q=0")
        elif s.outcome == "ok":
            t = target_name(c["home"], s.arg)
            counts[t] = counts.get(t, 0) + 1
    bad = None
    if got_tags != want_tags:
        last = want_prog[len(got_tags) - 1] if 0 < len(got_tags) <= len(want_prog) else None
        if any(not t.startswith(exp_prefix) for t in got_tags):
            bad = ("C13/control-file/" + ckind, "programs of another control file ran: %r, model %r" % (got_tags, want_tags))
        elif len(got_tags) > len(want_tags) and got_tags[:len(want_tags)] == want_tags:
            if want_prog and p.steps[-1].kind == "program" and p.steps[-1].outcome != "ok":
                cls = "program-exit-" + exit_class(c["exits"][want_prog[-1].arg])
            elif "forward-only-violated" in p.notes:
                cls = "forward-only-violated"
            elif "first-line-blank" in p.notes:
                cls = "first-line-blank"
            elif p.steps and p.steps[-1].outcome == "soft":
                cls = "failed-" + p.steps[-1].kind
            else:
                cls = "end"
            bad = ("C13/continued-after/" + cls, "programs %r ran, model stops after %r" % (got_tags, want_tags))
        elif len(got_tags) < len(want_tags) and got_tags == want_tags[:len(got_tags)]:
            cls = exit_class(c["exits"][last.arg]) if last else "start"
            bad = ("C13/stopped-after/program-exit-" + cls, "programs %r ran, model %r" % (got_tags, want_tags))
        else:
            bad = ("C13/order/programs", "programs %r ran, model %r" % (got_tags, want_tags))
    if bad is None:
        exp_env = dm.env_expect(c["user"], c["home"].encode(), c["local"], c["dash"], c["ext"], c["host"], c["sender"], p)
        md5 = hashlib.md5(c["msg"]).hexdigest().encode()
        for d, st in zip(eff["programs"], state_at):
            for k, v in exp_env.items():
                if k == b"DEFAULT":
                    if v is None:
                        if b"DEFAULT_UNSET" not in d:
                            bad = ("C13/env/DEFAULT-should-be-unset", "DEFAULT=%r" % d.get(b"DEFAULT"))
                    elif d.get(b"DEFAULT") != v:
                        bad = ("C13/env/DEFAULT", "DEFAULT=%r, model %r" % (d.get(b"DEFAULT"), v))
                elif d.get(k) != v:
                    bad = ("C13/env/" + k.decode(), "%s=%r, model %r" % (k.decode(), d.get(k), v))
            if d.get(b"STDIN") != md5:
                bad = ("C13/program-stdin", "the program did not get exactly the message on stdin")
            if d.get(b"PWD") != c["home"].encode():
                bad = ("C13/program-cwd", "program ran in %r" % d.get(b"PWD"))
            if d.get(b"STATE") != st:
                if d.get(b"STATE", b"").split(b"q=")[-1] != b"0":
                    bad = ("C13/forward-before-other-instructions", "a program saw %r forwarded copies" % d.get(b"STATE"))
                else:
                    bad = ("C13/order/deliveries", "program saw deliveries %r, model %r" % (d.get(b"STATE"), st))
            uf = d.get(b"UFLINE", b"")
            if not uf.startswith(p.ufline_prefix) or uf.count(b"\n") != 1:
                bad = ("C13/header/UFLINE", "UFLINE %r" % uf)
            if d.get(b"RPLINE", b"").count(b"\n") != 1 or d.get(b"DTLINE", b"").count(b"\n") != 1:
                bad = ("C13/header/injected-line", "RPLINE/DTLINE with an embedded newline: %r %r" % (d.get(b"RPLINE"), d.get(b"DTLINE")))
    # mbox and maildir contents
    if bad is None:
        for t in sorted(set(list(counts) + list(eff["mbox"]) + list(eff["maildir"]))):
            n = counts.get(t, 0)
            if t.startswith(b"md.") or t in eff["maildir"]:
                got_list = eff["maildir"].get(t, [])
                if len(got_list) != n:
                    bad = ("C13/maildir/count", "%d messages in %r/new, model %d" % (len(got_list), t, n))
                    break
                for content in got_list:
                    if not content.endswith(c["msg"]):
                        bad = ("C13/maildir/content", "delivered file does not end with the message")
                        break
                    head = content[:len(content) - len(c["msg"])]
                    hl = head.split(b"\n")
                    if len(hl) != 3 or hl[2] != b"" or hl[1] + b"\n" != p.dtline or not hl[0].startswith(b"Return-Path: <") \
                            or not hl[0].endswith(b">") or (p.rpline_exact is not None and hl[0] + b"\n" != p.rpline_exact):
                        bad = ("C13/header/maildir-lines", "lines before the message: %r" % head[:300])
                        break
            else:
                dl = split_mbox(eff["mbox"].get(t, b""))
                if len(dl) != n:
                    bad = ("C13/mbox/count", "%d messages in %r, model %d" % (len(dl), t, n))
                    break
                for content in dl:
                    tail = c["msg"] + b"\n"
                    if not content.endswith(tail):
                        bad = ("C13/mbox/content", "delivery does not end with the message and a blank line")
                        break
                    head = content[:len(content) - len(tail)]
                    hl = head.split(b"\n")
                    if len(hl) != 4 or hl[3] != b"" or hl[2] + b"\n" != p.dtline or not hl[1].startswith(b"Return-Path: <") \
                            or not hl[1].endswith(b">") or not hl[0].startswith(p.ufline_prefix) \
                            or (p.rpline_exact is not None and hl[1] + b"\n" != p.rpline_exact):
                        bad = ("C13/header/mbox-lines", "lines before the message: %r" % head[:300])
                        break
            if bad:
                break
        if bad is None and eff.get("maildir_tmp"):
            bad = ("C13/maildir/tmp-left", "files left in tmp/")
    # forwards
    if bad is None:
        if p.forwards:
            if len(eff["queue"]) != 1:
                bad = ("C13/forward/count", "%d queue submissions, model 1 with %d recipients" % (len(eff["queue"]), len(p.forwards)))
            else:
                m, e = eff["queue"][0]
                want_env = b"F" + p.newsender + b"\0" + b"".join(b"T" + r + b"\0" for r in p.forwards) + b"\0"
                if e != want_env:
                    ws = b"F" + p.newsender + b"\0"
                    if not e.startswith(ws):
                        bad = ("C13/forward/envelope-sender", "envelope %r, model %r" % (e[:200], want_env[:200]))
                    else:
                        stop = [s for s in p.steps if s.outcome == "stop99"]
                        bad = ("C13/forward/recipients" + ("-after-99" if stop else ""), "envelope %r, model %r" % (e[:300], want_env[:300]))
                elif m != p.dtline + c["msg"]:
                    bad = ("C13/forward/message", "forwarded copy is not Delivered-To + message: %r" % m[:300])
        elif eff["queue"]:
            failed = [s for s in p.steps if s.outcome in ("hard", "soft")]
            if failed or p.exit != 0:
                bad = ("C13/forward-despite-failure", "forwarded although an instruction failed (exit model %d)" % p.exit)
            else:
                bad = ("C13/forward/unexpected", "queue submission without a forward line in effect: %r" % (eff["queue"][0][1][:200],))
    if bad is None and rc != p.exit:
        fin = p.steps[-1] if p.steps else None
        if fin is not None and fin.kind == "program" and fin.outcome != "ok":
            bad = ("C13/exit/program-exit-%d" % c["exits"][fin.arg] if c["exits"][fin.arg] in (0, 99, 100, 111) + dm.HARD_CODES
                   else "C13/exit/program-exit-other", "exit %d, model %d after program exit %d" % (rc, p.exit, c["exits"][fin.arg]))
        elif p.forwards and qres:
            bad = ("C13/exit/queue-refusal", "exit %d, model %d" % (rc, p.exit))
        else:
            bad = ("C13/exit/instructions", "exit %d, model %d" % (rc, p.exit))
    if bad:
        res.violate(bad[0], bad[1], w)
        return
    res.counters.inc("real_ok")
    for nname in p.notes:
        res.counters.inc("seen_" + nname)
    for s in p.steps:
        k = "step_%s_%s" % (s.kind, s.outcome)
        res.counters.inc(k)
        if s.kind == "program":
            pc = res.counters.setdefault("program_exit_codes_seen", {})
            pc[str(c["exits"][s.arg])] = pc.get(str(c["exits"][s.arg]), 0) + 1
    if p.forwards:
        res.counters.inc("forwarded")
        if p.newsender != c["sender"]:
            res.counters.inc("forwarded_with_owner_sender")
    if c["loopkind"] != "none":
        res.counters.inc("loop_" + c["loopkind"] + "_delivered")
    if b"\n" in c["sender"] + c["local"] + c["host"] and (counts or p.forwards):
        res.counters.inc("newline_in_envelope_delivered_clean")
    if len(p.steps) + len(p.forwards) >= 2 or ckind == "default" or p.default_env is not None:
        res.nontrivial(i, ckind, tuple((s.kind, s.outcome) for s in p.steps), len(p.forwards))
    if i % 97 == 0:
        res.sample({"ext": core.hx(c["ext"]), "files": sorted(core.hx(k) for k in c["files"]), "control": core.hx(p.control or b""),
                    "DEFAULT": core.hx(p.default_env) if p.default_env is not None else None,
                    "steps": [(s.kind, s.outcome) for s in p.steps], "forwards": [core.hx(f) for f in p.forwards], "exit": rc},
                   cap=6)


def worker(bdir, tools, lo, hi):
    res = core.Result()
    b = build.Build("asan", bdir)
    sb = Sandbox(b, tools)
    try:
        for i in range(lo, hi):
            try:
                run_case(res, sb, i)
            except core.Inconclusive as e:
                res.inconclusive.append("case %d: %s" % (i, e))
            shutil.rmtree("%s/h%d" % (sb.base, i), ignore_errors=True)
    finally:
        shutil.rmtree(sb.base, ignore_errors=True)      # (pool workers do not run atexit handlers)
    return res


RULE = ("%d generated cases, each run through the real qmail-local twice (-n and for real) as the unprivileged account "
        "'games': a home (mode from {0755,0700,0750,0757,0775,01755,01700,0707,0751}) holding 0-7 of 20 .qmail-* names "
        "(regular files with modes from {0600,0644,0640,0602,0700,0622,0744,0620,0666,0755}, empty files, directories, a file "
        "inside a directory), an extension from the file names with case/dot noise or from a near-miss list (slashes, ../, "
        "newline, trailing and double dashes), bodies of 0-7 lines from the grammar (comment, blank, first-line blank, program "
        "with a chosen exit code incl. all documented ones, mbox, maildir, failing mbox/maildir, forwards with and without &, "
        "+list, other + lines, trailing blanks, missing final newline), 14 senders (empty, #@[], spaces, quotes, embedded "
        "newlines), hosts with 0-4 dots or a newline, messages with an identical / near-miss / in-body Delivered-To line, "
        "qmail-queue accepting or refusing.  Non-trivial = at least two effective instructions, or a -default file chosen; "
        "distinct = (case, chosen-file kind, step outcomes).")


def main(tier):
    t0 = time.time()
    if os.geteuid() != 0:
        raise core.Inconclusive("C13 needs root to create homes for an unprivileged account")
    b = build.vbuild("asan")
    tools = _c11.snapshot_tools(("nqshim.so", "qq-rec"))
    n = core.scaled(6000 if tier == "quick" else 150000)
    res = core.pmap(worker, [(b.dir, tools, lo, hi) for lo, hi in core.chunks(n, core.JOBS * 2)], timeout=7200)
    return core.finish(PROP, tier, "exploration", res, RULE % n, t0, assumptions=[
        "reference model nqv/refmodel/dotqmail_model.py written from dot-qmail(5), qmail-command(8), qmail-local(8); facts the "
        "manuals do not state (+list, -n output wording 'mbox|maildir|program|forward <text>' and 'did f+w+p', -n with a sticky "
        "home only warns, non-regular .qmail files count as absent) are taken from DESIGN.md Appendix B",
        "checks that forbid any delivery (home writable/sticky, .qmail writable, looping, no mailbox) are not ordered by the "
        "manuals: when several apply any of their exit codes is accepted, but no instruction may have been carried out",
        "group-writable (not other-writable) homes and files: both deferral and delivery accepted (conf-patrn of the build)",
        "Return-Path is compared byte for byte only for senders that need no quoting; for hostile senders the oracle demands "
        "exactly one Return-Path line, '<'...'>', directly followed by the exact Delivered-To line and the unmodified message",
        "HOSTn/EXTn are judged only when HOST/EXT has enough dots/dashes"])


def replay(path):
    with open(path) as f:
        w = json.load(f)
    cases = sorted({c["witness"].get("case") for c in w.get("cases", []) if isinstance(c.get("witness"), dict) and
                    isinstance(c["witness"].get("case"), int)})
    print("replaying case(s) %s with VERIF_SEED=%s" % (cases, w.get("seed")))
    if not cases:
        return main(w.get("tier", "quick"))
    b = build.vbuild("asan")
    res = core.Result()
    sb = Sandbox(b, _c11.snapshot_tools(("nqshim.so", "qq-rec")))
    for i in cases:
        run_case(res, sb, i)
    for v in res.violations:
        print("VIOLATION key=%s why=%s" % (v["key"], v["why"]))
        print(json.dumps(v["witness"], indent=1, default=core._json_default)[:4000])
    return 1 if res.violations else 0
