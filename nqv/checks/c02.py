"""C02 - every queue entry is always in a documented state (DESIGN.md section 3, C02).
Real qmail-queue x 1..3 + qmail-send + qmail-clean, every filesystem-mutating libc call of every
process gated and released one at a time by a seeded scheduler; the queue pattern of the affected
message is checked after EVERY step and the whole tree at every quiescent point."""
import os
import time

from .. import core, build, histrun, qsim, sandbox, shim

PROP = "C02"
ORACLES = ["QueueStateOracle"]


def second_instance(bdir):
    """a second qmail-send on a queue that already has one must refuse (exit 111) without touching it"""
    res = core.Result()
    b = build.Build("asan", bdir)
    sim = qsim.Sim(b, gate_m=False, trace="m")
    try:
        st, num = sim.inject(b"Subject: x\n\nbody\n", b"Fs@local.test\0Tr@local.test\0\0")
        sim.start_daemons()
        sim.run_until_quiescent()
        before = sim.scan()
        log2 = sim.home + "/log2"
        e = b.env(sim.home, shim.env(clock=sim.clock, log=log2, trace="m", role="second"))
        P = [os.pipe() for _ in range(4)]
        os.write(P[1][1], b"\x05")
        os.write(P[3][1], b"\x05")
        pid = os.fork()
        if pid == 0:
            try:
                dn = os.open("/dev/null", os.O_RDWR)
                for i, fd in enumerate([dn, P[0][1], P[1][0], P[2][1], P[3][0], dn, dn]):
                    os.dup2(fd, 600 + i)
                for i in range(7):
                    os.dup2(600 + i, i)
                os.closerange(7, 1024)
                os.execve(sim.home + "/bin/qmail-send", ["qmail-send"], e)
            finally:
                os._exit(127)
        t_end = time.time() + 20
        st2 = None
        while time.time() < t_end:
            p, s = os.waitpid(pid, os.WNOHANG)
            if p:
                st2 = s
                break
            time.sleep(0.01)
        if st2 is None:
            os.kill(pid, 9)
            os.waitpid(pid, 0)
            res.violate("C02/second-instance-keeps-running", "a second qmail-send did not exit while the first holds lock/sendmutex", {})
        else:
            res.counters.inc("second_instance_runs")
            code = os.WEXITSTATUS(st2) if os.WIFEXITED(st2) else -1
            if code != 111:
                res.violate("C02/second-instance-exit-status", "second qmail-send ended with %r, expected exit 111" % st2, {})
            evs = shim.read_log(log2)
            bad = [x for x in evs if x["c"] in ("unlink", "link", "rename", "write", "ftruncate", "utime") or (x["c"] == "open" and x.get("creat"))]
            bad = [x for x in bad if "lock/" not in (x.get("path") or "")]
            if bad:
                res.violate("C02/second-instance-touches-queue", "second instance performed %s %s" % (bad[0]["c"], bad[0].get("path")), {})
            if sim.scan() != before:
                res.violate("C02/second-instance-touches-queue", "queue tree changed while a second instance ran", {})
        res.evaluations += 1
        res.nontrivial("second-instance")
        for fds in P:
            for fd in fds:
                try:
                    os.close(fd)
                except OSError:
                    pass
    finally:
        sim.teardown()
    return res


def main(tier):
    t0 = time.time()
    b = build.vbuild("asan")
    quick = tier == "quick"
    res = core.Result()
    conc = {"conc_injectors": True, "max_inj": 4}
    res.merge(histrun.run(PROP, b, core.scaled(600 if quick else 6000), conc, ORACLES, salt="c"))
    res.merge(histrun.run(PROP, b, core.scaled(360 if quick else 4000), dict(conc, p_kill=0.012), ORACLES, salt="k"))
    res.merge(histrun.run(PROP, b, core.scaled(180 if quick else 2000), dict(conc, p_kill=0.012, variant="lose-all-unsynced"), ORACLES, salt="kl"))
    res.merge(histrun.run(PROP, b, core.scaled(200 if quick else 2000), dict(conc, gc=True, max_inj=2), ORACLES, salt="gc"))
    # a backlog queued while the daemon was down for 40 hours: preprocessing races the garbage collector
    res.merge(histrun.run(PROP, b, core.scaled(24 if quick else 200), dict(conc, gc=True, max_inj=1, backlog=45, conc_list=[10], max_quiescent=4000),
                          ORACLES, salt="bl"))
    # sequential histories (deliveries, bounces, restarts) under the same per-step oracle
    res.merge(histrun.run(PROP, b, core.scaled(400 if quick else 4000), {"p_crash": 0.05}, ORACLES, salt="h"))
    # crash sweep of a fixed two-message scenario: SIGKILL before every mutating call of qmail-send / qmail-clean
    prof = {"max_msgs": 2, "p_term_restart": 0.0}
    for idx in histrun.pick_scenarios(PROP, b, "sw", prof, 2 if quick else 5):
        calls, h = histrun.reference_calls(PROP, b, idx, "sw", prof)
        res.merge(histrun.run_sweep(PROP, b, idx, "sw", prof, ORACLES, histrun.crash_plans(calls, every=1)))
    res.merge(core.pmap(second_instance, [(b.dir,)] * (2 if quick else 8)))
    rule = ("histories with 1-4 concurrent qmail-queue runs + qmail-send + qmail-clean: every mutating libc call of every process is "
            "gated and released one at a time by a seeded priority scheduler (distinct_interleavings = distinct sequences of granted "
            "(role, call, directory)); SIGKILL of any process before a gated call, restart, disk variants; GC scenarios with planted "
            "S2/S3/pid leftovers aged 1 h .. 72 h next to live injectors suspended in S2/S3 (virtual 24 h alarm) while the clock is "
            "stepped over 36 h; sequential delivery/bounce histories; crash sweep of a fixed scenario; a second qmail-send on a "
            "locked queue. Oracle after every step: pattern of the affected message over {mess,intd,todo,info,local,remote,bounce} in "
            "S1-S5, mess name = inode, right split directory, a number is only given to a new message when no file of it exists, the "
            "cleaner removes mess/intd outside elimination only when older than 36 h with no info/todo. Non-trivial = history with a "
            "command or a fired injection; distinct by boundary-event sequence.")
    return core.finish(PROP, tier, "exploration", res, rule, t0, assumptions=[
        "interleavings at libc-call granularity (LD_PRELOAD gates), explored by seeds, not exhausted",
        "the cleaner's removals are attributed to elimination when qmail-send has just unlinked info/N, otherwise to garbage collection"])


def replay(path):
    with open(path) as f:
        print(f.read()[:4000])
    return main("quick")
