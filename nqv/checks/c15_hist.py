"""C15, daemon-history part: the real qmail-send on the qsim engine with a virtual clock stepped to
just before / at / after the requested wake-up, across TERM + restart and ALRM, for queuelifetime
values from 0 upwards.  Plugged into nqv/checks/c15.py as a further monitor."""
from .. import core, histrun


def mon_histories(tier, b):
    quick = tier == "quick"
    prof = {"lifetimes": [604800, 604800, 3000, 500, 100, 1, 0], "p_alrm": 0.08, "p_term_restart": 0.08, "max_msgs": 4,
            "conc": [1, 2, 5, 10], "spawn": [1, 3, 120]}
    res = histrun.run("C15", b, core.scaled(1000 if quick else 10000), prof, ["RetryOracle"], salt="h")
    res.violations = [v for v in res.violations if v["key"].startswith("C15/")]
    res.counters["retry_histories"] = res.evaluations
    return res
