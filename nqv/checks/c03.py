"""C03 - no accepted recipient is ever dropped (DESIGN.md section 3, C03).
Real qmail-send + qmail-clean + qmail-queue on the qsim engine: seeded random histories, random
crashes with both disk variants, a crash sweep before every mutating call of qmail-send and
qmail-clean of fixed scenarios, and a single-fault sweep over the same call sites."""
import time

from .. import core, build, histrun

PROP = "C03"
ORACLES = ["NoLossOracle"]


def main(tier):
    t0 = time.time()
    b = build.vbuild("asan")
    quick = tier == "quick"
    res = core.Result()
    n = core.scaled(800 if quick else 8000)
    res.merge(histrun.run(PROP, b, n, {}, ORACLES, salt="h"))
    # the daemon's own injections (bounces) fail now and then: exit 53/51/31, crash, custom text, early stop
    res.merge(histrun.run(PROP, b, core.scaled(400 if quick else 4000), {"qq_fail": 0.35}, ORACLES, salt="qf"))
    # a spawner dies (EOF on its report pipe) with deliveries outstanding: nothing of them may be marked
    res.merge(histrun.run(PROP, b, core.scaled(300 if quick else 3000), {"p_spawner_eof": 0.06, "hold_reports": 0.5}, ORACLES, salt="se"))
    # a noisy spawner: frames that name no outstanding delivery (unused or out-of-range slots, oversized, empty) between the
    # honest reports - nothing of them may stick and change what a later honest report means (seed c03-s5; C18 owns the
    # hostile-input side, here the same histories are judged for lost recipients)
    res.merge(histrun.run(PROP, b, core.scaled(300 if quick else 3000), {"raw_garbage": 0.15, "hold_reports": 0.5}, ORACLES, salt="rg"))
    # many recipients per message (channel files, envelopes and spawner commands larger than the daemon's 128-, 512- and
    # 1024-byte buffers), reports answered in bursts
    big = {"min_rcpts": 60, "max_rcpts": 140, "max_msgs": 2, "report_burst": 30, "max_quiescent": 2500, "conc": [5, 20, 120],
           "spawn": [120], "hold_reports": 0.3, "dup_rcpt": 0.0, "p_long_addr": 0.3}
    res.merge(histrun.run(PROP, b, core.scaled(6 if quick else 80), big, ORACLES, salt="big"))
    res.merge(histrun.run(PROP, b, core.scaled(4 if quick else 40), dict(big, p_crash=0.1, variant="lose-all-unsynced"), ORACLES, salt="bigc"))
    # random crashes at quiescent points, both disk variants
    nc = core.scaled(300 if quick else 3000)
    res.merge(histrun.run(PROP, b, nc, {"p_crash": 0.12, "variant": "keep-all"}, ORACLES, salt="ck"))
    res.merge(histrun.run(PROP, b, nc, {"p_crash": 0.12, "variant": "lose-all-unsynced"}, ORACLES, salt="cl"))
    # crash / fault sweeps at call granularity over fixed scenarios
    prof = {"max_msgs": 3, "p_term_restart": 0.0, "p_alrm": 0.02}
    scen = histrun.pick_scenarios(PROP, b, "sw", prof, 2 if quick else 5)
    if not scen:
        raise core.Inconclusive("no sweep scenario with deliveries found")
    res.counters["sweep_scenarios"] = {str(i): 1 for i in scen}
    for si, idx in enumerate(scen):
        calls, h = histrun.reference_calls(PROP, b, idx, "sw", prof)
        res.counters.inc("sweep_reference_calls", len(calls))
        for variant in (["keep-all", "lose-all-unsynced"] if (not quick or si == 0) else ["keep-all"]):
            p2 = dict(prof, variant=variant)
            plans = histrun.crash_plans(calls, every=1)
            res.merge(histrun.run_sweep(PROP, b, idx, "sw", p2, ORACLES, plans))
        if not quick or si == 0:
            plans = histrun.fault_plans(calls, every=1)
            res.merge(histrun.run_sweep(PROP, b, idx, "sw", prof, ORACLES, plans))
    # failing stat() and read() of queue files inside qmail-send (logged classes t and r of the shim)
    prof2 = dict(prof, count="mtr", trace_extra="tr")
    for idx in scen[:1 if quick else 3]:
        calls, h = histrun.reference_calls_log(PROP, b, idx, "sw", prof2)
        res.counters.inc("sweep_reference_stat_read_calls", len(calls))
        plans = histrun.fault_plans(calls, every=1)
        res.merge(histrun.run_sweep(PROP, b, idx, "sw", prof2, ORACLES, plans))
    # directed: deferred two-channel message, clean stop, restart with one failing stat()/read()/open() of a queue or
    # control file during the start-up scan or later (DESIGN.md 7: added after seed c04-s2)
    prof3 = {"directed": "restart-fault", "count": "tro", "trace_extra": "tr", "incarnation": 2, "conc": [5], "spawn": [120], "lifetimes": [604800]}
    calls, h = histrun.reference_calls_log(PROP, b, 0, "rf", prof3, classes=("stat", "lstat", "read", "openr"))
    res.counters.inc("restart_fault_reference_calls", len(calls))
    res.merge(histrun.run_sweep(PROP, b, 0, "rf", prof3, ORACLES, histrun.fault_plans(calls, every=1)))
    rule = ("seeded random histories (1-3 messages, 0-4 recipients incl. duplicates, senders ordinary/empty/#@[]/VERP, outcomes "
            "K/Z/D/garbage per attempt, ALRM/HUP/TERM+restart, clock steps, concurrency and spawner limits) on real qmail-send + "
            "qmail-clean + qmail-queue; random crashes with disk variants keep-all and lose-all-unsynced; SIGKILL before every "
            "mutating libc call of qmail-send/qmail-clean and one injected fault per call site for fixed scenarios. Oracle online "
            "at every gated call: D mark only after K/D (Z only in a dying pass), channel file unlinked only all-D, info unlinked "
            "only when every recipient is K or named in a queued notice (or sender #@[]); at the end queue drained and ledger "
            "complete (bounded progress). Non-trivial = history that issued at least one delivery command, or a sweep point "
            "whose injection fired; distinct by boundary-event sequence / (scenario, plan, variant).")
    return core.finish(PROP, tier, "fault_enumeration", res, rule, t0, assumptions=[
        "the controller plays qmail-lspawn/qmail-rspawn at the pipe boundary; virtual clock via LD_PRELOAD time()",
        "crash = SIGKILL before a libc call; disk model: un-fsynced file data (incl. single-byte marks and bounce/N) may be lost, directory operations synchronous",
        "'eventually' is decided as bounded progress: every history must drain within its quiescent-point budget"])


def replay(path):
    with open(path) as f:
        print(f.read()[:4000])
    return main("quick")
