"""C19 - the POP3 server shows the maildir faithfully and deletes only on request
(DESIGN.md section 3, C19).

Monitor: the real qmail-pop3d (ASan/UBSan build) run under a non-root uid on generated maildirs
and the real qmail-popup with the recording checker bin/pw-rec; every reply and the maildir after
the session are compared with nqv/refmodel/pop3_model.py (RFC 1939 as qualified by
qmail-pop3d(8)/qmail-popup(8)).

Case kinds (a case is identified by (kind, index) and reproducible from the seed):
  directed  seed-independent sessions: every verb x every special message-number argument
  session   random maildir + random command sequence (<= 15 commands), 1 in 8 with a file
            removed behind the server's back between two commands, 1 in 7 without QUIT
  popup     qmail-popup in lock-step: pre-authentication commands, then USER/PASS or APOP into
            pw-rec (refusing / crashing / chaining into the real qmail-pop3d)
  root      qmail-pop3d started with uid 0
"""
import json
import os
import pwd
import select
import shutil
import signal
import subprocess
import time

from .. import core, build, hrun
from .. import shim as _shim
from ..refmodel import pop3_model as pm

PROP = "C19"
RUN_USER = "games"          # any unprivileged account of the image
U64 = 1 << 64
MULTI = (b"RETR", b"TOP")


# ------------------------------------------------------------------------------------ sandbox

class Box:
    """per-worker scratch area: world-searchable, holds copies of the two programs"""

    def __init__(self, bdir):
        self.b = build.Build("asan", bdir)
        self.dir = build.mktemp("nqv-c19-")
        os.chmod(self.dir, 0o755)
        os.mkdir(self.dir + "/bin")
        for p in ("qmail-pop3d", "qmail-popup"):
            shutil.copy(self.b.path(p), self.dir + "/bin/" + p)
            os.chmod(self.dir + "/bin/" + p, 0o755)
        pw = pwd.getpwnam(RUN_USER)
        self.uid, self.gid = pw.pw_uid, pw.pw_gid
        self.md = self.dir + "/md"
        self.rec = self.dir + "/rec"
        self.pop3d = self.dir + "/bin/qmail-pop3d"
        self.popup = self.dir + "/bin/qmail-popup"

    def drop(self):
        uid, gid = self.uid, self.gid

        def f():
            os.setgroups([])
            os.setgid(gid)
            os.setuid(uid)
        return f

    def env(self, extra=None):
        return self.b.env(None, extra)

    def fresh_rec(self):
        shutil.rmtree(self.rec, ignore_errors=True)
        os.mkdir(self.rec)
        os.chmod(self.rec, 0o777)


# ------------------------------------------------------------------------------------ generators

LONGS = (1021, 1022, 1023, 1024, 1025, 2047, 2048, 2049, 5000)


def gen_line(rng, body):
    k = rng.randrange(20)
    if k == 0:
        return b"."
    if k == 1:
        return b".."
    if k == 2:
        return b".dot-leading line"
    if k == 3:
        return b"..two dots"
    if k == 4:
        return b". "
    if k == 5:
        return bytes(rng.randrange(128, 256) for _ in range(rng.randint(1, 30)))
    if k == 6:
        return b"nul\0inside"
    if k == 7:
        return b"bare\rcr inside"
    if k == 8:
        return b"cr at end\r"
    if k == 9:
        n = rng.choice(LONGS)
        return (b"." if rng.random() < 0.4 else b"L") + b"x" * (n - 1)
    if k == 10 and body:
        return b""
    if k == 11:
        return b"x" * rng.randint(1, 80)
    if k == 12:
        return b".\r"
    if body:
        return b"body line %d" % rng.randrange(1000)
    return b"X-Field-%d: value %d" % (rng.randrange(100), rng.randrange(1000))


def gen_message(rng):
    k = rng.randrange(16)
    if k == 0:
        return b""
    if k == 1:
        return rng.choice([b"\n", b"\n\n", b".", b".\n", b"\n.\n", b"\n.", b"..", b".\n.\n", b"\n\n.\n\n"])
    lines = []
    for _ in range(rng.randint(0, 4)):
        l = gen_line(rng, False)
        lines.append(l if l else b"H: v")
    if rng.random() < 0.85:
        lines.append(b"")
        for _ in range(rng.randint(0, 9)):
            lines.append(gen_line(rng, True))
    data = b"\n".join(lines)
    if lines and rng.random() < 0.75:
        data += b"\n"
    return data


def msg_class(data):
    """stable input class for violation keys"""
    if data == b"":
        return "empty"
    lines = pm.split_lines(data)
    if any(l[:1] == b"." for l in lines):
        return "dot-line"
    if not data.endswith(b"\n"):
        return "no-final-newline"
    if any(len(l) > 1000 for l in lines):
        return "long-line"
    if any(c >= 128 or c == 0 or c == 13 for c in data):
        return "8bit-or-control"
    return "plain"


def gen_maildir(rng, box, nmax=6, fixed=None):
    """create box.md owned by RUN_USER; returns the list of pop3_model.Message"""
    md = box.md
    shutil.rmtree(md, ignore_errors=True)
    for d in ("", "/new", "/cur", "/tmp"):
        os.mkdir(md + d)
    msgs = []
    n = rng.randint(0, nmax) if fixed is None else len(fixed)
    base = 1500000000 + rng.randrange(1000000)
    ties = rng.random() < 0.2
    for i in range(n):
        sub = rng.choice([b"new", b"cur"])
        uniq = b"%d.%d_%d.host%d" % (base + i, rng.randrange(100000), i, rng.randrange(10))
        name = uniq
        if sub == b"cur":
            name += rng.choice([b":2,", b":2,S", b":2,RS", b":1,x", b""])
        elif rng.random() < 0.08:
            name += rng.choice([b":2,S", b":1", b":2,", b":x"])      # moved back to new/ by a reader ("mark unread"), or restored by a sync tool
        data = gen_message(rng) if fixed is None else fixed[i]
        mt = base + (0 if ties else rng.randrange(100000) * 7 + i)
        p = os.path.join(md.encode(), sub, name)
        with open(p, "wb") as f:
            f.write(data)
        os.utime(p, (mt, mt))
        msgs.append(pm.Message(sub, name, data, mt))
    # a delivery in progress: must survive every session
    with open(md + "/tmp/fresh.in-progress", "wb") as f:
        f.write(b"partial")
    for r, ds, fs in os.walk(md):
        os.chown(r, box.uid, box.gid)
        for f in fs:
            os.chown(os.path.join(r, f), box.uid, box.gid)
    return msgs


def number_args(rng, n):
    """(token, class) for a message-number position; n = number of messages"""
    k = rng.randrange(100)
    if k < 50 and n:
        return b"%d" % rng.randint(1, n)
    if k < 55:
        return b"0"
    if k < 60:
        return b"%d" % (n + 1)
    if k < 63:
        return b"%d" % (n + rng.randint(2, 50))
    if k < 70:
        return b"%d" % rng.choice([2 ** 31 - 1, 2 ** 31, 2 ** 31 + 1, 2 ** 32, 2 ** 32 + 1, 999999999, 1000000000,
                                   9999999999, 2 ** 63, 2 ** 63 + 1, 2 ** 64 - 1, 10 ** 19])
    if k < 78:
        # numbers that alias a valid one when kept in too narrow a type (16, 32 or 64 bits)
        return b"%d" % (rng.choice([1, 1, 2, 3, 5]) * rng.choice([U64, U64, U64, 1 << 32, 1 << 32, 1 << 31, 1 << 16, 1 << 63]) + rng.randint(0, max(1, n)))
    if k < 82:
        return b"%d" % (rng.randrange(10 ** 19, 10 ** rng.randint(20, 40)))
    if k < 90:
        v = rng.choice([0, 1, max(1, n), n + 1])
        return b"0" * rng.choice([1, 2, 9, 10, 19, 20, 25]) + b"%d" % v
    return rng.choice([b"", b"x", b"-1", b"+1", b"one", b"#1", b".", b"\xff1", b"a1", b"*", b"-0", b"\t1"])


def top_count(rng):
    k = rng.randrange(100)
    if k < 78:
        return [b"%d" % rng.choice([0, 0, 1, 1, 2, 3, 4, 5, 8, 100, 1000, 2 ** 31 - 1])]
    if k < 85:
        # counts that only fit an unsigned long: every one of them means "more lines than any message has"
        return [b"%d" % rng.choice([2 ** 31, 2 ** 32 - 1, 2 ** 32, 2 ** 32 + 1, 2 ** 32 + 2, 2 ** 33 + 3, 2 ** 63 - 1, 2 ** 63, 2 ** 64 - 2, 2 ** 64 - 1])]
    if k < 90:
        return [b"0" * rng.randint(1, 5) + b"%d" % rng.choice([0, 1, 2])]
    if k < 96:
        return []
    return [rng.choice([b"x", b"-1", b"all"])]


VERBS = ([b"RETR"] * 3 + [b"TOP"] * 3 + [b"DELE"] * 4 + [b"LIST"] * 2 + [b"UIDL"] * 2 + [b"STAT"] * 2 +
         [b"RSET"] * 2 + [b"NOOP", b"LAST", b"XYZZY", b"USER", b"PASS", b"APOP"])


def gen_commands(rng, n, maxlen=14):
    """list of (verb-as-sent, [args])"""
    cmds = []
    for _ in range(rng.randint(1, maxlen - 1)):
        v = rng.choice(VERBS)
        a = []
        if v in (b"RETR", b"DELE"):
            a = [number_args(rng, n)]
        elif v == b"TOP":
            a = [number_args(rng, n)]
            if a[0] != b"":
                a += top_count(rng)
        elif v in (b"LIST", b"UIDL"):
            if rng.random() < 0.5:
                a = [number_args(rng, n)]
        elif v in (b"USER", b"PASS"):
            a = [b"someone"]
        elif v == b"APOP":
            a = [b"someone", b"c4c9334bac560ecc979e58001b3e22fb"]
        r = rng.random()
        if r < 0.15:
            v = v.lower()
        elif r < 0.2:
            v = bytes(c | 0x20 if i % 2 else c for i, c in enumerate(v))
        cmds.append((v, [x for x in a if x != b""]))
    return cmds


def render(cmds):
    return [b" ".join([v] + a) + b"\r\n" for v, a in cmds]


# ------------------------------------------------------------------------------------ process driver

class Timeout(Exception):
    pass


class Proc:
    """a monitored program with pipes on 0/1, stderr to a file, own process group, wall-clock watchdog"""

    def __init__(self, argv, env, preexec=None, errfile=None):
        self.errfile = errfile
        self.ef = open(errfile, "wb")
        self.p = subprocess.Popen(argv, stdin=subprocess.PIPE, stdout=subprocess.PIPE, stderr=self.ef,
                                  env=env, start_new_session=True, preexec_fn=preexec, bufsize=0)
        self.out = b""
        self.eof = False

    def send(self, data):
        try:
            self.p.stdin.write(data)
        except (BrokenPipeError, OSError):
            pass

    def close_stdin(self):
        try:
            self.p.stdin.close()
        except OSError:
            pass

    def more(self, timeout):
        """read some more output; False at EOF"""
        if self.eof:
            return False
        r, _, _ = select.select([self.p.stdout], [], [], timeout)
        if not r:
            raise Timeout()
        d = os.read(self.p.stdout.fileno(), 65536)
        if not d:
            self.eof = True
            return False
        self.out += d
        return True

    def line(self, pos, timeout):
        """the CR LF terminated line starting at pos (without CR LF), or None at EOF"""
        while True:
            j = self.out.find(b"\r\n", pos)
            if j >= 0:
                return self.out[pos:j]
            if not self.more(timeout):
                return None

    def finish(self, timeout):
        """close stdin, read to EOF, reap; returns (rc, stderr) ; rc None after a watchdog kill"""
        self.close_stdin()
        deadline = time.time() + timeout
        try:
            while self.more(max(0.1, deadline - time.time())):
                if time.time() > deadline:
                    raise Timeout()
            rc = self.p.wait(timeout=max(0.1, deadline - time.time()))
        except (Timeout, subprocess.TimeoutExpired):
            self.kill()
            rc = None
        self.ef.close()
        self.p.stdout.close()
        with open(self.errfile, "rb") as f:
            err = f.read()
        return rc, err

    def kill(self):
        try:
            os.killpg(self.p.pid, signal.SIGKILL)
        except (ProcessLookupError, PermissionError):
            pass
        try:
            self.p.wait(timeout=10)
        except Exception:
            pass


# ------------------------------------------------------------------------------------ reply parsing

class Incomplete(Exception):
    pass


def take_line(buf, pos):
    j = buf.find(b"\r\n", pos)
    if j < 0:
        raise Incomplete()
    return buf[pos:j], j + 2


def take_multiline(buf, pos):
    """RFC 1939 section 3: lines up to the one that is exactly '.'; returns (lines, newpos)"""
    lines = []
    while True:
        l, pos = take_line(buf, pos)
        if l == b".":
            return lines, pos
        lines.append(l)


def is_multiline(verb, args):
    return verb in MULTI or (verb in (b"LIST", b"UIDL") and not args)


def replies_complete(buf, cmds):
    """True when buf holds the greeting and a complete reply to each of cmds (shape only)"""
    try:
        st, pos = take_line(buf, 0)
        for v, a in cmds:
            st, pos = take_line(buf, pos)
            if st.startswith(b"+OK") and is_multiline(v.upper(), a):
                _, pos = take_multiline(buf, pos)
        return True
    except Incomplete:
        return False


# ------------------------------------------------------------------------------------ the oracle

class Judge:
    """compares one transcript with the model; records at most one violation per session"""

    def __init__(self, res, witness):
        self.res = res
        self.wit = witness
        self.bad = False
        self.end = None

    def violate(self, key, why, **more):
        if self.bad:
            return
        self.bad = True
        w = dict(self.wit)
        w.update(more)
        self.res.violate(key, why, w)

    def transcript(self, sess, cmds, out, pos, vanish=None):
        """out[pos:] = replies to cmds (the greeting was consumed by the caller).  cmds[0] must be
        an argument-less UIDL: it fixes the numbering.  vanish = (p, k): the file of message
        number k+1 was removed by the environment before cmds[p] was sent."""
        res = self.res
        for ci, (vraw, args) in enumerate(cmds):
            verb = vraw.upper()
            cmdtxt = core.hx(b" ".join([vraw] + args))
            if vanish is not None and ci == vanish[0] and sess.order is not None and vanish[1] < sess.n():
                sess.vanish(vanish[1])
            try:
                if ci == 0:
                    st, pos = take_line(out, pos)
                    if not st.startswith(b"+OK"):
                        return self.violate("C19/valid-command-refused/UIDL", "first UIDL refused", reply=core.hx(st))
                    lines, pos = take_multiline(out, pos)
                    uids = []
                    for k, l in enumerate(lines):
                        t = l.split(b" ")
                        if len(t) != 2 or t[0] != b"%d" % (k + 1):
                            return self.violate("C19/listing/UIDL", "first UIDL listing is not numbered 1..n",
                                                reply=[core.hx(x) for x in lines[:10]])
                        uids.append(t[1])
                    pr = sess.fix_numbering(uids)
                    if pr:
                        return self.violate("C19/numbering/" + pr[0], "the first UIDL listing is not a one-to-one "
                                            "enumeration of the stored messages", listed=[core.hx(u) for u in uids],
                                            stored=[core.hx(u) for u in sess.expected_uids()])
                    mt = [sess.by_uid[u].mtime for u in uids]
                    res.counters.inc("listing_in_mtime_order" if mt == sorted(mt) else "listing_not_in_mtime_order")
                    continue
                ex = sess.command(verb, args)
                if ex.kind == "quit":
                    rest = out[pos:]
                    lines = rest.split(b"\r\n")
                    if lines[-1] != b"":
                        return self.violate("C19/reply-shape/QUIT", "reply to QUIT is not a sequence of lines", reply=core.hx(rest[:200]))
                    lines.pop()
                    pos = len(out)
                    if ex.lenient:
                        if not lines or any(not (l.startswith(b"+OK") or l.startswith(b"-ERR")) for l in lines):
                            return self.violate("C19/reply-shape/QUIT", "reply to QUIT", reply=core.hx(rest[:200]))
                        res.counters.inc("quit_with_vanished_marked_file")
                    elif len(lines) != 1 or not lines[0].startswith(b"+OK"):
                        return self.violate("C19/reply/QUIT", "QUIT must be answered by a single +OK line and the end of "
                                            "the connection", reply=core.hx(rest[:200]))
                    res.counters.inc("cmd_QUIT")
                    break
                st, pos = take_line(out, pos)
                ok, er = st.startswith(b"+OK"), st.startswith(b"-ERR")
                if not ok and not er:
                    return self.violate("C19/reply-shape/" + vkey(verb), "reply is neither +OK nor -ERR",
                                        command=cmdtxt, reply=core.hx(st[:200]))
                body = None
                if ok and is_multiline(verb, args) and ex.kind not in ("payload", "err_or_payload"):
                    body, pos = take_multiline(out, pos)
                res.counters.inc("cmd_" + vkey(verb))
                k = ex.kind
                if k == "err":
                    res.counters.inc("refusal_" + ex.cls)
                    if ok:
                        if ex.cls == "overflow":
                            key = "C19/number-overflow-accepted"
                        elif ex.cls == "unknown-command":
                            key = "C19/unknown-command-accepted"
                        else:
                            key = "C19/bad-number-accepted/" + ex.cls
                        return self.violate(key, "%s must be refused (%s) but was answered +OK" % (cmdtxt, ex.cls),
                                            command=cmdtxt, reply=core.hx(st[:100]))
                    res.nontrivial("refuse", verb, ex.cls, args[0] if args else b"")
                elif k == "ok":
                    if er:
                        return self.violate("C19/valid-command-refused/" + vkey(verb), "%s refused" % cmdtxt,
                                            command=cmdtxt, reply=core.hx(st[:100]))
                elif k == "okline":
                    if er:
                        return self.violate("C19/valid-command-refused/" + vkey(verb), "%s refused" % cmdtxt,
                                            command=cmdtxt, reply=core.hx(st[:100]))
                    if not ex.lenient and st != b"+OK " + ex.text:
                        return self.violate("C19/list-size" if verb == b"LIST" else "C19/uidl-id",
                                            "%s answered %s, the files say %s" % (cmdtxt, core.hx(st), core.hx(ex.text)),
                                            command=cmdtxt, reply=core.hx(st[:100]))
                elif k == "stat":
                    t = st.split(b" ")
                    if er or len(t) < 3 or not pm.is_digits(t[1]) or not pm.is_digits(t[2]):
                        return self.violate("C19/reply-shape/STAT", "STAT reply", reply=core.hx(st[:100]))
                    if not ex.lenient and int(t[2]) != ex.size:
                        return self.violate("C19/stat-size", "STAT size %d, unmarked files total %d" % (int(t[2]), ex.size),
                                            reply=core.hx(st[:100]))
                elif k == "last":
                    t = st.split(b" ")
                    if er or len(t) < 2 or not pm.is_digits(t[1]):
                        return self.violate("C19/reply-shape/LAST", "LAST reply", reply=core.hx(st[:100]))
                elif k == "listing":
                    if er:
                        return self.violate("C19/valid-command-refused/" + vkey(verb), "%s refused" % cmdtxt, reply=core.hx(st[:100]))
                    optnum = {b"%d" % (i + 1) for i in ex.optional}
                    got = [l for l in body if l.split(b" ")[0] not in optnum]
                    exp = [t for i, t in ex.lines if i not in ex.optional]
                    if got != exp:
                        delnum = {b"%d" % (i + 1) for i in sess.deleted}
                        sub = "deleted-listed" if any(l.split(b" ")[0] in delnum for l in got) else "mismatch"
                        return self.violate("C19/listing/%s/%s" % (vkey(verb), sub),
                                            "%s lists %r, the files and marks say %r" % (cmdtxt, got[:8], exp[:8]),
                                            command=cmdtxt)
                elif k in ("payload", "err_or_payload"):
                    if er:
                        if k == "err_or_payload":
                            res.counters.inc("top_without_count_refused")
                            continue
                        return self.violate("C19/valid-command-refused/" + vkey(verb), "%s refused" % cmdtxt,
                                            command=cmdtxt, reply=core.hx(st[:100]))
                    data = sess.msg(ex.index).data
                    got = out[pos:pos + len(ex.payload)]
                    if got != ex.payload:
                        # locate the response body the way a client would, for the witness
                        try:
                            ls, p2 = take_multiline(out, pos)
                            seen = out[pos:p2]
                        except Incomplete:
                            seen = out[pos:]
                        sub = "nocount" if k == "err_or_payload" else msg_class(data)
                        return self.violate("C19/%s-payload/%s" % ("retr" if verb == b"RETR" else "top", sub),
                                            "%s: transmitted body differs from the stored message" % cmdtxt,
                                            command=cmdtxt, stored=core.hx(data[:300]), expected=core.hx(ex.payload[:400]),
                                            received=core.hx(seen[:400]), expected_len=len(ex.payload), received_len=len(seen))
                    pos += len(ex.payload)
                    res.nontrivial(verb, args[1] if len(args) > 1 else b"", data)
                    res.counters.inc("payload_" + msg_class(data))
                    res.counters.inc("payload_bytes", len(ex.payload))
                elif k == "vanished_retr":
                    res.counters.inc("retr_of_vanished_file_" + ("ok" if ok else "err"))
                elif k == "vanished_dele":
                    sess.note_accepted(ex, ok)
                    res.counters.inc("dele_of_vanished_file")
            except Incomplete:
                return self.violate("C19/reply-shape/" + vkey(verb), "output ends inside the reply to %s" % cmdtxt,
                                    command=cmdtxt, tail=core.hx(out[max(0, pos - 40):][-300:]))
        self.end = pos

    def trailing(self, out):
        """after the effects were judged: nothing may follow the last reply"""
        if not self.bad and self.end is not None and self.end != len(out):
            self.violate("C19/reply-shape/trailing-bytes", "output continues after the last reply",
                         tail=core.hx(out[self.end:self.end + 200]))

    def final_state(self, sess, md, had_quit):
        remain, gone = sess.final()
        found = {}
        for sub in ("new", "cur"):
            for f in os.listdir(os.path.join(md, sub).encode()):
                u = pm.uid_of(f)
                found.setdefault(u, []).append(os.path.join(md.encode(), sub.encode(), f))
        for u, data in remain.items():
            if u not in found:
                key = "C19/final/unmarked-removed" if had_quit else "C19/final/removed-without-quit"
                return self.violate(key, "message %s was not marked deleted at QUIT but is gone" % core.hx(u), uid=core.hx(u))
            if len(found[u]) != 1:
                return self.violate("C19/final/duplicated", "message %s exists twice" % core.hx(u), uid=core.hx(u))
            with open(found[u][0], "rb") as f:
                if f.read() != data:
                    return self.violate("C19/final/content-changed", "message %s changed" % core.hx(u), uid=core.hx(u))
            m0 = sess.by_uid[u]
            want = (b"cur/" + m0.name + b":2,") if (m0.subdir == b"new" and getattr(sess, "updated", False)) else (m0.subdir + b"/" + m0.name)
            got = os.path.relpath(found[u][0], md.encode())
            if got != want:
                return self.violate("C19/final/file-name", "message %s is now %s, documented: %s" % (core.hx(u), core.hx(got), core.hx(want)),
                                    uid=core.hx(u))
        for u in gone:
            if u in found:
                return self.violate("C19/final/marked-not-removed", "message %s was marked and QUIT was given, still there" % core.hx(u),
                                    uid=core.hx(u))
        stray = set(found) - set(remain) - set(gone)
        if stray:
            return self.violate("C19/final/stray-file", "unexpected file", uid=core.hx(sorted(stray)[0]))
        if not os.path.exists(md + "/tmp/fresh.in-progress"):
            return self.violate("C19/final/tmp-file-removed", "a fresh file in tmp/ was removed")
        self.res.counters.inc("messages_removed_at_quit", len(gone))
        self.res.counters.inc("messages_kept", len(remain))


def vkey(verb):
    v = verb.decode("latin1")
    return v if v in ("RETR", "TOP", "DELE", "LIST", "UIDL", "STAT", "RSET", "NOOP", "LAST", "QUIT", "USER", "PASS", "APOP") else "other"


def process_problem(res, prog, rc, err, wit):
    """sanitizer reports and fatal signals belong to C20; returns True when the run cannot be judged"""
    e = err.decode("latin1", "replace")
    if "Sanitizer" in e or "runtime error" in e or (rc is not None and rc < 0):
        w = dict(wit)
        w["stderr_tail"] = e[-2000:]
        site = hrun.sanitizer_site(e)
        if site.endswith("@qmail-pop3d.c"):      # qmail-popup's descriptor 2 is inherited by the chained server
            prog = "qmail-pop3d"
        res.violate("C20/sanitizer/%s/%s" % (prog, hrun.sanitizer_site(e)), "%s: sanitizer report or fatal signal (rc=%s)" % (prog, rc), w)
        return True
    return False


# ------------------------------------------------------------------------------------ case runners

def run_pop3d_session(box, res, msgs, cmds, had_quit, vanish, wit):
    """cmds includes the leading UIDL and (if had_quit) the trailing QUIT.
    vanish = None or (position p, uid-rank r): after the replies to cmds[:p] arrived, the file that
    the first listing numbered r+1 is removed."""
    sess = pm.Session(msgs)
    lines = render(cmds)
    wit = dict(wit)
    wit["commands"] = [core.hx(l) for l in lines]
    wit["maildir"] = [{"file": core.hx(m.subdir + b"/" + m.name), "mtime": m.mtime, "data": core.hx(m.data[:200]),
                       "data_hex": m.data[:2000].hex(), "size": len(m.data)} for m in msgs]
    judge = Judge(res, wit)
    env = box.env()
    if vanish is None:
        inp = box.dir + "/input"
        with open(inp, "wb") as f:
            f.write(b"".join(lines))
        for attempt in (0, 1):
            with open(inp, "rb") as fin:
                rc, out, err = core.run_with_watchdog([box.pop3d, box.md], 60, env=env, stdin=fin, preexec_fn=box.drop())
            if rc is not None:
                break
        if rc is None:
            res.inconclusive.append("qmail-pop3d watchdog: %r" % (wit.get("case"),))
            return
    else:
        p, r = vanish
        pr = Proc([box.pop3d, box.md], env, box.drop(), box.dir + "/stderr")
        try:
            pr.send(b"".join(lines[:p]))
            while not replies_complete(pr.out, cmds[:p]):
                if not pr.more(30):
                    break
            # which file is number r+1?  read it off the first listing (shape already complete)
            try:
                _, q = take_line(pr.out, 0)
                _, q = take_line(pr.out, q)
                ls, _ = take_multiline(pr.out, q)
                victim_uid = ls[r].split(b" ")[1] if r < len(ls) else None
            except (Incomplete, IndexError):
                victim_uid = None
            if victim_uid is not None and victim_uid in sess.by_uid:
                m = sess.by_uid[victim_uid]
                os.unlink(os.path.join(box.md.encode(), m.subdir, m.name))
                wit["vanished"] = {"after_command": p, "number": r + 1, "uid": core.hx(victim_uid)}
            else:
                vanish = None
            pr.send(b"".join(lines[p:]))
            rc, err = pr.finish(60)
            out = pr.out
        except Timeout:
            pr.kill()
            res.inconclusive.append("qmail-pop3d stalled in a lock-step session: %r" % (wit.get("case"),))
            return
        if rc is None:
            res.inconclusive.append("qmail-pop3d watchdog: %r" % (wit.get("case"),))
            return
    res.evaluations += 1
    res.counters.inc("sessions")
    res.counters.inc("commands", len(cmds))
    res.counters.setdefault("exit_codes", {})
    res.counters["exit_codes"][str(rc)] = res.counters["exit_codes"].get(str(rc), 0) + 1
    if process_problem(res, "qmail-pop3d", rc, err, wit):
        return
    wit["output_head"] = core.hx(out[:300])
    try:
        greet, pos = take_line(out, 0)
    except Incomplete:
        greet, pos = b"", 0
    if not greet.startswith(b"+OK"):
        judge.violate("C19/greeting", "no +OK greeting for an unprivileged user with a maildir", stderr=core.hx(err[-300:]))
        return
    judge.transcript(sess, cmds, out, pos, vanish)
    if vanish is not None:
        res.counters.inc("sessions_with_vanishing_file")
    if judge.bad:
        return
    judge.final_state(sess, box.md, had_quit)
    judge.trailing(out)
    if judge.bad:
        return
    if msgs and len(cmds) > 2:
        res.nontrivial("session", [(m.name, m.data) for m in msgs], lines)
    res.counters.inc("sessions_agreeing")
    if had_quit:
        res.counters.inc("sessions_with_quit")
    else:
        res.counters.inc("sessions_without_quit")
    if len(res.samples) < 3 and msgs and len(cmds) > 3:
        res.sample({"maildir": [core.hx(m.subdir + b"/" + m.name) + " (%d bytes)" % len(m.data) for m in msgs],
                    "commands": [core.hx(l) for l in lines], "output_head": core.hx(out[:160])}, cap=3)


def special_numbers(n):
    out = [b"0", b"1", b"%d" % n, b"%d" % (n + 1), b"2147483648", b"4294967297", b"%d" % U64, b"%d" % (U64 + 1),
           b"%d" % (U64 + n), b"%d" % (2 * U64 + 1), b"%d" % (U64 * 1000 + 2), b"123456789012345678901234567890",
           b"9" * 25, b"01", b"0000000001", b"0" * 24 + b"2", b"00", b"0" * 21, b"x", b"-1", b"+1", b"", b"\xff"]
    return out


def directed_cases():
    """seed-independent list: (verb, number token, follow-up)"""
    cases = []
    for verb in (b"DELE", b"RETR", b"TOP", b"LIST", b"UIDL"):
        for tok in special_numbers(3):
            if tok == b"" and verb in (b"LIST", b"UIDL"):
                continue
            cases.append((verb, tok))
    return cases


DIRECTED_MSGS = [b"Subject: one\n\nfirst body\n.\n..\nlast\n", b"H: two\n\n.starts with a dot\nno newline at the end",
                 b"Subject: three\nX: y\n\nl1\nl2\nl3\nl4\n"]


def case_directed(box, res, i):
    verb, tok = directed_cases()[i]
    rng = core.case_rng(PROP, i, "directed")
    msgs = gen_maildir(rng, box, fixed=DIRECTED_MSGS)
    args = [tok] if tok != b"" else []
    if verb == b"TOP" and args:
        args.append(b"1")
    cmds = [(b"UIDL", []), (verb, args), (b"LIST", []), (b"DELE", [b"2"]), (verb, args), (b"RSET", []),
            (b"DELE", [b"3"]), (b"STAT", []), (b"QUIT", [])]
    run_pop3d_session(box, res, msgs, cmds, True, None, {"case": {"kind": "directed", "index": i}})


def case_session(box, res, i):
    rng = core.case_rng(PROP, i, "session")
    # now and then a maildir large enough for the server's tables, heap and number formatting to matter
    msgs = gen_maildir(rng, box, nmax=rng.choice([6] * 30 + [40, 130, 300]))
    n = len(msgs)
    cmds = [(b"UIDL", [])] + gen_commands(rng, n)
    had_quit = rng.random() < 0.86
    if had_quit:
        cmds.append((rng.choice([b"QUIT", b"QUIT", b"quit", b"Quit"]), []))
    vanish = None
    if n and rng.random() < 0.125:
        vanish = (rng.randint(1, max(1, len(cmds) - 1)), rng.randrange(n))
    run_pop3d_session(box, res, msgs, cmds, had_quit, vanish, {"case": {"kind": "session", "index": i}})


def case_root(box, res, i):
    rng = core.case_rng(PROP, i, "root")
    msgs = gen_maildir(rng, box, fixed=DIRECTED_MSGS)
    inp = box.dir + "/input"
    with open(inp, "wb") as f:
        f.write(b"UIDL\r\nDELE 1\r\nRETR 2\r\nQUIT\r\n")
    # plain root, or real (and saved) uid 0 behind another effective uid: a process that can take root back at any moment
    masked = i % 2 == 1
    kw = {}
    if masked:
        uid, gid = box.uid, box.gid

        def pre():
            os.setgroups([])
            os.setgid(gid)
            os.setresuid(0, uid, 0)
        kw["preexec_fn"] = pre
    with open(inp, "rb") as fin:
        rc, out, err = core.run_with_watchdog([box.pop3d, box.md], 60, env=box.env(), stdin=fin, **kw)
    wit = {"case": {"kind": "root", "index": i}, "rc": rc, "stdout": core.hx(out[:200]), "stderr": core.hx(err[-200:]),
           "uids": "real 0, effective %d, saved 0" % box.uid if masked else "0/0/0"}
    if rc is None:
        res.inconclusive.append("qmail-pop3d (root) watchdog")
        return
    res.evaluations += 1
    if process_problem(res, "qmail-pop3d", rc, err, wit):
        return
    j = Judge(res, wit)
    if rc != 1 or b"+OK" in out:
        j.violate("C19/root-not-refused" + ("/effective-uid-masked" if masked else ""), "qmail-pop3d invoked with uid 0 must exit 1 without serving (qmail-pop3d(8))")
        return
    sess = pm.Session(msgs)
    j.final_state(sess, box.md, False)
    if not j.bad:
        res.counters.inc("root_refused")
        res.nontrivial("root", i)


# ---- qmail-popup -------------------------------------------------------------------------------------

CRED_ALPHA = bytes(c for c in range(33, 256) if c not in (0x7f,))


def gen_cred(rng, spaces=False):
    k = rng.randrange(10)
    if k == 0:
        n = rng.choice([127, 128, 129, 300, 2000])
    else:
        n = rng.randint(1, 24)
    s = bytearray(rng.choice(CRED_ALPHA) for _ in range(n))
    if spaces and n > 2 and rng.random() < 0.4:
        s[rng.randrange(1, n - 1)] = 32
    return bytes(s)


PREAUTH_FOREIGN = [b"STAT", b"LIST", b"UIDL", b"RETR 1", b"DELE 1", b"TOP 1 0", b"RSET", b"LAST", b"XYZZY", b"LIST 1",
                   b"dele 1", b"retr 1", b"DELE 18446744073709551617"]


def case_popup(box, res, i):
    rng = core.case_rng(PROP, i, "popup")
    msgs = gen_maildir(rng, box, fixed=DIRECTED_MSGS)
    box.fresh_rec()
    host = rng.choice([b"pop.example.test", b"h", b"mail-7.sub.example.org"])
    plan = rng.choice(["fail", "fail", "true", "pop3d", "pop3d", "crash", "none"])
    as_root = plan == "pop3d" and rng.random() < 0.2
    script = []
    for _ in range(rng.randint(0, 6)):
        k = rng.randrange(10)
        if k < 4:
            script.append(rng.choice(PREAUTH_FOREIGN))
        elif k < 5:
            script.append(rng.choice([b"NOOP", b"noop"]))
        elif k < 7:
            script.append(rng.choice([b"USER ", b"user "]) + gen_cred(rng))
        elif k < 8:
            script.append(rng.choice([b"USER", b"PASS", b"APOP", b"APOP onlyname", b"PASS x"]))
        else:
            script.append(b"PASS " + gen_cred(rng, True))
    if plan != "none":
        if rng.random() < 0.5:
            script += [b"USER " + gen_cred(rng), b"PASS " + gen_cred(rng, True)]
        else:
            script.append(rng.choice([b"APOP ", b"apop "]) + gen_cred(rng) + rng.choice([b" ", b" ", b" ", b"  ", b"   "]) + gen_cred(rng, rng.random() < 0.3))
    elif rng.random() < 0.7:
        script.append(rng.choice([b"QUIT", b"quit"]))
    extra = {"NQV_REC": box.rec}
    if plan == "fail":
        extra["NQV_PW_EXIT"] = str(rng.choice([1, 2, 3, 100, 111, 255]))
        sub = ["/bin/true"]
    elif plan == "crash":
        sub = ["/bin/sh", "-c", "kill -SEGV $$"]
    elif plan == "pop3d":
        sub = [box.pop3d, box.md]
    else:
        sub = ["/bin/true"]
    argv = [box.popup, host.decode(), _shim.tool("pw-rec")] + sub
    wit = {"case": {"kind": "popup", "index": i}, "argv": argv[1:], "plan": plan, "as_root": as_root,
           "script": [core.hx(s[:200]) for s in script]}
    model = pm.Popup(host)
    pr = Proc(argv, box.env(extra), None if as_root else box.drop(), box.dir + "/stderr")
    j = Judge(res, wit)
    auth = None
    quit_seen = False
    tail_cmds = None
    sess = pm.Session(msgs)
    try:
        pos = 0
        g = pr.line(pos, 30)
        if g is None:
            rc, err = pr.finish(30)
            if not process_problem(res, "qmail-popup", rc, err, wit):
                j.violate("C19/popup/greeting", "no greeting", stderr=core.hx(err[-300:]))
            return
        pos += len(g) + 2
        why = model.greeting(g)
        if why:
            j.violate("C19/popup/greeting/" + why, "greeting %s" % core.hx(g[:100]))
        for line in script:
            if j.bad:
                break
            sp = line.split(b" ", 1)
            verb = sp[0].upper()
            arg = sp[1] if len(sp) > 1 else b""
            r = model.command(verb, arg)
            pr.send(line + b"\r\n")
            if r[0] in ("auth", "auth_or_err"):
                auth = r
                wit["expected_fd3"] = core.hx(model.fd3(r[1], r[2])[:300])
                break
            rep = pr.line(pos, 30)
            if rep is None:
                j.violate("C19/popup/reply/" + vkey(verb), "connection closed instead of a reply to %s" % core.hx(line[:60]))
                break
            pos += len(rep) + 2
            res.counters.inc("popup_cmd_" + vkey(verb))
            if r[0] in ("ok", "quit"):
                if not rep.startswith(b"+OK"):
                    j.violate("C19/popup/reply/" + vkey(verb), "%s answered %s" % (core.hx(line[:60]), core.hx(rep[:80])))
                if r[0] == "quit":
                    quit_seen = True
                    break
            else:
                if not rep.startswith(b"-ERR"):
                    if r[1] == "not-authenticated":
                        j.violate("C19/popup/preauth-honoured/" + vkey(verb), "%s answered %s before authentication" % (
                            core.hx(line[:60]), core.hx(rep[:80])))
                    else:
                        j.violate("C19/popup/reply/" + vkey(verb), "%s (%s) answered %s" % (core.hx(line[:60]), r[1], core.hx(rep[:80])))
                else:
                    res.counters.inc("popup_refused_" + r[1])
        if auth and not j.bad and plan == "pop3d" and not as_root:
            g2 = pr.line(pos, 30)
            if g2 is None or not g2.startswith(b"+OK"):
                j.violate("C19/popup/chain", "after successful authentication the subprogram's greeting did not arrive: %r" % (g2,))
            else:
                pos += len(g2) + 2
                tail_cmds = [(b"UIDL", [])] + gen_commands(rng, len(msgs), maxlen=6) + [(b"QUIT", [])]
                pr.send(b"".join(render(tail_cmds)))
                wit["commands_after_login"] = [core.hx(x) for x in render(tail_cmds)]
        rc, err = pr.finish(60)
    except Timeout:
        pr.kill()
        res.inconclusive.append("qmail-popup stalled: %r" % (wit["case"],))
        return
    if rc is None:
        res.inconclusive.append("qmail-popup watchdog: %r" % (wit["case"],))
        return
    res.evaluations += 1
    res.counters.inc("popup_sessions")
    res.counters.inc("popup_plan_" + plan + ("_root" if as_root else ""))
    out = pr.out
    wit["output_head"] = core.hx(out[:300])
    if process_problem(res, "qmail-popup", rc, err, wit):
        return
    if j.bad:
        return
    # what the checker saw
    recs = sorted(f for f in os.listdir(box.rec) if f.endswith(".pw"))
    seen = []
    for f in recs:
        with open(os.path.join(box.rec, f), "rb") as fh:
            seen.append(fh.read())
    wit["checker_fd3"] = [core.hx(s[:300]) for s in seen]
    if auth is not None and auth[0] == "auth_or_err" and not seen:
        # an APOP line with surplus blanks may be refused instead: then exactly one -ERR line and nothing else happened
        rest = out[pos:]
        ls = rest.split(b"\r\n")
        if not ls[0].startswith(b"-ERR"):
            return j.violate("C19/popup/reply/APOP", "an APOP line with surplus blanks neither ran the checker nor was refused: %s" % core.hx(rest[:100]))
        res.counters.inc("popup_apop_with_surplus_blanks_refused")
        Judge.final_state(j, sess, box.md, False)
        return
    if auth is None:
        if seen:
            return j.violate("C19/popup/checker-run-without-credentials", "the checker was started although no PASS/APOP was accepted")
    else:
        if auth[0] == "auth_or_err":
            res.counters.inc("popup_apop_with_surplus_blanks_passed_on")
        if len(seen) != 1:
            return j.violate("C19/popup/checker-runs", "the checker ran %d times for one authentication" % len(seen))
        if seen[0] != model.fd3(auth[1], auth[2]):
            return j.violate("C19/popup/credentials", "descriptor 3 of the checker did not carry user NUL password NUL timestamp NUL verbatim")
        res.counters.inc("popup_credentials_verbatim")
        res.nontrivial("popup-auth", auth[1], auth[2], plan)
    rest = out[pos:]
    if auth is None:
        if rest:
            return j.violate("C19/popup/reply-shape/trailing-bytes", "unexpected output %s" % core.hx(rest[:100]))
        Judge.final_state(j, sess, box.md, False)
        if not j.bad:
            res.counters.inc("popup_no_auth_maildir_untouched")
            res.nontrivial("popup-noauth", script)
        return
    if plan in ("fail", "crash") or (plan == "pop3d" and as_root):
        # qmail-popup(8): prints an error message if the subprogram crashes or exits nonzero
        ls = rest.split(b"\r\n")
        if len(ls) != 2 or ls[1] != b"" or not ls[0].startswith(b"-ERR"):
            key = "C19/root-not-refused" if plan == "pop3d" else "C19/popup/auth-failure-not-reported"
            return j.violate(key, "after a failing checker/subprogram the reply was %s" % core.hx(rest[:100]))
        Judge.final_state(j, sess, box.md, False)
        if not j.bad:
            res.counters.inc("popup_failure_reported")
        return
    if plan in ("true", "none"):
        if rest:
            return j.violate("C19/popup/reply-shape/trailing-bytes", "output after a successful silent subprogram: %s" % core.hx(rest[:100]))
        Judge.final_state(j, sess, box.md, False)
        return
    # chained into the real qmail-pop3d: judge the rest as a TRANSACTION-state transcript
    j.transcript(sess, tail_cmds, out, pos)
    if not j.bad:
        j.final_state(sess, box.md, True)
        j.trailing(out)
    if not j.bad:
        res.counters.inc("popup_chained_sessions_agreeing")


RUNNERS = {"directed": case_directed, "session": case_session, "root": case_root, "popup": case_popup}


def worker(bdir, kind, lo, hi):
    res = core.Result()
    box = Box(bdir)
    try:
        for i in range(lo, hi):
            RUNNERS[kind](box, res, i)
    finally:
        shutil.rmtree(box.dir, ignore_errors=True)      # pool workers do not run atexit handlers
    return res


def main(tier):
    t0 = time.time()
    b = build.vbuild("asan")
    nsess = core.scaled(6000 if tier == "quick" else 60000)
    npop = core.scaled(800 if tier == "quick" else 8000)
    ndir = len(directed_cases())
    jobs = []
    per = max(10, nsess // (core.JOBS * 4))
    for lo in range(0, nsess, per):
        jobs.append((b.dir, "session", lo, min(nsess, lo + per)))
    for lo, hi in core.chunks(ndir, 4):
        jobs.append((b.dir, "directed", lo, hi))
    for lo, hi in core.chunks(npop, max(4, core.JOBS)):
        jobs.append((b.dir, "popup", lo, hi))
    jobs.append((b.dir, "root", 0, 3))
    res = core.pmap(worker, jobs, timeout=7200 if tier == "thorough" else 1500)
    rule = ("%d random sessions of the real qmail-pop3d (uid %s) on generated maildirs of 0-6 messages in new/ and cur/ "
            "(dot-leading lines, no final newline, empty, 8-bit/NUL/CR bytes, lines around the 1024-byte buffers), "
            "first command UIDL then <= 14 commands over RETR/TOP/DELE/LIST/UIDL/STAT/RSET/NOOP/LAST/unknown with message "
            "numbers from {valid, 0, n+1, 2^31.., 2^64+k, 20-40 digits, leading zeros, non-numeric, missing}; 1 in 8 with a "
            "file removed between two commands, 1 in 7 without QUIT; %d directed sessions (verb x special number); "
            "%d lock-step qmail-popup sessions with pw-rec (failing, crashing, silent, chained into qmail-pop3d; some as root); "
            "3 runs of qmail-pop3d as root. Every reply and the maildir afterwards are compared with the RFC 1939 model. "
            "Non-trivial and distinct = distinct (maildir contents, command list) with at least one message and two commands "
            "besides UIDL, distinct (verb, stored message, count) payload comparisons, distinct refused (verb, class, argument), "
            "distinct credential triples." % (nsess, RUN_USER, ndir, npop))
    # a session is many judged commands; distinct cases are counted per command, so evaluations are counted per command too
    res.counters["sessions_run"] = res.evaluations
    res.evaluations = max(res.evaluations, int(res.counters.get("commands", 0)) + int(res.evaluations))
    return core.finish(PROP, tier, "exploration", res, rule, t0, assumptions=[
        "reference model nqv/refmodel/pop3_model.py = RFC 1939 as qualified by qmail-pop3d(8), qmail-popup(8)",
        "unique id of a message = maildir file name up to the first ':' (maildir(5))",
        "message order is taken from the first UIDL listing (ties in mtime unspecified); mtime order is only counted",
        "STAT's message count and LAST's value are not compared; 'digits followed by junk', surplus arguments and TOP "
        "counts of 2^64 and more are outside the domain and not generated",
        "replies to commands naming a file removed behind the server's back are compared for shape and effect only"])


def replay(path):
    with open(path) as f:
        w = json.load(f)
    b = build.vbuild("asan")
    box = Box(b.dir)
    rc = 0
    for c in w.get("cases", [])[:3]:
        case = (c.get("witness") or {}).get("case")
        if not case:
            continue
        os.environ["VERIF_SEED"] = str(w.get("seed", 1))
        res = core.Result()
        RUNNERS[case["kind"]](box, res, case["index"])
        print("replayed %s #%d under seed %s: %d violation(s)" % (case["kind"], case["index"], w.get("seed"), len(res.violations)))
        for v in res.violations:
            print("  key=%s why=%s" % (v["key"], v["why"]))
            print(json.dumps(v["witness"], indent=1, default=core._json_default)[:3000])
            rc = 1
    return rc
