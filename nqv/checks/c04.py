"""C04 - finished recipients are never retried; at most one attempt in flight; concurrency bound
(DESIGN.md section 3, C04).  History recorded at the spawner boundary of the real qmail-send."""
import time

from .. import core, build, histrun

PROP = "C04"
ORACLES = ["OnceOracle"]


def main(tier):
    t0 = time.time()
    b = build.vbuild("asan")
    quick = tier == "quick"
    res = core.Result()
    base = {"conc": [0, 1, 1, 2, 5, 120, 255], "spawn": [0, 1, 3, 120, 255], "max_rcpts": 6, "max_msgs": 4,
            "hold_reports": 0.45, "dup_rcpt": 0.25, "p_term_restart": 0.1, "max_idle_advances": 5}
    res.merge(histrun.run(PROP, b, core.scaled(1200 if quick else 10000), base, ORACLES, salt="h"))
    # crashes at quiescent points (completed writes kept): a recipient whose mark was written must not be attempted again
    res.merge(histrun.run(PROP, b, core.scaled(500 if quick else 4000), dict(base, p_crash=0.15, conc=[1, 2, 5], spawn=[3, 120]),
                          ORACLES, salt="ck"))
    # saturation: one or two messages with more recipients on one channel than min(configured, announced), around the
    # values where a one-byte limit or delivery number changes sign or wraps (DESIGN.md 7.7, seed c04-s3): the random
    # histories above have at most ~28 pending recipients and exercise only small bounds
    pairs = [(5, 3), (3, 5), (130, 127), (127, 130), (140, 128), (200, 129), (255, 200), (255, 255), (250, 254), (300, 255), (300, 120), (1, 255)]
    if quick:
        pairs = [pairs[i] for i in (1, 2, 4, 6, 9)] + [pairs[(core.seed() * 3 + j) % len(pairs)] for j in range(2)]
    for j, (cf, an) in enumerate(pairs):
        n = min(cf, an) + 3
        for dom in ([b"local.test"], [b"remote.test"]) if (not quick or j % 2 == 0) else ([b"remote.test"],):
            sat = dict(base, conc=[cf], spawn=[an], min_rcpts=n, max_rcpts=n + 2, rcpt_doms=dom, max_msgs=2, dup_rcpt=0.0,
                       report_burst=max(4, n // 3), max_quiescent=2500, hold_reports=0.3, p_term_restart=0.03, senders=["user"],
                       p_garbage=0.0)
            r = histrun.run(PROP, b, 1 if quick else 3, sat, ORACLES, salt="sat%d%s" % (j, dom[0][:1].decode()))
            r.counters.inc("saturation_histories", r.evaluations)
            res.merge(r)
    # a spawner that falls behind: its command pipe holds one page and it reads in pieces, so the daemon's writes are partial and
    # its buffer fills up (seed c04-s8); long addresses make a command nearly a quarter of the pipe
    slow = dict(base, slow_spawner=1.0, p_long_addr=0.9, long_lengths=[400, 700, 900, 900], conc=[5, 8, 10, 40], spawn=[120], min_rcpts=10, max_rcpts=18, max_msgs=2, dup_rcpt=0.0,
                hold_reports=0.5, p_term_restart=0.0, max_quiescent=1500)
    # (no TERM in mid-history here: a command the daemon wrote, or still holds in its buffer, when TERM arrives reaches a slow
    # spawner afterwards, and the boundary rule "no command after TERM" presumes a spawner that has read everything)
    rs = histrun.run(PROP, b, core.scaled(80 if quick else 1200), slow, ORACLES, salt="slow")
    rs.counters.inc("slow_spawner_histories", rs.evaluations)
    res.merge(rs)
    # crash sweep at call granularity for fixed scenarios
    prof = {"max_msgs": 3, "p_term_restart": 0.0, "max_rcpts": 4, "dup_rcpt": 0.3}
    for idx in histrun.pick_scenarios(PROP, b, "sw", prof, 2 if quick else 6):
        calls, h = histrun.reference_calls(PROP, b, idx, "sw", prof)
        plans = histrun.crash_plans(calls, every=1)
        res.merge(histrun.run_sweep(PROP, b, idx, "sw", prof, ORACLES, plans))
        # the cleaner cannot remove intd/N or todo/N (its unlink fails): the message must not be scheduled while its todo entry
        # is still there - the next scan would preprocess it again and every finished recipient would be attempted again
        cplans = histrun.fault_plans([c for c in calls if c[0] == "qmail-clean" and c[2] == "unlink"])
        rc_ = histrun.run_sweep(PROP, b, idx, "sw", prof, ORACLES, cplans)
        rc_.counters.inc("cleaner_unlink_faults_planned", len(cplans))
        res.merge(rc_)
    # one failing stat()/read()/open()/write() inside qmail-send per run (transient I/O trouble must not lead to a second
    # pass on the same message or to an attempt for a finished recipient; a failed MARK write legitimately does)
    prof2 = dict(prof, count="mtr", trace_extra="tr", before_start=1.0, hold_reports=0.5, p_term_restart=0.12, plan_persist=True,
                 conc=[2, 5], spawn=[120])
    for idx in histrun.pick_scenarios(PROP, b, "fs", prof2, 1 if quick else 3):
        calls, h = histrun.reference_calls_log(PROP, b, idx, "fs", prof2)
        plans = [pl for pl in histrun.fault_plans(calls, every=1)]
        res.counters.inc("fault_sweep_reference_calls", len(calls))
        res.merge(histrun.run_sweep(PROP, b, idx, "fs", prof2, ORACLES, plans))
    # directed: a deferred two-channel message, clean stop, restart with one failing stat()/read() of a queue file
    # during the start-up scan or later, reports withheld so that a second pass would overlap the first
    prof3 = {"directed": "restart-fault", "count": "tro", "trace_extra": "tr", "incarnation": 2, "conc": [5], "spawn": [120], "lifetimes": [604800]}
    calls, h = histrun.reference_calls_log(PROP, b, 0, "rf", prof3, classes=("stat", "lstat", "read", "openr"))
    res.counters.inc("restart_fault_reference_calls", len(calls))
    res.merge(histrun.run_sweep(PROP, b, 0, "rf", prof3, ORACLES, histrun.fault_plans(calls, every=1)))
    # directed: one unlink of the cleaner fails while the first message is taken over from todo/, then a second message's
    # trigger starts the next todo scan (seed c04-s9)
    prof4 = {"directed": "cleaner-fault", "conc": [5], "spawn": [120], "lifetimes": [604800]}
    cf = [("qmail-clean:%d:fail=%s" % (k, er), "fail=%s@clean:unlink:#%d" % (er, k)) for k in range(1, 7) for er in ("EIO", "EACCES")]
    res.merge(histrun.run_sweep(PROP, b, 0, "cf", prof4, ORACLES, cf))
    rule = ("seeded random histories at the spawner boundary of the real qmail-send: concurrencylocal/remote in {0,1,2,5,120,255}, "
            "announced spawner limit in {0,1,3,120,255}, 1-4 messages with 1-7 recipients (25% with one address listed twice), reports "
            "withheld to fill all slots, TERM with 0..n outstanding then restart, crashes (random and before every mutating call of a "
            "fixed scenario, completed writes kept). Oracle per command: no command for a record already reported K/D (after a crash: "
            "unless its mark write had not completed), never two outstanding for one record, delivery number not in use, outstanding "
            "<= min(control value, spawner byte), nothing after TERM, no exit with deliveries outstanding; without crashes exactly one K "
            "per delivered recipient. Saturation histories: more recipients on one channel than min(configured, announced) for pairs around "
            "127/128/129, 200, 254/255 and 300. Non-trivial = history with at least one command; distinct by boundary-event sequence.")
    return core.finish(PROP, tier, "exploration", res, rule, t0, assumptions=[
        "the controller plays the spawners; records of one address listed twice are told apart by the daemon's pass order (class-o events)",
        "crash variant keep-all only: with un-fsynced marks lost a re-attempt is legitimate (INTERNALS.md section 6)"])


def replay(path):
    with open(path) as f:
        print(f.read()[:4000])
    return main("quick")
