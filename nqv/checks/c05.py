"""C05 - inbound SMTP DATA decoding (DESIGN.md section 3, C05).

(a) harness/h_smtpd_blast.c: the real qmail-smtpd.c blast() in-process, every string over
    {CR, LF, '.', 'a', 'R'} up to a bounded length under whole / 1-byte / every-split read
    chunkings + random streams; oracle = RFC 5321 4.5.2 reference decoder (smtpcodec.h).
(b) whole binary: the real qmail-smtpd (asan) with QMAILQUEUE=qq-rec; several transactions per
    session, exact pipe chunking / full pipelining / lock step, a trailing command after every
    terminator whose reply proves where command parsing resumed.  Compared with
    refmodel/smtpdata.py: reply sequence, completed submissions (envelope record closed by the
    extra NUL), recorded bodies behind the daemon's own Received field, bare LF => 451 +
    nothing submitted + session closed and nothing after it executed.
(c) round trip: for generated messages m (LF-terminated lines, leading dots, bare CRs)
    the real binary fed ref_encode(m) must hand exactly m to the queue.

Tolerance kept on purpose (HACKING.md, last paragraph): a line that starts ". CR <non-LF>" may
be stored with or without its dot."""
import json
import os
import shutil
import time

from .. import core, build, hrun, sandbox, smtpdrive
from .. import shim as _shim
from ..refmodel import smtpdata
from .c06 import SMTPD_OBJS

PROP = "C05"
TERM = b"\r\n.\r\n"
QQREC = _shim.tool("qq-rec")
PATIENCE = 10.0      # seconds without any output before lock-step feeding gives up waiting

# trailing commands: (wire verb, expected reply).  Reply codes per RFC 5321 4.2.3 / 4.3.2;
# "5xx" = any permanent error (the verb is not an SMTP command).
TRAILERS = [(b"NOOP", "250"), (b"RSET", "250"), (b"HELP", "214"), (b"VRFY postmaster", "252"),
            (b"XYZZY", "5xx"), (b"noop", "250"), (None, None)]


# ------------------------------------------------------------------ generators

def _sizeclass(rng, maxlen):
    c = rng.randrange(8)
    if c == 0:
        return rng.randrange(0, 12)
    if c == 1:
        return rng.randrange(0, 80)
    if c == 2:
        return rng.randrange(900, 1100)      # the daemon's 1024-byte input buffer
    if c == 3:
        return rng.randrange(2000, 2100)
    return rng.randrange(0, maxlen)


_WORDS = [b"\r\n", b"\r\n.", b"\r\n..", b".\r", b"\r\r\n", b".\r\n", b"\r\n.\r", b"\r\n.\r\r\n", b"\r\n..\r\n",
          b"\r.\r\n", b"received", b"\r\nReceived: x", b"\r\nDELIVERED-To: y", b"\r\n\r\n", b"QUIT\r\n",
          b".\r.\r", b"\r\n.\rx", b"\r\n.a", b"\n", b"\n.\n", b".\n", b"\r\n.\n", b"\n.\r\n"]


def gen_hostile(rng, allow_bare_lf, maxlen=4096):
    """raw byte stream a hostile client might send after DATA (terminator added by the caller)"""
    n = _sizeclass(rng, maxlen)
    w = rng.randrange(3)
    if w == 0:
        pop, wts = b"\r\n.aR", [3, 1 if allow_bare_lf else 0, 3, 3, 1]
    elif w == 1:
        pop, wts = bytes(range(256)), [1] * 256
        wts[13] = 50
        wts[10] = 8 if allow_bare_lf else 0
        wts[46] = 30
    else:
        pop, wts = b"\r\n.abcdefgh ijkl", [15, 1 if allow_bare_lf else 0, 6] + [6] * 13
    out = bytearray(rng.choices(pop, wts, k=n)) if n else bytearray()
    words = _WORDS if allow_bare_lf else [x for x in _WORDS if not _has_bare_lf(x)]
    for _ in range(rng.randrange(0, 2 + n // 24)):
        wd = rng.choice(words)
        p = rng.randrange(0, len(out) + 1)
        out[p:p] = wd
    out = bytes(out[:max(n, 8)])
    if not allow_bare_lf:
        out = _fix_bare_lf(out)
    return out


def _has_bare_lf(s):
    i = s.find(b"\n")
    while i >= 0:
        if i == 0 or s[i - 1] != 13:
            return True
        i = s.find(b"\n", i + 1)
    return False


def _fix_bare_lf(s):
    if b"\n" not in s:
        return s
    b = bytearray(s)
    for i, c in enumerate(b):
        if c == 10 and (i == 0 or b[i - 1] != 13):
            b[i] = 0x6e
    return bytes(b)


_LINES = [b"", b".", b"..", b"...", b".\r", b"\r", b"\r.", b".\r.", b"a\rb", b".a", b"..a", b". ", b"text line",
          b"Received: from x", b"delivered-to: y", b"\r\r", b".\r\r", b"\r.\r", b"x\r", b"\r\r.", b"QUIT", b"."]


def gen_lf_message(rng, maxlen=4096):
    """a message as the queue should see it: LF-terminated lines, leading dots, bare CRs, 8-bit, NUL"""
    n = _sizeclass(rng, maxlen)
    out = bytearray()
    style = rng.randrange(3)
    while len(out) < n:
        r = rng.random()
        if r < 0.5:
            line = rng.choice(_LINES)
        elif r < 0.6:
            line = bytes(rng.choices(b".\ra", k=rng.randrange(0, 9)))
        elif r < 0.65:
            line = b"." * rng.randrange(0, 3) + b"L" * rng.randrange(990, 1040)
        elif style == 0:
            line = bytes(rng.choices(b"abc .\r", k=rng.randrange(0, 60)))
        elif style == 1:
            line = bytes(c for c in rng.choices(range(256), k=rng.randrange(0, 80)) if c != 10)
        else:
            line = bytes(rng.choices(b"abcdefghijklmnopqrstuvwxyz ", k=rng.randrange(0, 76)))
        out += line + b"\n"
    return bytes(out)


def _hopwords(s):
    l = s.lower()
    return l.count(b"received") + l.count(b"delivered")


def inclass(stream):
    if _has_bare_lf(stream):
        return "bare-lf"
    i = stream.find(b"\r")
    while i >= 0:
        if stream[i + 1:i + 2] != b"\n":
            return "bare-cr"
        i = stream.find(b"\r", i + 1)
    if stream.startswith(b".") or b"\n." in stream:
        return "leading-dot"
    return "plain"


def build_session(i):
    """-> dict(txs=[...], wire pieces, expected replies) for case i (pure function of seed and i)"""
    rng = core.case_rng(PROP, i, "bin")
    ntx = rng.randint(1, 5)
    txs = [{"kind": "probe", "stream": b".\r\n", "bodies": [b""], "amb": False}]
    for t in range(ntx):
        k = rng.random()
        if k < 0.03:
            # a looping message: 100 or more Received/Delivered-To fields.  It is refused (554, nothing queued), but its bytes
            # are still message bytes up to the terminator, and the next command is the one behind it (seed c05-s5)
            hop = [b"Received: from a by b; x", b"received: (qmail 1 invoked)", b"Delivered-To: u@x.test", b"DELIVERED-TO: v@y.test", b"Received:x"]
            lines = [rng.choice(hop) for _ in range(rng.choice([100, 100, 101, 130]))]
            for _ in range(rng.randint(0, 3)):
                lines.insert(rng.randrange(len(lines) + 1), b"Subject: s")
            inner = [b"", b"NOOP", b"HELP", b"MAIL FROM:<evil@evil.test>", b"RCPT TO:<victim@mx.test>", b"DATA", b"inner body", b"..stuffed", b"a\rb"]
            s_ = b"".join(l + b"\r\n" for l in lines + inner) + TERM
            txs.append({"kind": "looping", "stream": s_, "bodies": [], "amb": False})
            continue
        if k < 0.40:
            m = gen_lf_message(rng)
            s = smtpdata.ref_encode(m)
            r = smtpdata.ref_decode(s)
            if r[0] != "ok" or r[1] != m or r[2] != len(s):
                raise core.Inconclusive("reference codec is not self-consistent on %r" % (m[:80],))
            txs.append({"kind": "roundtrip", "stream": s, "bodies": [m], "amb": False})
            continue
        h = gen_hostile(rng, allow_bare_lf=(k > 0.88))
        if _hopwords(h) >= 90:
            h = h.replace(b"eceived", b"ecieved").replace(b"ECEIVED", b"ECIEVED").replace(b"elivered", b"eliverd").replace(b"ELIVERED", b"ELIVERD")
        full = h + TERM
        r = smtpdata.ref_decode(full)
        if r[0] == "ok":
            s = full[:r[2]]
            bodies = [r[1]]
            if r[3]:
                r2 = smtpdata.ref_decode(s, keepdot=True)
                if r2[1] != r[1]:
                    bodies.append(r2[1])
            txs.append({"kind": "hostile", "stream": s, "bodies": bodies, "amb": bool(r[3])})
        elif r[0] == "bare-lf":
            txs.append({"kind": "barelf", "stream": full, "bodies": [], "amb": False, "lfpos": r[2]})
            # decoy transaction behind it: must never be executed
            txs.append({"kind": "decoy", "stream": b"decoy\r\n.\r\n", "bodies": [], "amb": False})
            break
        else:
            raise core.Inconclusive("generator produced an unterminated stream")
    pieces = []       # (bytes, role) role: cmd | data
    expect = ["220"]
    expect_tx = [None]  # index of the transaction each expected reply belongs to
    dead = False
    for t, tx in enumerate(txs):
        eol = b"\n" if rng.random() < 0.1 else b"\r\n"
        pieces.append((b"MAIL FROM:<s%d@client.test>" % t + eol, "cmd"))
        pieces.append((b"RCPT TO:<r%d@mx.test>" % t + eol, "cmd"))
        pieces.append((b"DATA\r\n", "data-cmd"))
        pieces.append((tx["stream"], "data"))
        tx["sender"] = b"s%d@client.test" % t
        tx["rcpt"] = b"r%d@mx.test" % t
        if not dead:
            expect += ["250", "250", "354"]
            expect_tx += [t, t, t]
            if tx["kind"] == "barelf":
                expect.append("451")
                expect_tx.append(t)
                dead = True
            elif tx["kind"] == "looping":
                expect.append("554")
                expect_tx.append(t)
            else:
                expect.append("250")
                expect_tx.append(t)
        verb, code = rng.choice(TRAILERS)
        if verb is not None:
            pieces.append((verb + (b"\n" if rng.random() < 0.15 else b"\r\n"), "cmd"))
            if not dead:
                expect.append(code)
                expect_tx.append(t)
    quit_ = rng.random() < 0.8
    if quit_:
        pieces.append((b"QUIT\r\n", "cmd"))
        if not dead:
            expect.append("221")
            expect_tx.append(len(txs) - 1)
    mode = rng.choice(["whole", "whole", "exact", "exact", "exact", "lockstep"])
    style = rng.choice(["tiny", "small", "medium", "large", "cr"])
    return {"txs": txs, "pieces": pieces, "expect": expect, "expect_tx": expect_tx, "mode": mode,
            "style": style, "rng": rng, "dead": dead}


def cut(data, style, rng):
    """split data into chunks (every chunk <= 1024 bytes = one read() of the daemon)"""
    out = []
    i, n = 0, len(data)
    while i < n:
        if style == "tiny":
            k = rng.choice((1, 1, 1, 2, 3))
        elif style == "small":
            k = rng.randint(1, 9)
        elif style == "medium":
            k = rng.randint(1, 80)
        elif style == "large":
            k = rng.randint(1, 1024)
        else:   # cut right after every CR and right before every dot
            k = 1
            while i + k < n and k < 1024 and data[i + k - 1] != 13 and data[i + k] != 46:
                k += 1
        out.append(data[i:i + k])
        i += k
    return out


def codes_match(got, exp):
    if exp == "5xx":
        return 500 <= got <= 599
    return got == int(exp)


# ------------------------------------------------------------------ one whole-binary case

def run_case(b, home, rec, i, res, attempt=0):
    case = build_session(i)
    rng = case["rng"]
    smtpdrive.clear_dir(rec)
    env = b.env(home, {"QMAILQUEUE": QQREC, "NQV_REC": rec, "TCPREMOTEIP": "192.0.2.9",
                       "TCPREMOTEHOST": "client.test", "TCPLOCALHOST": "mx.test"})
    s = smtpdrive.Session([home + "/bin/qmail-smtpd"], env, timeout=120)
    fed = 0
    try:
        if case["mode"] == "whole":
            wire = b"".join(p for p, _ in case["pieces"])
            s.write(wire)
            fed = len(wire)
        elif case["mode"] == "exact":
            wire = b"".join(p for p, _ in case["pieces"])
            if case["style"] == "tiny" and len(wire) > 6000:
                case["style"] = "small"
            for c in cut(wire, case["style"], rng):
                if not s.write(c, sync=True):
                    break
                fed += len(c)
        else:
            # lock step for commands; the DATA stream itself goes in exact chunks and the
            # command after the terminator rides in the same write as the terminator's tail
            # (if the daemon stops answering, the rest is written without waiting: a correct
            # daemon still answers everything, a stuck one is judged on the missing replies)
            nrep = 1
            s.wait_replies(nrep, patience=PATIENCE)
            pend = b""
            alive = True
            for p, role in case["pieces"]:
                if role == "data":
                    chunks = cut(p, case["style"], rng)
                    pend = chunks.pop() if chunks else b""
                    for c in chunks:
                        if not s.write(c, sync=not s.stalled):
                            alive = False
                            break
                        fed += len(c)
                    if not alive:
                        break
                    continue
                if not s.write(pend + p, sync=not s.stalled):
                    alive = False
                    break
                fed += len(pend) + len(p)
                nrep += 1 + (1 if pend else 0)
                pend = b""
                if not s.stalled and not s.wait_replies(nrep, patience=PATIENCE) and not s.stalled:
                    alive = False
                    break
            if pend and alive:
                s.write(pend, sync=not s.stalled)
                fed += len(pend)
        rc = s.finish()
        if s.stalled:
            res.counters.inc("bin_lockstep_stalls")
    except smtpdrive.Timeout:
        if attempt == 0:
            return run_case(b, home, rec, i, res, attempt=1)
        res.inconclusive.append("C05 bin case %d: watchdog" % i)
        res.counters.inc("bin_watchdog")
        return
    res.evaluations += 1
    res.counters.inc("bin_sessions")
    res.counters.setdefault("bin_modes", {})
    res.counters["bin_modes"][case["mode"] + ("/" + case["style"] if case["mode"] != "whole" else "")] = \
        res.counters["bin_modes"].get(case["mode"] + ("/" + case["style"] if case["mode"] != "whole" else ""), 0) + 1
    res.counters.inc("bin_bytes_fed", fed)
    txs = case["txs"]
    wire = b"".join(p for p, _ in case["pieces"])

    def wit(t=None):
        w = {"part": "bin", "case_index": i, "mode": case["mode"], "style": case["style"],
             "wire_hex": wire[:3000].hex(), "wire_len": len(wire),
             "replies": [core.hx(x[1][:60]) for x in s.replies[:40]], "expected_codes": case["expect"][:40],
             "rc": rc, "stderr": core.hx(s.err[-600:])}
        if t is not None:
            w["transaction"] = t
            w["kind"] = txs[t]["kind"]
            w["stream"] = core.hx(txs[t]["stream"][:400])
            w["stream_hex"] = txs[t]["stream"][:1500].hex()
        return w

    if smtpdrive.sanitizer_hit(s.err, rc):
        res.violate("C20/sanitizer/qmail-smtpd/" + hrun.sanitizer_site(s.err.decode("latin1")),
                    "sanitizer report or fatal signal in qmail-smtpd (rc=%s)" % rc, wit())
        return
    codes = res.counters.setdefault("bin_reply_codes", {})
    for c, _ in s.replies:
        codes[str(c)] = codes.get(str(c), 0) + 1
    rcs = res.counters.setdefault("bin_exit_codes", {})
    rcs[str(rc)] = rcs.get(str(rc), 0) + 1

    # ---- replies, in order: the first difference names the transaction that went wrong
    got = [c for c, _ in s.replies]
    exp = case["expect"]
    bad_tx = None
    for k in range(max(len(got), len(exp))):
        if k >= len(got) or k >= len(exp) or not codes_match(got[k], exp[k]):
            bad_tx = case["expect_tx"][min(k, len(exp) - 1)] or 0
            tx = txs[bad_tx]
            cls = inclass(tx["stream"])
            if tx["kind"] == "barelf":
                if k < len(exp) and exp[k] == "451":
                    rule = "bare-lf-not-451"
                else:
                    rule = "bare-lf-session-continued"
            elif k >= len(got):
                rule = "terminator-missed-or-session-lost"
            elif k >= len(exp):
                rule = "message-bytes-read-as-commands"
            elif k < len(exp) and exp[k] == "250" and k > 0 and exp[k - 1] == "354":
                rule = "terminated-message-not-acknowledged"
            else:
                rule = "resume-position-wrong"
            res.violate("C05/bin/%s/%s" % (rule, cls),
                        "reply %d: got %s, expected %s" % (k, got[k] if k < len(got) else None,
                                                           exp[k] if k < len(exp) else None), wit(bad_tx))
            break
    if bad_tx is not None:
        return
    if s.obuf:
        res.violate("C05/bin/partial-reply-line", "unterminated output %r" % s.obuf[:60], wit())
        return

    # ---- what reached the queue
    recs = smtpdrive.read_records(rec)
    done = [r for r in recs if r.complete]
    want = [t for t, tx in enumerate(txs) if tx["kind"] in ("probe", "roundtrip", "hostile")]
    if case["dead"]:
        t_lf = next(t for t, tx in enumerate(txs) if tx["kind"] == "barelf")
        res.counters.inc("bin_bare_lf_sessions")
        if len(done) > len(want):
            res.violate("C05/bin/bare-lf-message-queued/bare-lf",
                        "a completed envelope reached the queue for a stream with a bare LF (or for the commands behind it)",
                        wit(t_lf))
            return
        nloop = sum(1 for tx in txs if tx["kind"] == "looping")     # each leaves a started, never completed submission
        if len(recs) > len(want) + 1 + nloop:
            res.violate("C05/bin/bare-lf-session-continued/bare-lf", "transactions behind the 451 were started", wit(t_lf))
            return
    if len(done) != len(want):
        res.violate("C05/bin/acknowledged-but-not-submitted/%s" % ("bare-lf" if case["dead"] else "any"),
                    "%d completed submissions for %d acknowledged messages" % (len(done), len(want)), wit())
        return
    prefix = None
    for r, t in zip(done, want):
        tx = txs[t]
        cls = inclass(tx["stream"])
        res.counters.inc("bin_messages_" + tx["kind"])
        if r.sender != tx["sender"] or r.rcpts != [tx["rcpt"]]:
            res.violate("C05/bin/envelope-differs/" + cls, "envelope %r %r" % (r.sender, r.rcpts), wit(t))
            return
        if tx["kind"] == "probe":
            prefix = r.msg
            if not (prefix.startswith(b"Received:") and prefix.endswith(b"\n")):
                res.violate("C05/bin/empty-message-not-empty/plain",
                            "empty message (terminator directly after DATA) was stored as %r" % prefix[:200], wit(t))
                return
            skel = smtpdrive.skeleton(prefix)
            continue
        okb = None
        for body in tx["bodies"]:
            if len(r.msg) >= len(body) and r.msg.endswith(body) and \
                    smtpdrive.skeleton(r.msg[:len(r.msg) - len(body)]) == skel:
                okb = body
                break
        if okb is None:
            w = wit(t)
            w["recorded_body_guess"] = core.hx(r.msg[len(prefix):][:400])
            w["recorded_hex"] = r.msg[:2000].hex()
            w["expected_body"] = core.hx(tx["bodies"][0][:400])
            rule = "roundtrip-differs" if tx["kind"] == "roundtrip" else "decoded-bytes-differ"
            res.violate("C05/bin/%s/%s" % (rule, cls), "bytes handed to the queue differ from the reference decoding", w)
            return
        if tx["amb"] and len(tx["bodies"]) > 1:
            res.counters.inc("bin_ambiguous_dot_cr_" + ("stripped" if okb is tx["bodies"][0] else "kept"))
        if cls != "plain":
            res.nontrivial(tx["stream"])
        if len(tx["stream"]) < 40 and cls != "plain":
            res.sample({"stream": core.hx(tx["stream"]), "queued_body": core.hx(okb), "kind": tx["kind"],
                        "feeding": case["mode"]}, cap=4)
    if case["dead"]:
        res.nontrivial(txs[t_lf]["stream"])
        if len(txs[t_lf]["stream"]) < 60:
            res.sample({"stream": core.hx(txs[t_lf]["stream"]), "reply": "451, closed, nothing submitted",
                        "kind": "barelf"}, cap=6)


def bin_worker(bdir, lo, hi):
    res = core.Result()
    b = build.Build("asan", bdir)
    home = build.mktemp("nqv-c05-")
    try:
        rec = os.path.join(home, "rec")
        sandbox.make_home(b, home, controls={"me": "mx.test"}, bins=("qmail-smtpd",), queue=False)
        os.makedirs(rec)
        for i in range(lo, hi):
            run_case(b, home, rec, i, res)
            if res.counters.get("bin_watchdog", 0) >= 3:
                res.inconclusive.append("C05 bin worker %d..%d gave up at case %d after 3 watchdog expiries" % (lo, hi, i))
                break
            if res.counters.get("violations_raw", 0) >= 10 or res.counters.get("bin_lockstep_stalls", 0) >= 2:
                # the verdict is decided; do not spend the patience of every remaining lock-step session
                res.counters.inc("bin_workers_stopped_early_after_violations")
                res.counters.inc("bin_sessions_not_run", hi - i - 1)
                break
    finally:
        shutil.rmtree(home, ignore_errors=True)   # pool workers do not run atexit handlers
    return res


# ------------------------------------------------------------------ main

def harness_jobs(tier):
    maxL = 10 if tier == "quick" else 12
    nrand = core.scaled(400000 if tier == "quick" else 10000000)
    jobs = []
    for L in range(0, maxL + 1):
        n = 5 ** L
        k = 1 if n < 20000 else min(256, max(16, n // 600000))
        for lo, hi in core.chunks(n, k):
            jobs.append(["enum", L, lo, hi])
    nr = 16 if tier == "quick" else 64
    for j in range(nr):
        jobs.append(["rand", nrand // nr, core.seed() * 1000 + j, 4096])
    # longest first, so the pool drains evenly
    jobs.sort(key=lambda a: -(a[3] - a[2]) if a[0] == "enum" else 0)
    return jobs, maxL, nrand


def main(tier):
    t0 = time.time()
    if not os.path.exists(QQREC):
        raise core.Inconclusive("bin/qq-rec missing: run the MANIFEST setup_cmd")
    b = build.vbuild("asan")
    hs = b.compile_harness(os.path.join(core.VERIF, "harness/h_smtpd_blast.c"), extra_objs=SMTPD_OBJS)
    jobs, maxL, nrand = harness_jobs(tier)
    res = hrun.run_many(hs, jobs, b.env(), timeout=3000 if tier == "thorough" else 600)
    nsess = core.scaled(6000 if tier == "quick" else 150000)
    bres = core.pmap(bin_worker, [(b.dir, lo, hi) for lo, hi in core.chunks(nsess, core.JOBS * 3)], timeout=3000)
    del res.samples[5:]
    res.merge(bres)
    res.counters["harness_cases"] = res.counters.pop("cases", 0)
    rule = ("(a) harness: every string over {CR,LF,'.','a','R'} of length <= %d, each with the terminator + a following command "
            "(whole read, 1-byte reads, every split for length 2..6), without terminator (EOF) and with '.CRLF' glued on, plus %d "
            "random streams <= 4 KB (three alphabets, buffer-boundary sizes, 'received'/'delivered' words), through the real blast(); "
            "(b,c) %d sessions of the real qmail-smtpd binary, 1 probe + 1..5 transactions each (40%% round trips of generated "
            "LF-line messages through the reference encoder, 48%% hostile conforming streams, 12%% streams with a bare LF), fed whole / "
            "in exact read chunks (1-3, <=9, <=80, <=1024 bytes, cut at every CR and dot) / in lock step, a trailing "
            "NOOP/RSET/HELP/VRFY/unknown after each terminator. Non-trivial = stream contains a bare CR, a bare LF or a line "
            "starting with a dot (harness: contains CR, LF or '.'); distinct = distinct streams (harness hash set saturates => undercount)."
            % (maxL, nrand, nsess))
    extra = {"exhaustive": True,
             "exhaustive_scope": "all %d strings of length <= %d over a 5-symbol alphabet (in-process blast())" % (
                 sum(5 ** L for L in range(maxL + 1)), maxL)}
    return core.finish(PROP, tier, "exploration", res, rule, t0, extra=extra, assumptions=[
        "reference decoder/encoder = RFC 5321 4.5.2 (harness/smtpcodec.h, nqv/refmodel/smtpdata.py), stream start counts as after CR LF",
        "a line starting '. CR <non-LF>' may be stored with or without its dot (statement ambiguous for non-conforming senders)",
        "a message counts as submitted only if the envelope stream handed to $QMAILQUEUE is complete (closing NUL)",
        "the daemon's own Received field is learned from an empty probe message at the start of each session and compared by shape "
        "(digits and month name blanked)",
        "exact chunking = the next chunk is written only after FIONREAD on the pipe shows the daemon has read the previous one"])


def replay(path):
    with open(path) as f:
        w = json.load(f)
    if "seed" in w:
        os.environ["VERIF_SEED"] = str(w["seed"])
    print("replaying %s key=%s" % (path, w.get("key")))
    b = build.vbuild("asan")
    res = core.Result()
    for c in w.get("cases", []):
        wit = c.get("witness") or {}
        if wit.get("part") == "bin":
            home = build.mktemp("nqv-c05-")
            rec = os.path.join(home, "rec")
            sandbox.make_home(b, home, controls={"me": "mx.test"}, bins=("qmail-smtpd",), queue=False)
            os.makedirs(rec)
            run_case(b, home, rec, int(wit["case_index"]), res)
        elif wit.get("harness_args"):
            hs = b.compile_harness(os.path.join(core.VERIF, "harness/h_smtpd_blast.c"), extra_objs=SMTPD_OBJS)
            res.merge(hrun.run_one(hs, wit["harness_args"].split(" "), b.env(), 3000))
    for v in res.violations:
        print("REPRODUCED key=%s why=%s" % (v["key"], v["why"]))
        print(json.dumps(v["witness"], indent=1, default=core._json_default)[:3000])
    if not res.violations:
        print("not reproduced on this tree (%d inconclusive)" % len(res.inconclusive))
    return 1 if res.violations else (2 if res.inconclusive else 0)
