"""C06 - outbound SMTP DATA encoding (DESIGN.md section 3, C06).
(a) real qmail-remote.c blast() in-process, bounded-exhaustive + random, reference decoder
(b) the same payloads through the real qmail-smtpd.c blast() (own server)
(c) real qmail-remote binary -> scripted SMTP server over loopback."""
import os
import subprocess
import time

from .. import core, build, hrun, sandbox, smtpsink
from ..refmodel import smtpdata

PROP = "C06"
REMOTE_OBJS = ("control.o constmap.o timeoutread.o timeoutwrite.o timeoutconn.o tcpto.o dns.o ip.o "
               "ipalloc.o ipme.o quote.o ndelay.a case.a sig.a open.a lock.a getln.a stralloc.a "
               "substdio.a error.a str.a fs.a auto_qmail.o").split()
SMTPD_OBJS = ("rcpthosts.o commands.o ip.o ipme.o ipalloc.o control.o constmap.o received.o "
              "date822fmt.o cdb.a fd.a wait.a datetime.a getln.a open.a sig.a case.a env.a "
              "stralloc.a substdio.a error.a str.a fs.a auto_qmail.o").split()


def e2e_worker(bdir, lo, hi, tier):
    """real qmail-remote -> loopback sink, messages lo..hi of the seeded stream"""
    res = core.Result()
    b = build.Build("asan", bdir)
    home = build.mktemp("nqv-c06-")
    sink = smtpsink.Sink()
    try:
        sandbox.make_home(b, home, controls={"me": "client.test", "timeoutremote": 5,
                                             "smtproutes": ":127.0.0.1:%d" % sink.port},
                          bins=("qmail-remote",))
        for i in range(lo, hi):
            rng = core.case_rng(PROP, i, "e2e")
            msg = smtpdata.gen_message(rng)
            mf = home + "/msg"
            with open(mf, "wb") as f:
                f.write(msg)
            with open(home + "/queue/lock/tcpto", "wb") as f:
                f.write(b"\0" * 1024)
            sink.start(smtpsink.Script())
            with open(mf, "rb") as fin:
                rc, out, err = core.run_with_watchdog(
                    [home + "/bin/qmail-remote", "remote.test", "s@client.test", "r@remote.test"],
                    60, env=b.env(home), stdin=fin)
            tr = sink.finish()
            res.evaluations += 1
            if rc is None:
                res.inconclusive.append("qmail-remote watchdog")
                continue
            if rc != 0 or b"Sanitizer" in err:
                res.violate("C20/sanitizer/qmail-remote/" + hrun.sanitizer_site(err.decode("latin1")),
                            "qmail-remote died rc=%s" % rc, {"msg": core.hx(msg[:300]), "stderr": err[-1500:].decode("latin1")})
                continue
            cls = "cr-dot" if b"\r." in msg else "other"
            partial = len(msg) > 0 and not msg.endswith(b"\n") and not msg.endswith(b"\r")
            reports = out.split(b"\0")
            msgrep = reports[1] if len(reports) > 1 else b""
            wit = {"msg": core.hx(msg[:400]), "msg_hex": msg[:600].hex(), "case_index": i, "payload": core.hx((tr.payload or b"")[:400]),
                   "after": core.hx(tr.after[:100]), "commands": [core.hx(c) for c in tr.commands[:10]],
                   "reports": core.hx(out[:300])}
            if any(x in msg for x in (b"\r", b"\n.", )) or msg.startswith(b"."):
                res.nontrivial(msg)
            if tr.payload is None or not tr.payload.endswith(b"\r\n.\r\n") and tr.payload != b".\r\n":
                # no complete payload reached the server: only legitimate for a partial last line
                if not msg.endswith(b"\n") and msg and msgrep.startswith(b"D"):
                    res.counters.inc("partial_line_refused")
                    continue
                if msgrep.startswith(b"K"):
                    res.violate("C06/e2e/K-without-complete-payload/" + cls, "success reported although the server saw no complete payload", wit)
                else:
                    res.violate("C06/e2e/no-payload/" + cls, "complete message not transmitted", wit)
                continue
            # the sink stopped at the FIRST terminator: everything after must be QUIT only
            cmds_after = tr.commands[tr.commands.index(b"DATA") + 1:] if b"DATA" in tr.commands else []
            if cmds_after != [b"QUIT"] or tr.after not in (b"",):
                res.violate("C06/e2e/content-read-as-commands/" + cls,
                            "bytes of the message were received after the end-of-data sequence", wit)
                continue
            r = smtpdata.ref_decode(tr.payload)
            if r[0] != "ok" or r[2] != len(tr.payload):
                res.violate("C06/e2e/%s/%s" % (r[0], cls), "payload framing", wit)
                continue
            g = smtpdata.c06_grade(msg, r[1])
            if g:
                res.violate("C06/e2e/%s/%s" % (g, cls), "receiver reconstructs a different message", wit)
                continue
            if not msgrep.startswith(b"K"):
                res.violate("C06/e2e/not-K-after-accept/" + cls, "server accepted but report is %r" % msgrep[:40], wit)
                continue
            res.counters.inc("e2e_ok")
            res.sample({"e2e_message": core.hx(msg[:60]), "payload": core.hx(tr.payload[:80])}, cap=2)
    finally:
        sink.close()
    return res


def rspawn_e2e_worker(bdir, lo, hi, tier):
    """'for every message in the queue': the real qmail-rspawn starts the real qmail-remote on message files
    below queue/mess, one long-lived spawner handling several deliveries (the same message to several recipients
    in a row, another message in between) -> loopback sink; every payload must decode to ITS queue file."""
    import select as _select
    import subprocess
    res = core.Result()
    b = build.Build("asan", bdir)
    home = build.mktemp("nqv-c06r-")
    sink = smtpsink.Sink()
    try:
        sandbox.make_home(b, home, controls={"me": "client.test", "timeoutremote": 5, "smtproutes": ":127.0.0.1:%d" % sink.port},
                          bins=("qmail-rspawn", "qmail-remote"))
        for i in range(lo, hi):
            rng = core.case_rng(PROP, i, "rspawn")
            msgs = {}
            for sub, num in ((0, 23), (1, 24)):
                m = smtpdata.gen_message(rng)
                if not m.endswith(b"\n"):
                    m += b"\n"
                if len(m) < 8:
                    m = b"Subject: short %d\n\n" % num + m
                os.makedirs("%s/queue/mess/%d" % (home, sub), exist_ok=True)
                fn = "%s/queue/mess/%d/%d" % (home, sub, num)
                with open(fn, "wb") as f:
                    f.write(m)
                os.chown(fn, sandbox.uid("q"), sandbox.gid("q"))
                msgs[b"%d/%d" % (sub, num)] = m
            with open(home + "/queue/lock/tcpto", "wb") as f:
                f.write(b"\0" * 1024)
            order = rng.choice([[b"0/23", b"0/23"], [b"0/23", b"0/23", b"0/23"], [b"0/23", b"1/24", b"0/23"], [b"1/24", b"0/23", b"0/23", b"1/24"]])
            errf = open(home + "/rspawn.err", "wb+")
            p = subprocess.Popen([home + "/bin/qmail-rspawn"], stdin=subprocess.PIPE, stdout=subprocess.PIPE, stderr=errf,
                                 env=b.env(home, {"PATH": home + "/bin:" + os.environ.get("PATH", "/usr/bin:/bin")}))   # as qmail-start(8) runs it
            try:
                buf = bytearray()
                got_first = False
                for k, mid in enumerate(order):
                    sink.start(smtpsink.Script())
                    slot = rng.randrange(0, 4)
                    p.stdin.write(bytes([slot]) + mid + b"\0s@client.test\0r%d@remote.test\0" % k)
                    p.stdin.flush()
                    t_end = time.time() + 60
                    rep = None
                    while time.time() < t_end and rep is None:
                        start = 0 if got_first else 1
                        if len(buf) > start:
                            e = buf.find(b"\0", start + 1)
                            if e >= 0:
                                rep = bytes(buf[start:e])
                                del buf[:e + 1]
                                got_first = True
                                break
                        r, _, _ = _select.select([p.stdout], [], [], 1.0)
                        if r:
                            chunk = os.read(p.stdout.fileno(), 65536)
                            if not chunk:
                                break
                            buf.extend(chunk)
                    tr = sink.finish()
                    res.evaluations += 1
                    msg = msgs[mid]
                    wit = {"case": i, "order": [x.decode() for x in order], "delivery": k, "message_id": mid.decode(), "msg_hex": msg[:400].hex(),
                           "payload": core.hx((tr.payload or b"")[:300]), "report": core.hx((rep or b"")[:120])}
                    if rep is None:
                        errf.seek(0)
                        e_ = errf.read().decode("latin1")
                        if "Sanitizer" in e_:
                            res.violate("C20/sanitizer/qmail-rspawn/" + hrun.sanitizer_site(e_), "qmail-rspawn died", wit)
                        else:
                            res.inconclusive.append("no report from qmail-rspawn for delivery %d of case %d" % (k, i))
                        break
                    if rep[:1] != bytes([slot]):
                        res.violate("C06/rspawn/report-for-another-slot", "report carries delivery number %r, command had %d" % (rep[:1], slot), wit)
                        break
                    if tr.payload is None or not tr.payload.endswith(b"\r\n.\r\n"):
                        if rep[1:2] == b"K":
                            res.violate("C06/rspawn/K-without-complete-payload", "success reported although the server saw no complete payload", wit)
                        else:
                            res.violate("C06/rspawn/no-payload", "delivery %d of a queued message transmitted no complete payload" % k, wit)
                        break
                    r_ = smtpdata.ref_decode(tr.payload)
                    if r_[0] != "ok" or r_[2] != len(tr.payload):
                        res.violate("C06/rspawn/%s" % r_[0], "payload framing", wit)
                        break
                    g = smtpdata.c06_grade(msg, r_[1])
                    if g:
                        res.violate("C06/rspawn/%s/%s" % (g, "repeat-of-same-message" if mid in order[:k] else "first-delivery"),
                                    "delivery %d (message %s, order %r): the receiver reconstructs %d bytes, the queue file has %d"
                                    % (k, mid.decode(), [x.decode() for x in order], len(r_[1]), len(msg)), wit)
                        break
                    res.counters.inc("rspawn_deliveries_ok")
                    res.nontrivial("rspawn", i, k)
            finally:
                try:
                    p.stdin.close()
                except OSError:
                    pass
                try:
                    p.wait(timeout=20)
                except subprocess.TimeoutExpired:
                    p.kill()
                    p.wait()
                p.stdout.close()
                errf.close()
    finally:
        sink.close()
    return res


def twoaddr_worker(bdir, lo, hi, tier):
    """a destination with two addresses (DNS stub): the first server defers at some phase, the client may go on to the
    second; whatever payload ANY server accepts must be the queued message"""
    res = core.Result()
    b = build.Build("asan", bdir)
    home = build.mktemp("nqv-c06m-")
    s1 = s2 = None
    for _ in range(20):
        try:
            s1 = smtpsink.Sink("127.0.0.1")
            s2 = smtpsink.Sink("127.0.0.2", s1.port)
            break
        except OSError:
            if s1:
                s1.close()
            s1 = s2 = None
    if s1 is None:
        res.inconclusive.append("could not bind one port on 127.0.0.1 and 127.0.0.2")
        return res
    try:
        sandbox.make_home(b, home, controls={"me": "client.test", "timeoutremote": 5, "timeoutconnect": 3,
                                             "smtproutes": ":twoaddr.c06.test:%d" % s1.port}, bins=("qmail-remote",))
        for i in range(lo, hi):
            rng = core.case_rng(PROP, i, "twoaddr")
            msg = smtpdata.gen_message(rng)
            if len(msg) < 4:
                msg = b"Subject: two\n\n" + msg + b"\n"
            mf = home + "/msg"
            with open(mf, "wb") as f:
                f.write(msg)
            with open(home + "/queue/lock/tcpto", "wb") as f:
                f.write(b"\0" * 1024)
            where = rng.choice(["dot", "dot", "dot", "data", "mail", "rcpt", "greet", "helo", "refused", "refused"])
            sandbox.write_control(home, "smtproutes", ":%s.c06.test:%d" % ("refused" if where == "refused" else "twoaddr", s1.port))
            code = rng.choice([b"451", b"421", b"452"])
            kw = {where: code + b" please come back later\r\n"} if where not in ("rcpt", "refused") else ({"rcpt": [code + b" later\r\n"]} if where == "rcpt" else {})
            s1.start(smtpsink.Script(**kw), accept_timeout=10.0 if where != "refused" else 0.5)
            s2.start(smtpsink.Script(), accept_timeout=2.0 if where != "refused" else 10.0)
            with open(mf, "rb") as fin:
                rc, out, err = core.run_with_watchdog([home + "/bin/qmail-remote", "remote.test", "s@client.test", "r@remote.test"],
                                                      60, env=b.env(home), stdin=fin)
            t1 = s1.finish(timeout=15)
            t2 = s2.finish(timeout=6)
            res.evaluations += 1
            if rc is None:
                res.inconclusive.append("qmail-remote watchdog (two addresses)")
                continue
            if rc != 0 or b"Sanitizer" in err:
                res.violate("C20/sanitizer/qmail-remote/" + hrun.sanitizer_site(err.decode("latin1")), "qmail-remote died rc=%s" % rc,
                            {"msg": core.hx(msg[:300]), "stderr": err[-1500:].decode("latin1")})
                continue
            if t1.phase_reached == "no-connection" and t2.phase_reached == "no-connection":
                res.inconclusive.append("no server was contacted (resolver stub not reached?): %r" % out[:80])
                continue
            res.counters.inc("twoaddr_first_server_deferred_at_" + where)
            if t2.phase_reached != "no-connection":
                res.counters.inc("twoaddr_second_server_contacted")
            reports = out.split(b"\0")
            msgrep = reports[-2] if len(reports) > 1 else b""
            wit = {"msg_hex": msg[:400].hex(), "first_server_defers_at": where, "reports": core.hx(out[:200]),
                   "payload_first": core.hx((t1.payload or b"")[:120]), "payload_second": core.hx((t2.payload or b"")[:120])}
            accepted_ok = False
            if where == "refused" and not msgrep.startswith(b"K") and msg.endswith(b"\n"):
                res.violate("C06/twoaddr/no-payload/first-address-refused", "the first address refuses the connection, the second accepts everything, "
                            "yet the report is %r" % msgrep[:60], wit)
                continue
            for name, tr, accepts in (("first", t1, where not in ("dot",)), ("second", t2, True)):
                if tr.payload is None:
                    continue
                if not tr.payload.endswith(b"\r\n.\r\n") and tr.payload != b".\r\n":
                    continue          # cut short: nothing was accepted there
                r_ = smtpdata.ref_decode(tr.payload)
                g = smtpdata.c06_grade(msg, r_[1]) if r_[0] == "ok" and r_[2] == len(tr.payload) else r_[0]
                if g:
                    res.violate("C06/twoaddr/%s-server-got-another-message/%s" % (name, g),
                                "the %s server received a complete DATA payload that does not decode to the queued message (%d bytes for %d)"
                                % (name, len(r_[1]) if r_[0] == "ok" else -1, len(msg)), wit)
                    break
                if accepts:
                    accepted_ok = True
            else:
                if msgrep.startswith(b"K") and not accepted_ok:
                    res.violate("C06/twoaddr/K-without-complete-payload", "success reported although no server accepted the message", wit)
                else:
                    res.counters.inc("twoaddr_ok")
                    res.nontrivial("twoaddr", i)
    finally:
        s1.close()
        s2.close()
    return res


def main(tier):
    t0 = time.time()
    b = build.vbuild("asan")
    hb = b.compile_harness(os.path.join(core.VERIF, "harness/h_remote_blast.c"), extra_objs=REMOTE_OBJS, libs=["-lresolv"])
    hs = b.compile_harness(os.path.join(core.VERIF, "harness/h_smtpd_blast.c"), extra_objs=SMTPD_OBJS)
    env = b.env()
    maxL = 11 if tier == "quick" else 13
    emitL = 8 if tier == "quick" else 10
    nrand = core.scaled(300000 if tier == "quick" else 20000000)
    ne2e = core.scaled(160 if tier == "quick" else 4000)
    emitdir = build.mktemp("nqv-c06-emit-")
    jobs = []
    for L in range(0, maxL + 1):
        n = 4 ** L
        k = 1 if n < 4096 else min(64, max(16, n // 200000))
        for idx, (lo, hi) in enumerate(core.chunks(n, k)):
            a = ["enum", L, lo, hi]
            if L <= emitL:
                a.append(os.path.join(emitdir, "e%d_%d.bin" % (L, idx)))
            jobs.append(a)
    for j in range(16):
        jobs.append(["rand", nrand // 16, core.seed() * 1000 + j, 65536])
    # payloads kept for the cross-check are bounded (about 16 KB each): a thorough run must not fill the disk
    nemit = min(nrand // 16, 4000)
    for j in range(4):
        jobs.append(["rand", nemit, core.seed() * 1000 + 500 + j, 65536, os.path.join(emitdir, "r%d.bin" % j)])
    res = hrun.run_many(hb, jobs, env, timeout=1800 if tier == "thorough" else 600)
    # (b) cross-check through the package's own server decoder
    xjobs = [["xcheck", os.path.join(emitdir, f)] for f in sorted(os.listdir(emitdir))]
    xres = hrun.run_many(hs, xjobs, env, timeout=900)
    # C05-keyed rule names coming out of the xcheck are C06 violations here (own server vs own client)
    for v in xres.violations:
        v["key"] = v["key"].replace("C05/", "C06/xcheck/")
    res.counters.inc("xchecked_payloads", xres.counters.get("xchecked_payloads", 0))
    res.violations.extend(xres.violations)
    res.inconclusive.extend(xres.inconclusive)
    # (c) end to end
    eres = core.pmap(e2e_worker, [(b.dir, lo, hi, tier) for lo, hi in core.chunks(ne2e, 16)], timeout=1200)
    res.merge(eres)
    # (d) through the real spawner: several deliveries of the same queue file by one qmail-rspawn
    nr = core.scaled(96 if tier == "quick" else 2400)
    rres = core.pmap(rspawn_e2e_worker, [(b.dir, lo, hi, tier) for lo, hi in core.chunks(nr, 16)], timeout=1200)
    res.merge(rres)
    # (e) a destination with two addresses, the first one deferring (resolver stub on 127.0.0.1:53)
    from .. import dnsstub
    try:
        stub = dnsstub.Stub()
    except OSError:
        stub = None
        res.counters.inc("resolver_stub_port_taken_part_e_skipped")
    if stub is not None:
        try:
            nt = core.scaled(64 if tier == "quick" else 1600)
            res.merge(core.pmap(twoaddr_worker, [(b.dir, lo, hi, tier) for lo, hi in core.chunks(nt, 16)], timeout=1200))
            res.counters.inc("resolver_stub_queries", stub.queries)
        finally:
            stub.close()
    if not res.counters.get("rspawn_deliveries_ok"):
        res.inconclusive.append("no delivery through qmail-rspawn completed")
    rule = ("(a) every string over {CR,LF,'.','a'} of length <= %d through the real blast() under whole / 1-byte / "
            "every split (len<=7) read chunkings + %d random messages up to 64 KB; (b) payloads of length <= %d re-decoded by the "
            "real qmail-smtpd blast(); (c) %d messages real qmail-remote -> loopback server; (d) real qmail-rspawn starting the real "
            "qmail-remote on queue files, 2-4 deliveries per spawner incl. repeats of one message; (e) a destination with two addresses "
            "(resolver stub), the first server deferring at a random phase. Non-trivial = message contains "
            "CR, LF or '.'; distinct = distinct input strings (hash set in the harness, saturating => undercount)." % (maxL, nrand, emitL, ne2e))
    extra = {"exhaustive": True, "exhaustive_scope": "all strings of length <= %d over a 4-symbol alphabet" % maxL}
    return core.finish(PROP, tier, "exploration", res, rule, t0, extra=extra, assumptions=[
        "reference decoder = RFC 5321 4.5.2 (harness/smtpcodec.h, refmodel/smtpdata.py)",
        "byte identity demanded for CR-free input, CRLF->LF identity when every CR precedes LF, content and LF-boundary "
        "conservation for bare-CR input (statement fixes nothing stricter)"])


def replay(path):
    import json
    with open(path) as f:
        w = json.load(f)
    print(json.dumps(w, indent=1)[:4000])
    print("re-run: ./check C06 --tier %s with VERIF_SEED=%s" % (w.get("tier"), w.get("seed")))
    return main(w.get("tier", "quick"))
