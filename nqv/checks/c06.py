"""C06 - outbound SMTP DATA encoding (DESIGN.md section 3, C06).
(a) real qmail-remote.c blast() in-process, bounded-exhaustive + random, reference decoder
(b) the same payloads through the real qmail-smtpd.c blast() (own server)
(c) real qmail-remote binary -> scripted SMTP server over loopback."""
import os
import subprocess
import time

from .. import core, build, hrun, sandbox, smtpsink
from ..refmodel import smtpdata

PROP = "C06"
REMOTE_OBJS = ("control.o constmap.o timeoutread.o timeoutwrite.o timeoutconn.o tcpto.o dns.o ip.o "
               "ipalloc.o ipme.o quote.o ndelay.a case.a sig.a open.a lock.a getln.a stralloc.a "
               "substdio.a error.a str.a fs.a auto_qmail.o").split()
SMTPD_OBJS = ("rcpthosts.o commands.o ip.o ipme.o ipalloc.o control.o constmap.o received.o "
              "date822fmt.o cdb.a fd.a wait.a datetime.a getln.a open.a sig.a case.a env.a "
              "stralloc.a substdio.a error.a str.a fs.a auto_qmail.o").split()


def e2e_worker(bdir, lo, hi, tier):
    """real qmail-remote -> loopback sink, messages lo..hi of the seeded stream"""
    res = core.Result()
    b = build.Build("asan", bdir)
    home = build.mktemp("nqv-c06-")
    sink = smtpsink.Sink()
    try:
        sandbox.make_home(b, home, controls={"me": "client.test", "timeoutremote": 5,
                                             "smtproutes": ":127.0.0.1:%d" % sink.port},
                          bins=("qmail-remote",))
        for i in range(lo, hi):
            rng = core.case_rng(PROP, i, "e2e")
            msg = smtpdata.gen_message(rng)
            mf = home + "/msg"
            with open(mf, "wb") as f:
                f.write(msg)
            with open(home + "/queue/lock/tcpto", "wb") as f:
                f.write(b"\0" * 1024)
            sink.start(smtpsink.Script())
            with open(mf, "rb") as fin:
                rc, out, err = core.run_with_watchdog(
                    [home + "/bin/qmail-remote", "remote.test", "s@client.test", "r@remote.test"],
                    60, env=b.env(home), stdin=fin)
            tr = sink.finish()
            res.evaluations += 1
            if rc is None:
                res.inconclusive.append("qmail-remote watchdog")
                continue
            if rc != 0 or b"Sanitizer" in err:
                res.violate("C20/sanitizer/qmail-remote/" + hrun.sanitizer_site(err.decode("latin1")),
                            "qmail-remote died rc=%s" % rc, {"msg": core.hx(msg[:300]), "stderr": err[-1500:].decode("latin1")})
                continue
            cls = "cr-dot" if b"\r." in msg else "other"
            partial = len(msg) > 0 and not msg.endswith(b"\n") and not msg.endswith(b"\r")
            reports = out.split(b"\0")
            msgrep = reports[1] if len(reports) > 1 else b""
            wit = {"msg": core.hx(msg[:400]), "msg_hex": msg[:600].hex(), "case_index": i, "payload": core.hx((tr.payload or b"")[:400]),
                   "after": core.hx(tr.after[:100]), "commands": [core.hx(c) for c in tr.commands[:10]],
                   "reports": core.hx(out[:300])}
            if any(x in msg for x in (b"\r", b"\n.", )) or msg.startswith(b"."):
                res.nontrivial(msg)
            if tr.payload is None or not tr.payload.endswith(b"\r\n.\r\n") and tr.payload != b".\r\n":
                # no complete payload reached the server: only legitimate for a partial last line
                if not msg.endswith(b"\n") and msg and msgrep.startswith(b"D"):
                    res.counters.inc("partial_line_refused")
                    continue
                if msgrep.startswith(b"K"):
                    res.violate("C06/e2e/K-without-complete-payload/" + cls, "success reported although the server saw no complete payload", wit)
                else:
                    res.violate("C06/e2e/no-payload/" + cls, "complete message not transmitted", wit)
                continue
            # the sink stopped at the FIRST terminator: everything after must be QUIT only
            cmds_after = tr.commands[tr.commands.index(b"DATA") + 1:] if b"DATA" in tr.commands else []
            if cmds_after != [b"QUIT"] or tr.after not in (b"",):
                res.violate("C06/e2e/content-read-as-commands/" + cls,
                            "bytes of the message were received after the end-of-data sequence", wit)
                continue
            r = smtpdata.ref_decode(tr.payload)
            if r[0] != "ok" or r[2] != len(tr.payload):
                res.violate("C06/e2e/%s/%s" % (r[0], cls), "payload framing", wit)
                continue
            g = smtpdata.c06_grade(msg, r[1])
            if g:
                res.violate("C06/e2e/%s/%s" % (g, cls), "receiver reconstructs a different message", wit)
                continue
            if not msgrep.startswith(b"K"):
                res.violate("C06/e2e/not-K-after-accept/" + cls, "server accepted but report is %r" % msgrep[:40], wit)
                continue
            res.counters.inc("e2e_ok")
            res.sample({"e2e_message": core.hx(msg[:60]), "payload": core.hx(tr.payload[:80])}, cap=2)
    finally:
        sink.close()
    return res


def main(tier):
    t0 = time.time()
    b = build.vbuild("asan")
    hb = b.compile_harness(os.path.join(core.VERIF, "harness/h_remote_blast.c"), extra_objs=REMOTE_OBJS, libs=["-lresolv"])
    hs = b.compile_harness(os.path.join(core.VERIF, "harness/h_smtpd_blast.c"), extra_objs=SMTPD_OBJS)
    env = b.env()
    maxL = 11 if tier == "quick" else 13
    emitL = 8 if tier == "quick" else 10
    nrand = core.scaled(300000 if tier == "quick" else 20000000)
    ne2e = core.scaled(160 if tier == "quick" else 4000)
    emitdir = build.mktemp("nqv-c06-emit-")
    jobs = []
    for L in range(0, maxL + 1):
        n = 4 ** L
        k = 1 if n < 4096 else min(64, max(16, n // 200000))
        for idx, (lo, hi) in enumerate(core.chunks(n, k)):
            a = ["enum", L, lo, hi]
            if L <= emitL:
                a.append(os.path.join(emitdir, "e%d_%d.bin" % (L, idx)))
            jobs.append(a)
    for j in range(16):
        jobs.append(["rand", nrand // 16, core.seed() * 1000 + j, 65536])
    # payloads kept for the cross-check are bounded (about 16 KB each): a thorough run must not fill the disk
    nemit = min(nrand // 16, 4000)
    for j in range(4):
        jobs.append(["rand", nemit, core.seed() * 1000 + 500 + j, 65536, os.path.join(emitdir, "r%d.bin" % j)])
    res = hrun.run_many(hb, jobs, env, timeout=1800 if tier == "thorough" else 600)
    # (b) cross-check through the package's own server decoder
    xjobs = [["xcheck", os.path.join(emitdir, f)] for f in sorted(os.listdir(emitdir))]
    xres = hrun.run_many(hs, xjobs, env, timeout=900)
    # C05-keyed rule names coming out of the xcheck are C06 violations here (own server vs own client)
    for v in xres.violations:
        v["key"] = v["key"].replace("C05/", "C06/xcheck/")
    res.counters.inc("xchecked_payloads", xres.counters.get("xchecked_payloads", 0))
    res.violations.extend(xres.violations)
    res.inconclusive.extend(xres.inconclusive)
    # (c) end to end
    eres = core.pmap(e2e_worker, [(b.dir, lo, hi, tier) for lo, hi in core.chunks(ne2e, 16)], timeout=1200)
    res.merge(eres)
    rule = ("(a) every string over {CR,LF,'.','a'} of length <= %d through the real blast() under whole / 1-byte / "
            "every split (len<=7) read chunkings + %d random messages up to 64 KB; (b) payloads of length <= %d re-decoded by the "
            "real qmail-smtpd blast(); (c) %d messages real qmail-remote -> loopback server. Non-trivial = message contains "
            "CR, LF or '.'; distinct = distinct input strings (hash set in the harness, saturating => undercount)." % (maxL, nrand, emitL, ne2e))
    extra = {"exhaustive": True, "exhaustive_scope": "all strings of length <= %d over a 4-symbol alphabet" % maxL}
    return core.finish(PROP, tier, "exploration", res, rule, t0, extra=extra, assumptions=[
        "reference decoder = RFC 5321 4.5.2 (harness/smtpcodec.h, refmodel/smtpdata.py)",
        "byte identity demanded for CR-free input, CRLF->LF identity when every CR precedes LF, content and LF-boundary "
        "conservation for bare-CR input (statement fixes nothing stricter)"])


def replay(path):
    import json
    with open(path) as f:
        w = json.load(f)
    print(json.dumps(w, indent=1)[:4000])
    print("re-run: ./check C06 --tier %s with VERIF_SEED=%s" % (w.get("tier"), w.get("seed")))
    return main(w.get("tier", "quick"))
