"""C18 - helpers at trust boundaries act only on validated requests (DESIGN.md section 3, C18).

The check is a list of independent sub-monitors (MONITORS); each takes the Context and returns a
core.Result; main() merges them.  Sub-monitors present here:

  clean_harness   harness/h_clean.c: the real qmail-clean.c in-process, bounded-exhaustive + random
                  request streams, every response byte and unlink attributed to one request
  clean_binary    the real qmail-clean binary on a sandbox queue full of decoy files; nqshim event
                  log (byte-wise reads, writes, unlinks) + the directory tree afterwards
  spawners        the real qmail-lspawn / qmail-rspawn with bin/ql-rec as qmail-local / qmail-remote
                  under strace: command streams with hostile message ids, delivery numbers 0..255

(The third part of C18, hostile bytes on qmail-send's report channels, is a further sub-monitor
of the daemon engine: append its function to MONITORS.)
"""
import json
import os
import signal
import re
import shutil
import stat
import time

from .. import core, build, hrun, sandbox
from .. import shim as _shim

PROP = "C18"
CLEAN_OBJS = "fmtqfn.o getln.a sig.a stralloc.a substdio.a error.a str.a fs.a auto_qmail.o auto_split.o".split()
SHIM = _shim.tool("nqshim.so")
QLREC = _shim.tool("ql-rec")
OSSIFIED = 129600


class Context:
    def __init__(self, tier, b):
        self.tier = tier
        self.b = b
        self.quick = tier == "quick"
        self.split = conf_int(b, "conf-split", 23)
        self.spawn = conf_int(b, "conf-spawn", 120)


def conf_int(b, name, default):
    try:
        with open(b.path(name)) as f:
            return int(f.readline().strip())
    except (OSError, ValueError):
        return default


# =============================================================================== (1) in-process harness

def mon_clean_harness(ctx):
    hb = ctx.b.compile_harness(os.path.join(core.VERIF, "harness/h_clean.c"), extra_objs=CLEAN_OBJS)
    parts = 16
    jobs = [["enum", ctx.tier, p, parts] for p in range(parts)]
    jobs.append(["digits"])
    nrand = core.scaled(3200000 if ctx.quick else 160000000)
    for j in range(16):
        jobs.append(["rand", nrand // 16, core.seed() * 1000 + j])
    res = hrun.run_many(hb, jobs, ctx.b.env(), timeout=600 if ctx.quick else 3600)
    res.counters.inc("clean_harness_requests", res.counters.get("cases", 0))
    res.counters.pop("cases", None)
    return res


# =============================================================================== (2) the qmail-clean binary

def clean_classify(req, split):
    """the documented request grammar: (class, expected unlink paths relative to the home)"""
    n = len(req) + 1
    if n < 7 or n > 100:
        return "length", None
    if req[:5] not in (b"foop/", b"todo/"):
        return "keyword", None
    d = req[5:]
    if not d or any(c < 48 or c > 57 for c in d):
        return "nondigit", None
    N = int(d)
    if req[:5] == b"foop/":
        paths = ["queue/intd/%d" % N, "queue/mess/%d/%d" % (N % split, N)]
    else:
        paths = ["queue/intd/%d" % N, "queue/todo/%d" % N]
    cls = "valid" if N < 10 ** 19 else ("valid-ge-1e19" if N < 2 ** 64 else "overflow")
    return cls, paths


def plant_queue(home, rng, split):
    """decoy files for ~200 message numbers in every queue directory, old and fresh pid files"""
    q = home + "/queue"
    for d in ("intd", "todo", "bounce", "pid"):
        shutil.rmtree(q + "/" + d)
        os.mkdir(q + "/" + d)
    for d in ("mess", "info", "local", "remote"):
        for s in range(split):
            shutil.rmtree("%s/%s/%d" % (q, d, s))
            os.mkdir("%s/%s/%d" % (q, d, s))
    nums = set(range(0, 41))
    while len(nums) < 190:
        nums.add(rng.randrange(41, 3000000))
    nums |= {4294967295, 4294967296, 4294967297, 2 ** 63, 10 ** 19 - 1, 10 ** 19, 10 ** 19 + 7, 2 ** 64 - 1, 999999999}
    blocked = set(rng.sample(sorted(n for n in nums if 41 <= n < 3000000), 4))
    for N in nums:
        for rel in ("intd/%d" % N, "todo/%d" % N, "bounce/%d" % N, "mess/%d/%d" % (N % split, N),
                    "info/%d/%d" % (N % split, N), "local/%d/%d" % (N % split, N), "remote/%d/%d" % (N % split, N)):
            p = q + "/" + rel
            if rel.startswith("intd/") and N in blocked:
                os.mkdir(p)                       # unlink() fails with EISDIR: the '!' answer
                with open(p + "/keep", "w") as f:
                    f.write("x")
                continue
            with open(p, "w") as f:
                f.write("decoy %s\n" % rel)
    for name in ("intd/12a4", "todo/7x", "intd/x", "mess/0/00", "todo/.hidden", "intd/18446744073709551617"):
        with open(q + "/" + name, "w") as f:
            f.write("decoy\n")
    now = time.time()
    old, fresh = [], []
    for i in range(4):
        p = "%s/pid/%d" % (q, 1000 + i)
        with open(p, "w") as f:
            f.write("")
        if i < 2:
            os.utime(p, (now - OSSIFIED - 5000 - i, now - OSSIFIED - 5000 - i))
            old.append("queue/pid/%d" % (1000 + i))
        else:
            fresh.append("queue/pid/%d" % (1000 + i))
    return sorted(nums), set(old), set(fresh)


def tree(home):
    out = set()
    q = home + "/queue"
    for r, ds, fs in os.walk(q):
        for f in fs:
            out.add(os.path.relpath(os.path.join(r, f), home))
        for d in ds:
            out.add(os.path.relpath(os.path.join(r, d), home) + "/")
    return out


def gen_clean_request(rng, nums):
    k = rng.randrange(100)
    kw = rng.choice([b"foop/", b"todo/"])
    if k < 35:
        return kw + b"%d" % rng.choice(nums)
    if k < 40:
        return kw + b"%d" % rng.randrange(0, 5000000)
    if k < 45:
        return kw + b"0" * rng.randint(1, 40) + b"%d" % rng.choice(nums)
    if k < 55:   # wraps onto a decoy when parsed modulo 2^64
        return kw + b"%d" % (rng.choice([1, 1, 2, 5, 10 ** 6]) * 2 ** 64 + rng.choice(nums))
    if k < 60:
        return kw + bytes(rng.choice(b"0123456789") for _ in range(rng.choice([19, 20, 21, 30, 60, 93, 94, 95, 96, 110])))
    if k < 68:   # a non-digit after / before / between digits
        d = b"%d" % rng.choice(nums)
        j = rng.randrange(len(d) + 1)
        return kw + d[:j] + rng.choice([b"a", b"/", b".", b" ", b"-", b"\xff", b"\n", b"x7"]) + d[j:]
    if k < 78:   # keyword corrupted in one byte
        j = rng.randrange(5)
        c = rng.choice([b"X", b"/", b"0", b"\xff", bytes([kw[j] ^ 0x20]), bytes([kw[j] + 1])])
        return kw[:j] + c + kw[j + 1:] + b"%d" % rng.choice(nums)
    if k < 82:
        return rng.choice([b"", b"f", b"foop", b"foop/", b"todo/", b"todo", b"foop7", b"todo12", b"intd/7", b"mess/1/1",
                           b"../todo/7", b"foop//7", b"todo/7/", b"/todo/7"])
    if k < 86:
        return kw + b"1" * rng.choice([93, 94, 95, 96])
    if k < 92:
        return bytes(rng.choice(b"fop/tdo0123456789\x00") for _ in range(rng.randint(0, 40)))
    return bytes(rng.randrange(256) for _ in range(rng.randint(0, 120)))


def clean_binary_worker(bdir, tier, lo, hi):
    res = core.Result()
    b = build.Build("asan", bdir)
    split = conf_int(b, "conf-split", 23)
    home = build.mktemp("nqv-c18c-")
    try:
        _clean_binary_batches(res, b, split, home, lo, hi)
    finally:
        shutil.rmtree(home, ignore_errors=True)      # pool workers do not run atexit handlers
    return res


def _clean_binary_batches(res, b, split, home, lo, hi):
    sandbox.make_home(b, home, bins=("qmail-clean",))
    nreq = 300
    for bi in range(lo, hi):
        rng = core.case_rng(PROP, bi, "clean-binary")
        nums, oldpid, freshpid = plant_queue(home, rng, split)
        stream = b"".join(gen_clean_request(rng, nums) + b"\0" for _ in range(nreq))
        if rng.random() < 0.5:
            stream += b"foop/" + b"%d" % rng.choice(nums)          # incomplete request at EOF: must be ignored
        before = tree(home)
        log, inp, outp = home + "/ev.log", home + "/in.bin", home + "/out.bin"
        for p in (log, outp):
            if os.path.exists(p):
                os.unlink(p)
        with open(inp, "wb") as f:
            f.write(stream)
        env = b.env(home, {"LD_PRELOAD": SHIM, "NQV_LOG": log, "NQV_TRACE": "mr", "NQV_READCHUNK": "1"})
        argv = ["/bin/sh", "-c", 'exec "$0" >"$1"', home + "/bin/qmail-clean", outp]
        rc = None
        for attempt in (0, 1):
            with open(inp, "rb") as fin:
                rc, out, err = core.run_with_watchdog(argv, 300, env=env, stdin=fin)
            if rc is not None:
                break
            if os.path.exists(log):
                os.unlink(log)
        wit0 = {"case": {"monitor": "clean_binary", "batch": bi}}
        if rc is None:
            res.inconclusive.append("qmail-clean watchdog (batch %d)" % bi)
            continue
        e = err.decode("latin1", "replace")
        if "Sanitizer" in e or "runtime error" in e or rc < 0:
            res.violate("C20/sanitizer/qmail-clean/" + hrun.sanitizer_site(e), "qmail-clean: sanitizer report or fatal signal (rc=%s)" % rc,
                        dict(wit0, stderr_tail=e[-2000:]))
            continue
        if rc != 0:
            res.inconclusive.append("qmail-clean exit %s: %s" % (rc, e[-200:]))
            continue
        judge_clean_batch(res, home, split, stream, log, outp, before, oldpid, freshpid, wit0)


def judge_clean_batch(res, home, split, stream, log, outp, before, oldpid, freshpid, wit0):
    # requests = NUL-terminated pieces of the stream; bounds[i] = offset one past the NUL of request i
    reqs, bounds = [], []
    p = 0
    while True:
        j = stream.find(b"\0", p)
        if j < 0:
            break
        reqs.append(stream[p:j])
        bounds.append(j + 1)
        p = j + 1
    obs = [{"resp": b"", "unl": []} for _ in reqs]
    consumed = 0
    ri = -1                                    # index of the last completely consumed request
    orphan = []
    nevents = 0
    try:
        with open(log, "rb") as f:
            lines = f.read().split(b"\n")
    except OSError:
        res.inconclusive.append("no event log from the shim")
        return
    for ln in lines:
        if not ln:
            continue
        try:
            ev = json.loads(ln)
        except ValueError:
            continue
        if ev.get("g") != "qmail-clean":
            continue
        c = ev.get("c")
        if c == "read" and ev.get("fd") == 0:
            r = ev.get("ret", 0)
            if r > 0:
                consumed += r
                while ri + 1 < len(bounds) and bounds[ri + 1] <= consumed:
                    ri += 1
            nevents += 1
        elif c == "write" and ev.get("fd") == 1:
            data = bytes.fromhex(ev.get("data", ""))
            at_boundary = ri >= 0 and bounds[ri] == consumed
            if at_boundary:
                obs[ri]["resp"] += data
            else:
                orphan.append(("write", core.hx(data), consumed))
            nevents += 1
        elif c == "unlink":
            path = ev.get("path", "")
            nevents += 1
            if path.startswith("queue/pid/"):
                if path in freshpid:
                    res.violate("C18/clean/cleanuppid-removed-fresh-file", "pid file younger than 36 h unlinked", dict(wit0, path=path))
                elif path not in oldpid:
                    res.violate("C18/clean/cleanuppid-unknown-path", "unlink of %s" % path, dict(wit0, path=path))
                else:
                    res.counters.inc("clean_binary_cleanuppid_unlinks")
                continue
            at_boundary = ri >= 0 and bounds[ri] == consumed
            if at_boundary:
                obs[ri]["unl"].append((path, ev.get("ret", 0), ev.get("err", 0)))
            else:
                orphan.append(("unlink", path, consumed))
    if nevents == 0 or consumed < len(stream) - 200:
        res.inconclusive.append("shim event log incomplete (events=%d consumed=%d of %d)" % (nevents, consumed, len(stream)))
        return
    if orphan:
        res.violate("C18/clean/acted-without-request", "response or unlink while no complete request was pending: %r" % (orphan[:3],),
                    dict(wit0, events=orphan[:5]))
    with open(outp, "rb") as f:
        out = f.read()
    expected_removed = set()
    for i, rq in enumerate(reqs):
        res.evaluations += 1
        cls, paths = clean_classify(rq, split)
        o = obs[i]
        res.counters.inc("clean_binary_class_" + cls)
        wit = dict(wit0, request=core.hx(rq), request_hex=rq.hex(), index=i, response=core.hx(o["resp"]),
                   unlinks=[list(u) for u in o["unl"][:6]])
        if cls != "length" and (cls != "keyword" or len(rq) > 5):
            res.nontrivial("clean-binary", rq)
        if len(o["resp"]) != 1:
            res.violate("C18/clean/status-bytes!=1/" + cls, "request answered by %d status bytes" % len(o["resp"]), wit)
            continue
        rb = o["resp"]
        if paths is None:
            if o["unl"]:
                if cls == "keyword":
                    sub = "todoX" if rq[:4] == b"todo" else ("foopX" if rq[:4] == b"foop" else "other")
                    res.violate("C18/clean/rejected-keyword-acted/" + sub, "unlink for a request outside the grammar", wit)
                else:
                    res.violate("C18/clean/rejected-%s-acted" % cls, "unlink for a request outside the grammar", wit)
            elif rb != b"x":
                res.violate("C18/clean/rejected-not-x/" + cls, "request outside the grammar answered %r" % rb, wit)
            continue
        if rb == b"x" and not o["unl"] and cls != "valid":
            res.counters.inc("clean_binary_ge_1e19_refused")
            continue
        got = [u[0] for u in o["unl"]]
        for u in o["unl"]:
            if u[1] == 0 and u[0] in paths:
                expected_removed.add(u[0])       # named by this request, whatever else went wrong with it
        hard = None
        for k, u in enumerate(o["unl"][:2]):
            if u[1] != 0 and u[2] != 2:          # ENOENT is not an error for qmail-clean
                hard = k
                break
        ok = got == paths[:len(got)]
        if ok:
            if hard is not None:
                ok = len(got) == hard + 1 and rb == b"!"
            else:
                ok = len(got) == 2 and rb == b"+"
        if not ok:
            if cls == "overflow":
                key = "C18/clean/number-overflow-acted"
            elif got != paths[:len(got)]:
                key = "C18/clean/wrong-path/" + rq[:4].decode()
            else:
                key = "C18/clean/valid-request-mishandled/" + rq[:4].decode()
            res.violate(key, "expected unlinks %r and '+' ('!' after a failing unlink)" % (paths,), wit)
            continue
        res.counters.inc("clean_binary_valid_handled")
        if rb == b"!":
            res.counters.inc("clean_binary_bang")
    if len(out) != len(reqs):
        res.violate("C18/clean/status-bytes!=1/batch", "%d status bytes for %d requests" % (len(out), len(reqs)), wit0)
    after = tree(home)
    for junk in ("ev.log", "in.bin", "out.bin"):
        after.discard(junk)
    removed = before - after
    created = after - before
    bad_removed = removed - expected_removed - oldpid
    if bad_removed:
        res.violate("C18/clean/tree/unrequested-file-removed", "files disappeared that no accepted request named: %r" % sorted(bad_removed)[:5],
                    dict(wit0, removed=sorted(bad_removed)[:10]))
    if created:
        res.violate("C18/clean/tree/file-created", "new files: %r" % sorted(created)[:5], dict(wit0, created=sorted(created)[:10]))
    if expected_removed - removed:
        res.violate("C18/clean/tree/unlink-reported-but-file-present", "%r" % sorted(expected_removed - removed)[:5], wit0)
    res.counters.inc("clean_binary_batches")
    res.counters.inc("clean_binary_files_removed", len(removed))
    res.counters.inc("clean_binary_decoys_untouched", len(after))
    if len(res.samples) < 2:
        res.sample({"clean_binary_requests": [core.hx(r) for r in reqs[:8]], "responses": core.hx(out[:8])}, cap=2)


def mon_clean_binary(ctx):
    nb = core.scaled(96 if ctx.quick else 2400)
    jobs = [(ctx.b.dir, ctx.tier, lo, hi) for lo, hi in core.chunks(nb, max(1, min(core.JOBS, nb // 3)))]
    return core.pmap(clean_binary_worker, jobs, timeout=3600)


# =============================================================================== (3) the spawners

NUMERIC = re.compile(rb"^[0-9/]+$")
STRACE_OPEN = re.compile(rb'^(\d+) +(?:open|openat)\((?:AT_FDCWD, )?"((?:\\x[0-9a-f]{2})*)"(\.\.\.)?')
STRACE_WRITE1 = re.compile(rb"^(\d+) +write\(1, ")
STRACE_FIRST = re.compile(rb"^(\d+) ")


def unhex_strace(s):
    return bytes(int(s[i + 2:i + 4], 16) for i in range(0, len(s), 4))


KINDS = ("reg_q", "reg_q", "reg_q", "reg_root", "reg_other", "dir", "sym_q", "sym_passwd", "fifo", "absent")


def plant_mess(home, rng, quid, ouid):
    """population of queue/mess: returns {relative id (bytes): kind} and the contents of deliverable files"""
    mess = home + "/queue/mess"
    for s in os.listdir(mess):
        p = mess + "/" + s
        if stat.S_ISDIR(os.lstat(p).st_mode):        # never open a planted fifo or follow a planted symlink
            shutil.rmtree(p)
        else:
            os.unlink(p)
    for s in range(23):
        os.mkdir("%s/%d" % (mess, s))
        os.chown("%s/%d" % (mess, s), quid, -1)
    pop, content = {}, {}
    ids = set()
    while len(ids) < 26:
        n = rng.randrange(1, 5000)
        ids.add(b"%d/%d" % (n % 23, n))
    ids.add(b"1/2")
    ids.add(b"77")            # a numeric name directly in mess/
    for mid in sorted(ids):
        kind = rng.choice(KINDS)
        p = os.path.join(mess.encode(), mid)
        body = b"Received: (nqv message %s)\nSubject: %d\n\nbody\n" % (mid, rng.randrange(10 ** 9))
        if kind.startswith("reg"):
            with open(p, "wb") as f:
                f.write(body)
            os.chown(p, {"reg_q": quid, "reg_root": 0, "reg_other": ouid}[kind], -1)
            os.chmod(p, 0o644)
            if kind == "reg_q":
                content[mid] = body
        elif kind == "dir":
            os.mkdir(p)
            os.chown(p, quid, -1)
        elif kind == "sym_q":
            tgt = home.encode() + b"/queue/symtarget-%d" % len(content)
            with open(tgt, "wb") as f:
                f.write(body)
            os.chown(tgt, quid, -1)
            os.symlink(tgt, p)
            content[mid] = body
        elif kind == "sym_passwd":
            os.symlink(b"/etc/passwd", p)
        elif kind == "fifo":
            os.mkfifo(p)
            os.chown(p, quid, -1)
        pop[mid] = kind
    # what "../x" would reach if the id check were missing: a regular file of the queue user
    with open(home + "/queue/x", "wb") as f:
        f.write(b"not a message\n")
    os.chown(home + "/queue/x", quid, -1)
    return pop, content


HOSTILE_IDS = [b"../x", b"/etc/passwd", b"", b"x", b".", b"..", b"1/../../x", b"./1/2", b"1/2x", b"x1/2", b"1\\2", b"-1",
               b"1/2 ", b" 1/2", b"1/2\n", b"1/2\xff", b"~", b"/../x", b"../../../../etc/passwd", b"1/2;x", b"%d", b"1/./2"]


def gen_spawn_batch(rng, pop, spawn, which):
    """list of commands: dict(delnum, mid, sender, recip, complete)"""
    cmds = []
    n = rng.randint(12, 40)
    mids = sorted(pop)
    free = list(range(spawn))
    rng.shuffle(free)
    for i in range(n):
        k = rng.randrange(100)
        if k < 40:
            mid = rng.choice(mids)
        elif k < 70:
            mid = rng.choice(HOSTILE_IDS)
        elif k < 75:
            m = rng.choice(mids)
            mid = rng.choice([m + b"/", b"/" + m, m.replace(b"/", b"//"), b"0" + m, m + b"0"])
        elif k < 80:
            m = rng.choice(mids)
            a, _, bb = m.partition(b"/")
            pad = 101 - len(m) + 1
            mid = rng.choice([a + b"/" * pad + bb if bb else m + b"/" * 101, b"1/" + b"0" * 99, b"9" * 101, b"1/" + b"2" * 98,
                              b"1/" + b"2" * 99])
        elif k < 84:
            mid = bytes(rng.choice(b"0123456789/.ax\xff") for _ in range(rng.randint(1, 12)))
        elif k < 87:
            mid = rng.choice([b"1/2", b"../x"]) + bytes(rng.choice(b"0123456789/") for _ in range(65000))
        else:
            mid = b"%d/%d" % (rng.randrange(23), rng.randrange(100000))
        d = rng.randrange(100)
        if d < 70 and free:
            delnum = free.pop()
        elif d < 80:
            delnum = rng.randrange(spawn, 256)
        elif d < 90:
            delnum = rng.choice([0, 1, spawn - 1, spawn, spawn + 1, 127, 128, 254, 255])
        else:
            delnum = rng.choice([c["delnum"] for c in cmds]) if cmds else 0
        sender = b"s%d@s.test" % i
        r = rng.randrange(100)
        if r < 80:
            recip = b"user%d@%s" % (i, b"local.test" if which == "l" else b"remote.test")
        elif r < 86:
            recip = b"nohost%d" % i                       # no '@': refused by the spawner
        elif r < 90:
            recip = b"u@" + b"h" * 64000 + b".test"
        elif r < 94:
            sender = b"s%d@" % i + b"a" * 64000 + b".test"
            recip = b"user@local.test"
        else:
            recip = b"a@b@c%d.test" % i
        cmds.append({"delnum": delnum, "mid": mid, "sender": sender, "recip": recip, "complete": True})
    t = rng.randrange(10)
    if t < 5:        # truncated command at the end of the stream
        cut = rng.choice(["delnum", "mid", "sender", "recip"])
        cmds.append({"delnum": rng.randrange(spawn), "mid": b"1/2", "sender": b"s%d@s.test" % len(cmds), "recip": b"t@local.test",
                     "complete": False, "cut": cut})
    return cmds


def encode_spawn(cmds):
    out = []
    for c in cmds:
        full = bytes([c["delnum"]]) + c["mid"] + b"\0" + c["sender"] + b"\0" + c["recip"] + b"\0"
        if c["complete"]:
            out.append(full)
        else:
            cut = {"delnum": 1, "mid": 1 + len(c["mid"]), "sender": 1 + len(c["mid"]) + 1 + len(c["sender"]),
                   "recip": len(full) - 1}[c["cut"]]
            out.append(full[:cut])
    return b"".join(out)


def parse_rec(path):
    d = {"args": []}
    with open(path, "rb") as f:
        for ln in f.read().split(b"\n"):
            k, _, v = ln.partition(b"=")
            if k == b"arg":
                d["args"].append(bytes.fromhex(v.decode()))
            elif k == b"stdin":
                d["stdin"] = bytes.fromhex(v.decode())
            elif k in (b"uid", b"euid", b"gid", b"egid"):
                d[k.decode()] = int(v)
    return d


def spawn_worker(bdir, tier, which, lo, hi):
    res = core.Result()
    b = build.Build("asan", bdir)
    spawn = conf_int(b, "conf-spawn", 120)
    home = build.mktemp("nqv-c18s-")
    try:
        _spawn_batches(res, b, spawn, home, which, lo, hi)
    finally:
        shutil.rmtree(home, ignore_errors=True)      # pool workers do not run atexit handlers
    return res


def _descendants(pid):
    out = []
    try:
        for t in os.listdir("/proc/%d/task" % pid):
            with open("/proc/%d/task/%s/children" % (pid, t)) as f:
                for c in f.read().split():
                    out.append(int(c))
                    out.extend(_descendants(int(c)))
    except OSError:
        pass
    return out


def _pstate(pid):
    try:
        with open("/proc/%d/stat" % pid) as f:
            d = f.read()
        return d[d.rindex(")") + 2:].split()[0]
    except (OSError, ValueError):
        return "?"


def run_spawner(argv, timeout, env, stdin, prog):
    """like core.run_with_watchdog, but when the time is up the process tree is looked at before it is killed:
    a spawner that sleeps although its input is at end-of-file and every delivery child has already exited (zombies it
    never reaped) will never send the missing reports - that is a state, not a matter of waiting longer.
    -> (rc, out, err, stuck) with stuck = description of that state or None"""
    import subprocess
    p = subprocess.Popen(argv, stdout=subprocess.PIPE, stderr=subprocess.PIPE, start_new_session=True, env=env, stdin=stdin)
    try:
        out, err = p.communicate(timeout=timeout)
        return p.returncode, out, err, None
    except subprocess.TimeoutExpired:
        stuck = None
        try:
            procs = [(q, _pstate(q), os.path.basename(os.readlink("/proc/%d/exe" % q)) if os.path.exists("/proc/%d/exe" % q) else "?") for q in _descendants(p.pid)]
        except OSError:
            procs = []
        sp = [q for q in procs if q[2] == prog]
        kids = [q for q in procs if q[2] != prog and q[2] != "strace"]
        zombies = [q for q in procs if q[1] == "Z"]
        if sp and all(q[1] == "S" for q in sp) and zombies and all(q[1] == "Z" for q in procs if q not in sp and q[2] != "strace"):
            stuck = {"spawner": sp, "unreaped_children": len(zombies)}
        try:
            os.killpg(p.pid, signal.SIGKILL)
        except ProcessLookupError:
            pass
        out, err = p.communicate()
        return None, out, err, stuck


def _spawn_batches(res, b, spawn, home, which, lo, hi):
    os.chmod(home, 0o755)
    prog = "qmail-lspawn" if which == "l" else "qmail-rspawn"
    sandbox.make_home(b, home, bins=(prog, "qmail-getpw"), chown=True)
    os.chmod(home, 0o755)
    for standin in ("qmail-local", "qmail-remote"):
        shutil.copy(QLREC, "%s/bin/%s" % (home, standin))
        os.chmod("%s/bin/%s" % (home, standin), 0o755)
    quid, ouid = sandbox.uid("q"), sandbox.uid("a")
    rec = home + "/rec"
    for bi in range(lo, hi):
        rng = core.case_rng(PROP, bi, "spawn-" + which)
        pop, content = plant_mess(home, rng, quid, ouid)
        cmds = gen_spawn_batch(rng, pop, spawn, which)
        shutil.rmtree(rec, ignore_errors=True)
        os.mkdir(rec)
        os.chmod(rec, 0o777)
        exit_plan = rng.choice([0, 0, 100, 111])
        qlout = rng.choice(["", "delivered ok\n", "did 1+0+0\n"])
        env = b.env(home, {"NQV_REC": rec, "NQV_QL_EXIT": str(exit_plan), "NQV_QL_OUT": qlout,
                           "PATH": home + "/bin:/usr/bin:/bin"})
        if rng.random() < 0.4:
            # a hostile (or merely odd) child: NUL bytes and text shaped like reports for other delivery numbers in its
            # output.  Whatever a child prints, its command is answered by exactly one report with its own number.
            fake = bytes([rng.choice([0, 1, 2, 3, rng.randrange(256)])]) + rng.choice([b"K", b"D", b"Z"]) + b"forged report\n"
            if which == "r":
                first = rng.choice([b"r", b"h", b"s", b""]) + rng.choice([b"recipient text\n", b""]) + b"\0"
                second = rng.choice([b"K", b"Z", b"D", b""]) + rng.choice([b"message text\n", b""])
                hostile = rng.choice([first + second + b"\0" + fake + b"\0", first + second + b"\0" + fake, first + second + b"\0\0" + fake + b"\0tail",
                                      first + fake + b"\0" + second + b"\0", second + b"\0" + fake + b"\0", fake + b"\0" + fake + b"\0",
                                      first + second + b"\0" + b"x" * rng.choice([1, 100, 3000])])
            else:
                text = rng.choice([b"delivery text\n", b"", b"did 1+0+0\n"])
                hostile = rng.choice([text + b"\0" + fake + b"\0", text + b"\0" + fake + b"\0more\0", b"\0" + fake + b"\0", text + b"\0\0\0",
                                      text + b"\0" + fake, fake + b"\0" + fake + b"\0"])
            env["NQV_QL_OUTHEX"] = hostile.hex()
            res.counters.inc("spawn_batches_with_hostile_child_output")
        inp, st = home + "/in.bin", home + "/strace.out"
        with open(inp, "wb") as f:
            f.write(encode_spawn(cmds))
        argv = ["strace", "-f", "-qq", "-xx", "-s", "300", "-e", "trace=open,openat,write", "-e", "signal=none", "-o", st,
                home + "/bin/" + prog] + (["./Mailbox"] if which == "l" else [])
        rc = None
        stuck = None
        for attempt in (0, 1):
            with open(inp, "rb") as fin:
                rc, out, err, stuck = run_spawner(argv, 120, env, fin, prog)
            if rc is not None or stuck:
                break
        wit0 = {"case": {"monitor": "spawners", "which": which, "batch": bi}, "program": prog}
        if rc is None and stuck:
            res.violate("C18/spawn/%s/reports!=commands/never-sent" % which,
                        "%s sleeps with its input at end-of-file and %d delivery children exited but never reaped: their reports will never be sent"
                        % (prog, stuck["unreaped_children"]), dict(wit0, state=stuck, commands=len(cmds)))
            break           # every further batch would wait for the watchdog again
        if rc is None:
            res.inconclusive.append("%s watchdog (batch %d)" % (prog, bi))
            continue
        e = err.decode("latin1", "replace")
        if "Sanitizer" in e or "runtime error" in e or rc < 0:
            res.violate("C20/sanitizer/%s/%s" % (prog, hrun.sanitizer_site(e)), "%s: sanitizer report or fatal signal (rc=%s)" % (prog, rc),
                        dict(wit0, stderr_tail=e[-2000:]))
            continue
        if rc != 0:
            res.inconclusive.append("%s exit %s: %s" % (prog, rc, e[-200:]))
            continue
        judge_spawn_batch(res, home, which, spawn, cmds, pop, content, out, rec, st, quid, exit_plan, wit0)


def id_class(mid, pop):
    if mid == b"":
        return "empty"
    if not NUMERIC.match(mid):
        if mid.startswith(b"/"):
            return "absolute-path"
        if b".." in mid:
            return "dotdot"
        return "nonnumeric"
    if len(mid) > 100:
        return "numeric-too-long"
    return "numeric"


def judge_spawn_batch(res, home, which, spawn, cmds, pop, content, out, rec, st, quid, exit_plan, wit0):
    W = "C18/spawn/" + which
    complete = [c for c in cmds if c["complete"]]
    res.evaluations += len(complete)
    res.counters.inc("spawn_%s_commands" % which, len(complete))
    res.counters.inc("spawn_%s_batches" % which)
    # ---- reports: concurrency byte, then <delnum><text>NUL ...
    reports = []
    if not out:
        res.violate(W + "/no-output", "the spawner wrote nothing", wit0)
        return
    p = 1
    malformed = False
    while p < len(out):
        q = out.find(b"\0", p + 1)
        if q < 0:
            malformed = True
            break
        reports.append((out[p], out[p + 1:q]))
        p = q + 1
    if malformed:
        res.violate(W + "/report-not-terminated", "output ends inside a report", dict(wit0, tail=core.hx(out[-80:])))
        return
    want = sorted(c["delnum"] for c in complete)
    got = sorted(r[0] for r in reports)
    if want != got:
        import collections
        cw, cg = collections.Counter(want), collections.Counter(got)
        missing = sorted((cw - cg).elements())
        extra = sorted((cg - cw).elements())
        sub = "missing" if len(got) < len(want) else ("surplus" if len(got) > len(want) else "wrong-delnum")
        trunc = [c for c in cmds if not c["complete"]]
        res.violate("%s/reports!=commands/%s" % (W, sub),
                    "%d complete commands, %d reports; delnums without report %r, reports without command %r" % (
                        len(want), len(got), missing[:6], extra[:6]),
                    dict(wit0, commands=[(c["delnum"], core.hx(c["mid"][:40]), core.hx(c["recip"][:30])) for c in cmds[:50]],
                         reports=[(d, core.hx(t[:50])) for d, t in reports[:50]], truncated=[c.get("cut") for c in trunc]))
        return
    for d, t in reports:
        res.counters.setdefault("spawn_report_status", {})
        s = chr(t[0]) if t and 32 < t[0] < 127 else "?"
        res.counters["spawn_report_status"][s] = res.counters["spawn_report_status"].get(s, 0) + 1
    # ---- deliveries recorded by the stand-in
    delivered = {}
    for f in sorted(os.listdir(rec)):
        if not f.endswith(".run"):
            continue
        r = parse_rec(os.path.join(rec, f))
        idx = None
        for a in r["args"]:
            m = re.match(rb"^s(\d+)@", a)
            if m:
                idx = int(m.group(1))
        if idx is None or idx >= len(cmds):
            res.violate(W + "/delivery-for-no-command", "stand-in started with args %r" % ([core.hx(a[:40]) for a in r["args"]],), wit0)
            continue
        delivered.setdefault(idx, []).append(r)
    mess = (home + "/queue/mess").encode()
    dup = {d for d in want if want.count(d) > 1}
    for i, c in enumerate(cmds):
        mid = c["mid"]
        cls = id_class(mid, pop)
        runs = delivered.get(i, [])
        wit = dict(wit0, command={"delnum": c["delnum"], "messid": core.hx(mid[:120]), "messid_len": len(mid),
                                  "sender": core.hx(c["sender"][:40]), "recip": core.hx(c["recip"][:40]), "complete": c["complete"]},
                   id_class=cls, planted=pop.get(mid))
        if not c["complete"]:
            if runs:
                res.violate(W + "/delivered-incomplete-command", "a command cut off inside %s was executed" % c["cut"], wit)
            continue
        numeric = bool(NUMERIC.match(mid))
        path = mid if mid.startswith(b"/") else os.path.join(mess, mid)
        ok_file = False
        if numeric and len(mid) < 4000:
            try:
                sb = os.stat(path)
                ok_file = stat.S_ISREG(sb.st_mode) and sb.st_uid == quid
                ftype = "regular" if stat.S_ISREG(sb.st_mode) else "non-regular"
                owner = "queue-user" if sb.st_uid == quid else "foreign"
            except OSError:
                ftype, owner = "absent", "-"
        else:
            ftype, owner = "-", "-"
        if runs:
            if len(runs) > 1:
                res.violate(W + "/delivered-twice", "one command started %d deliveries" % len(runs), wit)
                continue
            if not numeric:
                res.violate("%s/delivered-nonnumeric-id/%s" % (W, cls), "delivery started for message id %s" % core.hx(mid[:60]), wit)
                continue
            if not ok_file:
                res.violate("%s/delivered-unvalidated-file/%s-%s" % (W, ftype, owner),
                            "delivery started for %s, which is %s / %s" % (core.hx(mid[:60]), ftype, owner), wit)
                continue
            with open(path, "rb") as f:
                body = f.read(256)
            if runs[0].get("stdin", b"") != body:
                res.violate(W + "/delivered-wrong-file", "the stand-in's descriptor 0 is not the named message", wit)
                continue
            if runs[0].get("uid") == 0 or runs[0].get("euid") == 0:
                res.counters.inc("spawn_standin_ran_as_root")      # judged by C11, rspawn legitimately keeps its uid
            res.counters.inc("spawn_%s_delivered" % which)
            res.nontrivial("spawn-delivered", which, mid, pop.get(mid))
        else:
            res.counters.inc("spawn_%s_refused_%s" % (which, cls if not ok_file or not numeric else "other-reason"))
            res.nontrivial("spawn-refused", which, mid[:200], pop.get(mid), c["delnum"] >= spawn)
        # the report of a command with a delivery number of its own
        if c["delnum"] not in dup:
            text = [t for d, t in reports if d == c["delnum"]][0]
            if runs and which == "l":
                expect = {0: b"K", 100: b"D", 111: b"Z"}[exit_plan]
                if text[:1] != expect:
                    res.counters.inc("spawn_l_report_status_unexpected")
    # ---- what the spawner itself opened after its start-up (strace)
    try:
        with open(st, "rb") as f:
            lines = f.read().split(b"\n")
    except OSError:
        lines = []
    main_pid = None
    started = False
    nopen = 0
    for ln in lines:
        if main_pid is None:
            m = STRACE_FIRST.match(ln)
            if m:
                main_pid = m.group(1)
        if not started:
            m = STRACE_WRITE1.match(ln)
            if m and m.group(1) == main_pid:
                started = True
            continue
        m = STRACE_OPEN.match(ln)
        if not m or m.group(1) != main_pid:
            continue
        path = unhex_strace(m.group(2))
        nopen += 1
        if not NUMERIC.match(path) or m.group(3):
            if path.startswith(b"/proc/") or path.startswith(b"/sys/"):
                continue                          # sanitizer runtime
            cls = "absolute-path" if path.startswith(b"/") else ("dotdot" if b".." in path else "nonnumeric")
            res.violate("%s/opened-nonnumeric-path/%s" % (W, cls), "the spawner opened %s" % core.hx(path[:80]),
                        dict(wit0, path=core.hx(path[:200])))
    if not started:
        res.inconclusive.append("strace log unusable for %s batch" % which)
    res.counters.inc("spawn_%s_message_opens_observed" % which, nopen)
    if len(res.samples) < 2:
        res.sample({"spawner": which, "commands": [(c["delnum"], core.hx(c["mid"][:30]), pop.get(c["mid"], "-")) for c in cmds[:8]],
                    "reports": [(d, core.hx(t[:40])) for d, t in reports[:8]]}, cap=2)


def mon_spawners(ctx):
    nb = core.scaled(100 if ctx.quick else 2500)
    jobs = []
    for which in ("l", "r"):
        for lo, hi in core.chunks(nb, max(1, min(core.JOBS // 2, nb // 3))):
            jobs.append((ctx.b.dir, ctx.tier, which, lo, hi))
    res = core.pmap(spawn_worker, jobs, timeout=3600)
    if res.counters.get("spawn_l_delivered", 0) == 0 or res.counters.get("spawn_r_delivered", 0) == 0:
        res.inconclusive.extend(["spawner monitor saw no delivery at all: nothing validated"] * 5)
    return res


# =============================================================================== driver

def mon_send_reports(ctx):
    """qmail-send part (daemon engine): hostile bytes on the report descriptors, see c18_send.py"""
    from . import c18_send
    return c18_send.mon_send_reports(ctx.tier, ctx.b)


MONITORS = [("clean_harness", mon_clean_harness), ("clean_binary", mon_clean_binary), ("spawners", mon_spawners),
            ("send_reports", mon_send_reports)]


def main(tier, only=None):
    t0 = time.time()
    b = build.vbuild("asan")
    ctx = Context(tier, b)
    res = core.Result()
    walls = {}
    for name, fn in MONITORS:
        if only and name not in only:
            continue
        t = time.time()
        try:
            r = fn(ctx)
        except core.Inconclusive as e:
            r = core.Result()
            r.inconclusive.extend(["%s: %s" % (name, e)] * 5)
        walls[name] = round(time.time() - t, 1)
        r.counters.inc("monitor_%s_evaluations" % name, r.evaluations)
        res.merge(r)
    rule = ("qmail-clean in-process (harness/h_clean.c): request streams = prefixes {foop/, todo/, one-byte corruptions, truncations, "
            "other directory names} x every suffix of length <= 5 (6-7 for the exact keywords) over {0,7,/,.,a,NUL,0xff,1}, digit strings of 1..120 digits "
            "incl. 2^64-1, 2^64, 2^64+k, and random requests up to 120 bytes, under whole-request and random read chunking and injected unlink "
            "errors; qmail-clean binary: batches of 300 generated requests on a sandbox queue with decoys for ~200 message numbers in every queue "
            "directory, shim log of byte-wise reads/writes/unlinks + tree diff; spawners: real qmail-lspawn and qmail-rspawn under strace with ql-rec "
            "stand-ins, command batches with delivery numbers 0..255 and message ids {planted regular/foreign-owner/directory/symlink/fifo/absent, "
            "../x, /etc/passwd, empty, >100 bytes, 64 KB, junk}, truncated and oversized commands. Non-trivial and distinct = distinct requests that "
            "are valid or differ from a valid one in one aspect (hash set in the harness, saturating) + distinct binary requests + distinct "
            "(spawner, message id, planted kind) outcomes.")
    extra = {"exhaustive": True,
             "exhaustive_scope": "qmail-clean requests: listed prefixes x all suffixes of length <= 5 over an 8-symbol alphabet",
             "monitor_wall_s": walls, "monitors": [n for n, _ in MONITORS]}
    return core.finish(PROP, tier, "exploration", res, rule, t0, extra=extra, assumptions=[
        "request grammar ^(foop|todo)/[0-9]+$ with total length 7..100 including the NUL (qmail-send.c is the only legitimate peer)",
        "the decimal number is taken mathematically; numbers in [10^19, 2^64) may be served exactly or refused",
        "cleanuppid() may remove queue/pid files whose atime is older than 36 h",
        "a spawner may refuse any command; it may deliver only numeric ids naming regular files owned by the queue user; "
        "the spawner's own opens are observed with strace after its start-up byte",
        "hostile bytes on qmail-send's report channels are covered by a separate sub-monitor (daemon engine)"])


def replay(path):
    with open(path) as f:
        w = json.load(f)
    print(json.dumps(w, indent=1)[:6000])
    mons = set()
    for c in w.get("cases", []):
        case = (c.get("witness") or {}).get("case")
        if case and case.get("monitor"):
            mons.add(case["monitor"])
        elif (c.get("witness") or {}).get("harness_args") is not None:
            mons.add("clean_harness")
    os.environ["VERIF_SEED"] = str(w.get("seed", 1))
    print("re-running monitor(s) %s with seed %s" % (sorted(mons) or "all", w.get("seed")))
    return main(w.get("tier", "quick"), only=mons or None)
