"""C17 - address quoting and parsing agree; header recipients become the envelope (DESIGN.md section 3, C17).

(a) harness h_quote822 (real quote.c, token822.c, qmail-remote.c addrmangle(), qmail-smtpd.c addrparse()):
    every local part over a 20-symbol hostile alphabet up to a bounded length, plus random ones to 64
    bytes: header quoting -> parser -> identical address; unparse -> parse again -> identical; SMTP
    encoder -> SMTP server parser -> identical.
(b) the same harness on address lists from the RFC 822 generator (nqv/gen_rfc822.py, expected mailboxes
    known by construction): token822_addrlist finds exactly those mailboxes, and again after unparse.
(c) the real qmail-inject (ASan build) with QMAILQUEUE=qq-rec: generated headers x modes -a/-h/-H/-A/-f x
    QMAILINJECT flags x defaulthost/defaultdomain/plusdomain settings: envelope recipients (multiset) ==
    expected mailboxes after the documented rewriting, no Bcc / Resent-Bcc in the output, and the
    recorded message fed to qmail-inject -h once more yields the same non-Bcc recipients.
(d) addresses encoded by the real addrmangle() sent as RCPT TO:<...> to the real qmail-smtpd binary."""
import collections
import glob
import json
import os
import shutil
import struct
import subprocess
import time

from .. import core, build, hrun, sandbox
from .. import shim as _shim
from .. import gen_rfc822 as g

PROP = "C17"
REMOTE_OBJS = ("control.o constmap.o timeoutread.o timeoutwrite.o timeoutconn.o tcpto.o dns.o ip.o "
               "ipalloc.o ipme.o quote.o ndelay.a case.a sig.a open.a lock.a getln.a stralloc.a "
               "substdio.a error.a str.a fs.a auto_qmail.o").split()
SMTPD_OBJS = ("rcpthosts.o commands.o ip.o ipme.o ipalloc.o control.o constmap.o received.o "
              "date822fmt.o qmail.o cdb.a fd.a wait.a datetime.a getln.a open.a sig.a case.a env.a "
              "stralloc.a substdio.a error.a str.a fs.a auto_qmail.o").split()
QQREC = _shim.tool("qq-rec")


def build_harness(b):
    """h_quote822 = qmail-remote.c + token822.o in one unit, qmail-smtpd.c in a second object whose
    globals are localised (the two programs define clashing symbols)"""
    so = os.path.join(b.dir, "nqv_h_quote822_smtpd.o")
    b.compile_harness(os.path.join(core.VERIF, "harness/h_quote822_smtpd.c"), out=so, cc_extra=["-c"])
    p = subprocess.run(["objcopy", "-G", "nqv_smtpd_addrparse", so], capture_output=True, text=True)
    if p.returncode != 0:
        raise core.Inconclusive("objcopy failed: " + p.stderr[-500:])
    objs = [so, "token822.o"]
    for o in REMOTE_OBJS + SMTPD_OBJS:
        if o not in objs:
            objs.append(o)
    objs.sort(key=lambda o: o.endswith(".a"))       # objects first, then the archives they pull from
    return b.compile_harness(os.path.join(core.VERIF, "harness/h_quote822.c"), extra_objs=objs, libs=["-lresolv"])


# ------------------------------------------------------------------ (b) generated lists through the harness

FIELD_NAMES = [b"To", b"Cc", b"Bcc", b"to", b"CC", b"bcc", b"TO", b"Apparently-To", b"Resent-To", b"Resent-Cc",
               b"Resent-Bcc", b"resent-to", b"From", b"Reply-To", b"Sender"]


def lists_worker(hbin, env, lo, hi):
    # pool workers do not run atexit handlers: remove the scratch directory here
    d = build.mktemp("nqv-c17-l-")
    try:
        return _lists_worker(hbin, env, lo, hi, d)
    finally:
        shutil.rmtree(d, ignore_errors=True)


def _lists_worker(hbin, env, lo, hi, d):
    path = os.path.join(d, "lists.bin")
    feats = collections.Counter()
    with open(path, "wb") as f:
        for i in range(lo, hi):
            rng = core.case_rng(PROP, i, "list")
            gen = g.Gen(rng)
            text, mbs = gen.field(rng.choice(FIELD_NAMES), maxitems=6, allow_empty=rng.random() < 0.05)
            if len(mbs) > 60:
                continue
            f.write(struct.pack("<I", len(text)) + text + struct.pack("<I", len(mbs)))
            for m in mbs:
                r = m.raw_with_route()
                f.write(struct.pack("<I", len(r)) + r)
            for x in gen.features:
                feats[x] += 1
    res = hrun.run_one(hbin, ["lists", path], env, 900)
    res.counters["list_features"] = dict(feats)
    return res


# ------------------------------------------------------------------ (c) real qmail-inject

RECIP_FIELDS = [b"To", b"Cc", b"Bcc", b"Apparently-To", b"to", b"CC", b"BCC", b"cc", b"bcc", b"TO", b"apparently-to"]
RESENT_FIELDS = [b"Resent-To", b"Resent-Cc", b"Resent-Bcc", b"resent-to", b"RESENT-BCC", b"Resent-cc"]


def gen_case(i):
    rng = core.case_rng(PROP, i, "inject")
    cfg = g.gen_inject_config(rng)
    gen = g.Gen(rng, hostile=0.2)
    fields = []            # (lower-case name, text, [Mailbox])
    names = rng.sample(RECIP_FIELDS, rng.randint(1, 3)) if rng.random() < 0.95 else []
    if rng.random() < 0.15:
        names += rng.sample(RESENT_FIELDS, rng.randint(1, 2))
    for n in names:
        empty_ok = n.lower() in (b"bcc", b"resent-bcc") and rng.random() < 0.2
        text, mbs = gen.field(n, maxitems=4, allow_empty=empty_ok)
        fields.append((n.lower(), text, mbs))
    other = [b"Subject: test %d\n" % i]
    if rng.random() < 0.5:
        other.append(gen.field(rng.choice([b"From", b"Reply-To", b"Sender"]), maxitems=2)[0])
    if rng.random() < 0.2:
        other.append(b"X-Other: (not an address list <\n folded\n")
    if rng.random() < 0.1:
        other.append(b"Content-Length: 5\n")
    allf = [f[1] for f in fields] + other
    rng.shuffle(allf)
    msg = b"".join(allf) + b"\n" + b"body line\n"
    mode = rng.choice(["default", "default", "-h", "-a", "-H", "default+args", "-A+args"])
    args = []
    if mode in ("-a", "-H", "default+args", "-A+args"):
        for _ in range(rng.randint(0 if mode == "-H" else 1, 3)):
            args.append(g.gen_raw_address(rng))
    sender = None
    if rng.random() < 0.25:
        sender = rng.choice([b"sender@s.example.test", b"", b"a b@Up.Case.test", b'we"ird@[10.1.2.3]', b"x@y.z.test"])
    flags = "".join(c for c in "csfirm" if rng.random() < 0.2)
    resent = any(f[0].startswith(b"resent-") for f in fields)
    return {"cfg": cfg, "fields": fields, "msg": msg, "mode": mode, "args": args, "sender": sender,
            "flags": flags, "resent": resent, "features": gen.features}


def expected(case):
    """-> (mailboxes that must be in the envelope, mailboxes of the fields that stay visible, kind)"""
    if case["resent"]:
        hdr = [m for n, _, mbs in case["fields"] if n.startswith(b"resent-") for m in mbs]
        visible = [m for n, _, mbs in case["fields"] if n in (b"resent-to", b"resent-cc") for m in mbs]
    else:
        hdr = [m for n, _, mbs in case["fields"] if not n.startswith(b"resent-") for m in mbs]
        visible = [m for n, _, mbs in case["fields"] if n in (b"to", b"cc", b"apparently-to") for m in mbs]
    argm = [m for _, m in case["args"]]
    mode = case["mode"]
    if mode in ("-a", "default+args", "-A+args"):
        # -a / -A with recipients on the command line: the arguments only
        use, kind = argm, "args"
    elif mode == "-H":
        use, kind = hdr + argm, "both"
    else:
        use, kind = hdr, "header"
    return use, visible, kind


def private_qqrec(home):
    """the stand-in queue program, copied so that a rebuild of bin/ by somebody else cannot disturb a run"""
    dst = home + "/bin/qq-rec"
    shutil.copy(QQREC, dst)
    os.chmod(dst, 0o755)
    return dst


def run_inject(b, home, rec, argv, msg, envx):
    env = b.env(home, {"QMAILQUEUE": home + "/bin/qq-rec", "NQV_REC": rec, "USER": "tester"})
    env.update(envx)
    mp = home + "/in.msg"
    with open(mp, "wb") as f:
        f.write(msg)
    for attempt in (0, 1):
        for f in glob.glob(rec + "/*"):
            os.unlink(f)
        with open(mp, "rb") as fin:
            rc, out, err = core.run_with_watchdog([home + "/bin/qmail-inject"] + argv, 60, env=env, stdin=fin)
        # a watchdog expiry or a *temporary* error (exit 111: cannot run the queue program, out of
        # memory...) is a harness problem: once more, then inconclusive
        if rc is not None and rc != 111:
            break
    envs = glob.glob(rec + "/*.env")
    envelope = message = None
    if len(envs) == 1:
        with open(envs[0], "rb") as f:
            envelope = f.read()
        with open(envs[0][:-4] + ".msg", "rb") as f:
            message = f.read()
    return rc, err, envelope, message


def parse_envelope(e):
    """F<sender>NUL (T<rcpt>NUL)* NUL -> (sender, [rcpt]) or None"""
    if e is None or not e.startswith(b"F") or not e.endswith(b"\0\0"):
        return None
    parts = e[:-1].split(b"\0")
    if parts[-1] != b"":
        return None
    parts.pop()
    if any(p[:1] != b"T" for p in parts[1:]):
        return None
    return parts[0][1:], [p[1:] for p in parts[1:]]


def header_field_names(message):
    head = message.split(b"\n\n", 1)[0] + b"\n"
    names = []
    for line in head.split(b"\n"):
        if line[:1] in (b" ", b"\t") or b":" not in line:
            continue
        names.append(line.split(b":", 1)[0].strip().lower())
    return names


def compare(mbs, cfg, got):
    """Multiset comparison of the observed recipients with the qualified expected mailboxes.
    -> list of (class, trigger, missing, extra); empty when equal.  Differences that pair up as
    'source route kept' or 'plus domain not applied' are named as such, with how the mailbox was
    written as trigger; everything else falls into generic classes."""
    q = lambda m: g.qualify(m.local, m.domain, cfg)
    ce, cg = collections.Counter(q(m) for m in mbs), collections.Counter(got)
    missing, extra = list((ce - cg).elements()), list((cg - ce).elements())
    out = []
    for m in mbs:
        qv = q(m)
        if qv not in missing:
            continue
        # renderings of this mailbox that a named shortcoming would produce
        specs = {}
        if m.domain is not None and m.domain.endswith(b"+"):
            unexp = m.local + b"@" + (m.domain if b"." in m.domain else m.domain + b"." + cfg.defaultdomain)
            specs[unexp] = [("plusdomain-not-applied", "comment-last-in-angle-addr" if "angle-trailing-comment" in m.flags else "other")]
        route = ("route-not-stripped", "comment-first-in-angle-addr" if "angle-leading-comment" in m.flags else "other")
        for x in extra:
            causes = None
            if x in specs:
                causes = specs[x]
            elif "route" in m.flags and x.startswith(b"@") and b":" in x:
                rest = x.split(b":", 1)[1]
                if rest == qv:
                    causes = [route]
                elif rest in specs:
                    causes = [route] + specs[rest]
            if causes:
                for cls, trig in causes:
                    out.append((cls, trig, [qv], [x]))
                missing.remove(qv)
                extra.remove(x)
                break
    if missing and extra:
        if sorted(x.rsplit(b"@", 1)[0] for x in missing) == sorted(x.rsplit(b"@", 1)[0] for x in extra):
            out.append(("host-part-differs", None, missing, extra))
        else:
            out.append(("recipient-differs", None, missing, extra))
    elif missing:
        out.append(("recipient-missing", None, missing, extra))
    elif extra:
        out.append(("recipient-extra", None, missing, extra))
    return out


def report(res, where, kind, diffs, wit):
    for cls, trigger, missing, extra in diffs:
        w = dict(wit, observed_at=where, missing=[core.hx(x) for x in missing[:10]], extra=[core.hx(x) for x in extra[:10]])
        if trigger is not None:
            res.violate("C17/inject/%s/%s" % (cls, trigger),
                        "%s: %s instead of %s" % (where, core.hx(extra[0]), core.hx(missing[0])), w)
        elif where == "envelope":
            res.violate("C17/inject/envelope/%s/%s" % (cls, kind), "envelope recipients differ from the listed mailboxes", w)
        else:
            res.violate("C17/inject/reparse/%s" % cls, "the rewritten header parses to other addresses than the original", w)


def inject_worker(bdir, lo, hi):
    home = build.mktemp("nqv-c17-i-")
    try:
        return _inject_worker(bdir, lo, hi, home)
    finally:
        shutil.rmtree(home, ignore_errors=True)


def _inject_worker(bdir, lo, hi, home):
    res = core.Result()
    b = build.Build("asan", bdir)
    sandbox.make_home(b, home, controls={"me": "me.test"}, bins=("qmail-inject",), queue=False)
    rec = home + "/rec"
    os.makedirs(rec)
    private_qqrec(home)
    for i in range(lo, hi):
        case = gen_case(i)
        cfg = case["cfg"]
        sandbox.write_control(home, "me", cfg.me)
        for k, v in cfg.controls.items():
            sandbox.write_control(home, k, v)
        envx = {k: v.decode("latin1") for k, v in cfg.env.items()}
        envx1 = dict(envx)
        if case["flags"]:
            envx1["QMAILINJECT"] = case["flags"]
        argv = []
        if case["mode"] in ("-h", "-a", "-H"):
            argv.append(case["mode"])
        if case["mode"] == "-A+args":
            argv.append("-A")
        if case["sender"] is not None:
            argv += ["-f", os.fsdecode(case["sender"])] if case["sender"] else ["-f", ""]
        if case["args"]:
            argv += ["--"] + [os.fsdecode(a) for a, _ in case["args"]]
        use, visible, kind = expected(case)
        res.evaluations += 1
        res.counters.inc("inject_runs")
        res.counters.inc("mode_" + case["mode"])
        wit = {"case_index": i, "message": core.hx(case["msg"][:1500]), "message_hex": case["msg"][:3000].hex(),
               "argv": argv, "QMAILINJECT": case["flags"], "env": envx,
               "controls": {k: (None if v is None else core.hx(v)) for k, v in dict(cfg.controls, me=cfg.me).items()},
               "expected_recipients": [core.hx(g.qualify(m.local, m.domain, cfg)) for m in use[:40]]}
        rc, err, envelope, message = run_inject(b, home, rec, argv, case["msg"], envx1)
        e = err.decode("latin1")
        if rc is None or rc == 111:
            res.inconclusive.append("qmail-inject %s (case %d): %s" % ("watchdog" if rc is None else "temporary error", i, e[-120:]))
            continue
        if "Sanitizer" in e or "runtime error" in e or (rc is not None and rc < 0):
            res.violate("C20/sanitizer/qmail-inject/" + hrun.sanitizer_site(e), "sanitizer report in qmail-inject (rc=%s)" % rc,
                        dict(wit, stderr_tail=e[-2500:]))
            continue
        if rc != 0:
            wit["stderr"] = e[-400:]
            res.violate("C17/inject/refused-valid-message/%s" % kind, "qmail-inject exit %s on a valid message" % rc, wit)
            continue
        pe = parse_envelope(envelope)
        if pe is None:
            res.inconclusive.append("no single well-formed envelope recorded (case %d): %r" % (i, (envelope or b"")[:80]))
            continue
        sender, got = pe
        wit["observed_recipients"] = [core.hx(x) for x in got[:40]]
        if case["features"] or kind != "header":
            res.nontrivial(case["msg"], tuple(argv), case["flags"])
        for x in case["features"]:
            res.counters.inc("feature_" + x)
        res.counters.inc("recipients_expected", len(use))
        ok = True
        diffs = compare(use, cfg, got)
        if diffs:
            report(res, "envelope", kind, diffs, wit)
            ok = False
        if case["sender"] is not None and sender != case["sender"]:
            res.violate("C17/inject/sender/-f", "envelope sender %r for -f %r (fully qualified: nothing to rewrite)" % (
                sender, case["sender"]), wit)
            ok = False
        names = header_field_names(message)
        if b"bcc" in names or b"resent-bcc" in names:
            wit["output_header"] = core.hx(message.split(b"\n\n", 1)[0][:1500])
            res.violate("C17/inject/bcc-kept/%s" % ("resent-bcc" if b"resent-bcc" in names else "bcc"),
                        "Bcc field present in the message handed to qmail-queue", wit)
            ok = False
        if any(f[0] in (b"bcc", b"resent-bcc") for f in case["fields"]):
            res.counters.inc("messages_with_bcc")
        # the rewritten header must parse again to the same addresses
        rc2, err2, envelope2, message2 = run_inject(b, home, rec, ["-h"], message, envx)
        res.counters.inc("reparse_runs")
        e2 = err2.decode("latin1")
        if rc2 is None or rc2 == 111:
            res.inconclusive.append("qmail-inject %s on re-parse (case %d): %s" % ("watchdog" if rc2 is None else "temporary error", i, e2[-120:]))
            continue
        if "Sanitizer" in e2 or "runtime error" in e2 or rc2 < 0:
            res.violate("C20/sanitizer/qmail-inject/" + hrun.sanitizer_site(e2), "sanitizer report in qmail-inject on its own output",
                        dict(wit, stderr_tail=e2[-2500:], rewritten=core.hx(message[:1500])))
            continue
        pe2 = parse_envelope(envelope2) if rc2 == 0 else None
        wit["rewritten_header"] = core.hx(message.split(b"\n\n", 1)[0][:2000])
        if pe2 is None:
            wit["stderr"] = e2[-400:]
            res.violate("C17/inject/reparse/refused", "qmail-inject (exit %s) does not accept the header it wrote" % rc2, wit)
            continue
        diffs = compare(visible, cfg, pe2[1])
        if diffs:
            report(res, "reparse", kind, diffs, wit)
            ok = False
        if ok:
            res.counters.inc("inject_cases_exact")
            if len(case["features"]) >= 5:
                res.sample({"header": core.hx(case["msg"][:300]), "argv": argv, "envelope": [core.hx(x) for x in got[:8]]}, cap=2)
    return res


# ------------------------------------------------------------------ (d) addrmangle() output through the real qmail-smtpd

ALPHABET = b"()<>@,;:\\\".[] \r\t\x80\xffaB"


def smtpd_worker(bdir, hbin, lo, hi, per):
    """sessions lo..hi: `per` recipients each, encoded by the real addrmangle() (harness), sent as
    RCPT TO:<...> lines exactly as qmail-remote writes them to the real qmail-smtpd binary; the
    envelope it hands to the queue program must list the very same addresses in order"""
    home = build.mktemp("nqv-c17-s-")
    try:
        return _smtpd_worker(bdir, hbin, lo, hi, per, home)
    finally:
        shutil.rmtree(home, ignore_errors=True)


def _smtpd_worker(bdir, hbin, lo, hi, per, home):
    res = core.Result()
    b = build.Build("asan", bdir)
    sandbox.make_home(b, home, controls={"me": "server.test"}, bins=("qmail-smtpd",), queue=False)
    rec = home + "/rec"
    os.makedirs(rec)
    private_qqrec(home)
    for i in range(lo, hi):
        rng = core.case_rng(PROP, i, "smtpd")
        addrs = []
        for _ in range(per):
            n = rng.choice([0, 1, 1, 2, 3, 4, 6, 10, 30, 64])
            k = rng.random()
            if k < 0.6:
                local = bytes(rng.choice(ALPHABET) for _ in range(n))
            elif k < 0.8:
                local = bytes(rng.choice([c for c in range(1, 256) if c != 10]) for _ in range(n))
            else:
                local = rng.choice(g.PLAIN_WORDS + g.ODD_WORDS)
            addrs.append(local + b"@" + rng.choice([b"h.test", b"[1.2.3.4]", b"x", b"Sub.Dom.Example"]))
        ap = home + "/addrs"
        with open(ap, "wb") as f:
            f.write(b"".join(a + b"\0" for a in addrs))
        rc, out, err = core.run_with_watchdog([hbin, "mangle", ap], 60, env=b.env())
        mang = [bytes.fromhex(l[2:]) if l[2:] != "-" else b"" for l in out.decode("latin1").split("\n") if l.startswith("M ")]
        if rc != 0 or len(mang) != len(addrs):
            res.inconclusive.append("h_quote822 mangle rc=%s, %d of %d lines" % (rc, len(mang), len(addrs)))
            continue
        session = b"HELO client.test\r\nMAIL FROM:<>\r\n" + b"".join(b"RCPT TO:<" + m + b">\r\n" for m in mang) + \
            b"DATA\r\nSubject: c17\r\n\r\nbody\r\n.\r\nQUIT\r\n"
        for f in glob.glob(rec + "/*"):
            os.unlink(f)
        sp = home + "/session"
        with open(sp, "wb") as f:
            f.write(session)
        env = b.env(home, {"QMAILQUEUE": home + "/bin/qq-rec", "NQV_REC": rec, "TCPREMOTEIP": "192.0.2.7", "TCPLOCALIP": "192.0.2.1"})
        with open(sp, "rb") as fin:
            rc, out, err = core.run_with_watchdog([home + "/bin/qmail-smtpd"], 60, env=env, stdin=fin)
        e = err.decode("latin1")
        res.evaluations += 1
        res.counters.inc("smtpd_sessions")
        if rc is None:
            res.inconclusive.append("qmail-smtpd watchdog (session %d)" % i)
            continue
        if "Sanitizer" in e or "runtime error" in e or rc < 0:
            res.violate("C20/sanitizer/qmail-smtpd/" + hrun.sanitizer_site(e), "sanitizer report in qmail-smtpd (rc=%s)" % rc,
                        {"case_index": i, "session": core.hx(session[:2000]), "stderr_tail": e[-2500:]})
            continue
        replies = [l for l in out.split(b"\r\n") if l]
        # greeting, HELO, MAIL, per RCPT, DATA 354, 250 queued, QUIT
        rcpt_replies = replies[3:3 + per]
        envs = glob.glob(rec + "/*.env")
        pe = None
        if len(envs) == 1:
            with open(envs[0], "rb") as f:
                pe = parse_envelope(f.read())
        wit = {"case_index": i, "addresses": [core.hx(a) for a in addrs], "addresses_hex": [a.hex() for a in addrs],
               "encoded": [core.hx(m) for m in mang], "replies": [core.hx(r) for r in replies[:per + 8]]}
        if len(rcpt_replies) != per or any(not r.startswith(b"250") for r in rcpt_replies):
            res.violate("C17/smtp-e2e/refused", "the server refused a recipient its own client encoded", wit)
            continue
        if pe is None:
            res.inconclusive.append("qmail-smtpd session %d: no envelope recorded, replies %r" % (i, replies[-3:]))
            continue
        wit["observed"] = [core.hx(x) for x in pe[1]]
        for a in addrs:
            res.nontrivial("smtpd", a)
        res.counters.inc("smtpd_recipients", per)
        if pe[1] != addrs:
            bad = [k for k in range(min(len(addrs), len(pe[1]))) if addrs[k] != pe[1][k]]
            wit["first_difference"] = {"sent": core.hx(addrs[bad[0]]), "received": core.hx(pe[1][bad[0]])} if bad else "count"
            res.violate("C17/smtp-e2e/address-differs", "address received by qmail-smtpd differs from the one qmail-remote encoded", wit)
        else:
            res.counters.inc("smtpd_sessions_exact")
            res.sample({"smtp_address": core.hx(addrs[0]), "sent_as": core.hx(b"RCPT TO:<" + mang[0] + b">")}, cap=1)
    return res


def main(tier):
    t0 = time.time()
    b = build.vbuild("asan")
    hbin = build_harness(b)
    env = b.env()
    quick = tier == "quick"
    maxL = 5 if quick else 6
    nrand = core.scaled(400000 if quick else 20000000)
    nlists = core.scaled(60000 if quick else 1500000)
    ninj = core.scaled(5000 if quick else 200000)
    nsess = core.scaled(150 if quick else 5000)
    jobs = []
    for L in range(0, maxL + 1):
        n = 20 ** L
        for lo, hi in core.chunks(n, 1 if n < 200000 else min(256, n // 200000)):
            jobs.append(["enum", L, lo, hi])
    for j in range(16):
        jobs.append(["rand", nrand // 16, core.seed() * 1000 + j, 64 if j % 4 else 250])
    res = core.Result()
    parts = [
        hrun.run_many(hbin, jobs, env, timeout=3600),
        core.pmap(lists_worker, [(hbin, env, lo, hi) for lo, hi in core.chunks(nlists, core.JOBS * 2)], timeout=7200),
        core.pmap(inject_worker, [(b.dir, lo, hi) for lo, hi in core.chunks(ninj, core.JOBS * 2)], timeout=14400),
        core.pmap(smtpd_worker, [(b.dir, hbin, lo, hi, 40) for lo, hi in core.chunks(nsess, core.JOBS)], timeout=7200),
    ]
    for part in parts:
        part.samples = part.samples[:3]          # real cases from every part in the evidence
        res.merge(part)
    rule = ("(a) every local part of length <= %d over the 20-symbol alphabet ( ) < > @ , ; : \\ \" . [ ] SP CR TAB 0x80 0xff a B, "
            "plus %d random local parts of 1-64 (a quarter: 1-250) bytes without NUL/LF, each through quote2 -> token822_parse -> addrlist -> "
            "unquote, token822_unparse -> parse again, and addrmangle -> smtpd addrparse; (b) %d generated RFC 822 fields (comments, "
            "quoted strings, literals, routes, groups, folding, missing commas, null elements) through token822_addrlist, expected "
            "mailboxes known by construction, and again after unparse; (c) %d generated messages through the real qmail-inject with "
            "qq-rec as queue across -a/-h/-H/-A/-f, QMAILINJECT letters and defaulthost/defaultdomain/plusdomain (control, absent, "
            "environment override), each re-injected once with -h; (d) %d SMTP sessions of 40 recipients each: addresses encoded by the real "
            "addrmangle() and sent as RCPT TO:<...> to the real qmail-smtpd binary, its queue envelope compared in order. Non-trivial = local part needs quoting (a), distinct generated "
            "field (b), message using a grammar feature beyond plain addr-specs or a command-line recipient (c)." % (
                maxL, nrand, nlists, ninj, nsess))
    extra = {"exhaustive": True, "exhaustive_scope": "all local parts of length <= %d over a 20-symbol alphabet (harness part only)" % maxL}
    return core.finish(PROP, tier, "exploration", res, rule, t0, extra=extra, assumptions=[
        "expected mailboxes come from the generator's construction (nqv/gen_rfc822.py), no second RFC 822 parser is trusted",
        "rewriting rules from qmail-header(5) and qmail-inject(8): lone box -> defaulthost; host ending in + -> plusdomain; host without dots -> defaultdomain; literals and dotted names unchanged",
        "recipients compared as multisets (qmail-inject emits the recipients of one field in reverse order)",
        "valid lists only; no NUL or LF inside an address; -f checked only for fully qualified senders (nothing to rewrite)",
        "addrparse() is called in-process with 'TO:<...>' (localiphost substitution off); the command reader is covered by part (d) only"])


def replay(path):
    with open(path) as f:
        w = json.load(f)
    print(json.dumps(w, indent=1)[:6000])
    os.environ["VERIF_SEED"] = str(w.get("seed", 1))
    print("re-running ./check C17 --tier %s with VERIF_SEED=%s (cases are addressed by case_index / harness_args under that seed)" % (
        w.get("tier"), w.get("seed")))
    return main(w.get("tier", "quick"))
