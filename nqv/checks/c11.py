"""C11 - local deliveries run as exactly the right user, never root (DESIGN.md section 3, C11).

(a) harness/h_cdb.c: random tables through the real cdbmss_* writer and cdb_seek reader.
(b) whole programs: the real qmail-newu compiles a generated users/assign; the real qmail-lspawn
    (root) gets delivery commands on fd 0 with bin/qmail-local = ql-rec and the real
    bin/qmail-getpw; getpwnam is served by nqshim.so from a generated passwd file; the shim logs
    setgroups/setgid/setuid.  Oracle: refmodel/users_model.py (from the man pages).
(c) damaged users/cdb: differential against an independent cdb reader over the same bytes.
(d) table / lookup faults must give Z reports.
"""
import json
import os
import pwd
import shutil
import time

from .. import core, build, hrun, sandbox
from .. import shim as _shim
from ..refmodel import users_model as um

PROP = "C11"
CDB_OBJS = "cdbmss.o cdbmake.a cdb.a stralloc.a substdio.a error.a str.a".split()
SYSNAMES = ["root", "games", "daemon", "lp", "proxy", "mail", "news", "uucp"]
ALIAS = b"games"
DEFAULT = b"./Mailbox"
QL_OUT = b"did-ql-rec\n"
MESSNUM = 23                      # queue/mess/0/23
MODES = ["table"] * 14 + ["nocdb", "nocdb", "malformed", "malformed", "cdb-empty", "cdb-dir",
                          "getpw-missing", "getpw-fails", "noalias", "emptytable"]


def flipcase(rng, b):
    out = bytearray(b)
    for i, c in enumerate(out):
        if (65 <= c <= 90 or 97 <= c <= 122) and rng.random() < 0.4:
            out[i] = c ^ 32
    return bytes(out)


# ------------------------------------------------------------------ generators

def gen_accounts(rng, hd, qhome):
    """-> (accounts dict name->Account, owners dict home->uid|None, passwd text).  Creates the
    home directories below hd with the chosen owners."""
    os.makedirs(hd + "/h")
    os.makedirs(hd + "/priv")
    os.chmod(hd, 0o755)
    os.chmod(hd + "/h", 0o755)
    os.chmod(hd + "/priv", 0o700)            # root only: invisible to qmail-getpw
    accounts, owners, lines = {}, {}, []
    for n in SYSNAMES:
        p = pwd.getpwnam(n)
        home = (qhome + "/alias") if n == "games" else p.pw_dir
        a = um.Account(n.encode(), p.pw_uid, p.pw_gid, home.encode())
        accounts[a.name] = a
        try:
            owners[a.home] = os.stat(home).st_uid
        except OSError:
            owners[a.home] = None
    pool = [b"joe", b"joe-list", b"joe-list-dev", b"ann", b"bob", b"a", b"x" * 31, b"y" * 32, b"root0",
            b"Upper", b"jo", b"info", b"list", b"k" * 30 + b"-z"]
    rng.shuffle(pool)
    for idx, name in enumerate(pool[:rng.randint(2, 8)]):
        uid = 0 if name == b"root0" else rng.choice([rng.randint(1000, 60000), rng.randint(1, 999), 2 ** 31 - 2])
        gid = rng.choice([uid, rng.randint(100, 60000), 0]) if uid else 0
        k = rng.random()
        if k < 0.62:
            home = "%s/h/%d" % (hd, idx)
            os.mkdir(home)
            os.chown(home, uid, gid)
            owners[home.encode()] = uid
        elif k < 0.72:                       # owned by root
            home = "%s/h/%d" % (hd, idx)
            os.mkdir(home)
            owners[home.encode()] = 0
        elif k < 0.80:                       # owned by somebody else
            home = "%s/h/%d" % (hd, idx)
            os.mkdir(home)
            os.chown(home, uid + 1, gid)
            owners[home.encode()] = uid + 1
        elif k < 0.90:                       # does not exist
            home = "%s/h/%d" % (hd, idx)
            owners[home.encode()] = None
        else:                                # exists, owned, but not visible to the passwd user
            home = "%s/priv/%d" % (hd, idx)
            os.mkdir(home)
            os.chown(home, uid, gid)
            owners[home.encode()] = None
        accounts[name] = um.Account(name, uid, gid, home.encode())
    for a in accounts.values():
        lines.append(b"%s:x:%d:%d::%s:/bin/sh\n" % (a.name, a.uid, a.gid, a.home))
    return accounts, owners, b"".join(lines)


UNDEF_IDS = [b"", b"x12", b"12x", b"4294967296", b"4294967297", b"-5", b" 7", b"99999999999999999999"]


def gen_assign(rng, accounts):
    """-> users/assign text (valid per qmail-users(5))"""
    names = [a for a in accounts if a not in (b"root", b"daemon", b"lp", b"proxy", b"mail", b"news", b"uucp")]
    bases = names + [b"list", b"info", b"Joe.Shmoe", b"sales", b"a", b"ab", b"abc", b"caf\xe9", b"joe", b"ann"]
    lines = []
    locs = []

    def data(evil=False):
        a = accounts[rng.choice(names)]
        r = rng.random()
        uid = b"%d" % (a.uid if a.uid and rng.random() < 0.5 else rng.randint(1000, 60000))
        if r < 0.09:
            uid = b"0"
        elif r < 0.13:
            uid = rng.choice(UNDEF_IDS)
        elif r < 0.15:
            uid = b"000" + uid
        gid = b"%d" % rng.randint(100, 60000)
        r = rng.random()
        if r < 0.04:
            gid = b"0"
        elif r < 0.06:
            gid = rng.choice(UNDEF_IDS)
        user = b"evil" if evil else rng.choice([a.name, a.name, b"virt", b"Mixed.User", b""])
        home = rng.choice([a.home, a.home, b"/nonexistent/nqv/h", b"/", b"relative/home"])
        dash = rng.choice([b"-", b"-", b"", b"+", b"-x-"])
        ext = rng.choice([b"", b"", b"pre", b"Pre-", b"x-y", b"default"])
        return b":".join([user, uid, gid, home, dash, ext])

    n = rng.randint(1, 14)
    for _ in range(n):
        r = rng.random()
        base = rng.choice(bases)
        if r < 0.35:
            kind = b"="
            loc = base + rng.choice([b"", b"", b"-list", b"-a-b", b".x", b"-"])
        else:
            kind = b"+"
            loc = base + rng.choice([b"", b"-", b"-", b"-list-", b"+", b".", b"=", b"X", b"-Q", b"-l"])
            if rng.random() < 0.12:
                loc = b""
            elif rng.random() < 0.25 and locs:          # overlapping prefix chain
                prev = rng.choice(locs)
                loc = rng.choice([prev[:max(0, len(prev) - 1)], prev + b"-", prev + rng.choice([b"x", b"Z", b"-y-"])])
        if rng.random() < 0.35:
            loc = flipcase(rng, loc)
        evil = False
        if locs and rng.random() < 0.2:                  # duplicate of an earlier key (maybe other case)
            loc = rng.choice(locs)
            if rng.random() < 0.5:
                loc = flipcase(rng, loc)
            evil = True
        if b":" in loc or b"\n" in loc:
            continue
        locs.append(loc)
        lines.append(kind + loc + b":" + data(evil) + b":\n")
    if rng.random() < 0.05:
        # a table of realistic size: hundreds of further keys (multi-slot hash tables, a cdb of tens of kilobytes)
        for j in range(rng.choice([200, 700])):
            filler = rng.choice([b"=", b"+"]) + b"zz%d%s" % (j, rng.choice([b"", b"-", b".x"])) + b":" + data() + b":\n"
            lines.insert(rng.randint(0, len(lines)), filler)
    return b"".join(lines) + b".\n"


def gen_malformed(rng, good):
    lines = good.split(b"\n")[:-2]            # without the dot line
    k = rng.randrange(5)
    if k == 0:                                # no terminating dot line
        return b"".join(l + b"\n" for l in lines) or b"=a:b:1:2:/h:::\n"
    if k == 1:                                # a line with too few fields (1..6 of the 7 colons)
        f = [b"short", b"user", b"1000", b"1000", b"/home", b"-", b"ext", b""]
        lines.insert(rng.randint(0, len(lines)), rng.choice([b"=", b"+"]) + b":".join(f[:rng.randint(2, 7)]))
    elif k == 2:                              # a line without any colon
        lines.insert(rng.randint(0, len(lines)), b"=nocolon")
    elif k == 3:                              # NUL in a line
        lines.insert(rng.randint(0, len(lines)), b"=nul\0x:user:1000:1000:/home:-::")
    else:                                     # unterminated last line that is not the dot line
        return b"".join(l + b"\n" for l in lines) + b"=tail:user:1000:1000:/home:-::"
    return b"".join(l + b"\n" for l in lines) + b".\n"


def gen_locals(rng, entries, accounts, n):
    out = []
    fixed = [b"nobody", b"postmaster", b"root", b"ROOT-x", b"games", b"Games-a", b"daemon", b"mail-x",
             b"a" * 31, b"a" * 32 + b"-x", b"b" * 40, b"", b"x@y", b"\xff\xfe", b"sp ace", b"tab\there",
             b"new\nline", b"-", b"--", b"-joe", b"joe", b"JOE-List-Dev-x", b"root0", b"root0-x", b"upper", b"Upper-x"]
    for e in entries or []:
        loc = e.loc
        out += [loc, flipcase(rng, loc), loc + b"x", loc + b"-Ext", loc[:-1], loc + b"Foo-Bar", loc.upper(),
                loc + rng.choice([b"-", b"+", b".", b"="]) + b"q"]
    for a in accounts.values():
        nm = a.name
        out += [nm, nm.upper(), nm + b"-ext", nm + b"-Ext-e2", nm + b"x", nm + b"-", nm + b"--x", nm[:-1],
                flipcase(rng, nm) + b"-" + flipcase(rng, b"list-dev-x")]
    rng.shuffle(out)
    pick = out[:max(0, n - 10)] + rng.sample(fixed, 10)
    seen, res = set(), []
    for l in pick:
        if l in seen or b"\0" in l:
            continue
        seen.add(l)
        res.append(l)
    return res[:n]


def corruptions(rng, data, keys, n):
    """n damaged variants of a compiled table (bytes), biased towards the places the look-ups of
    `keys` touch"""
    out = []
    L = len(data)
    slots = [8 * (um.cdb_hash(k) & 255) for k in keys] or [0]
    end_records = min(int.from_bytes(data[8 * i:8 * i + 4], "little") for i in range(256)) if L >= 2048 else L
    # record headers (offset, klen, dlen) of the undamaged file, for the directed "value-length" damage
    rec_at = []
    p = 2048
    while p + 8 <= end_records:
        kl, dl = int.from_bytes(data[p:p + 4], "little"), int.from_bytes(data[p + 4:p + 8], "little")
        rec_at.append((p, kl, dl))
        p += 8 + kl + dl
    for it in range(n):
        b = bytearray(data)
        k = rng.random()
        if (it == 0 or k < 0.12) and rec_at:
            # a record whose value ends early: empty, a few bytes, cut inside / right after any field
            what = "value-length"
            p, kl, dl = rng.choice(rec_at[:-1] or rec_at)
            val = data[p + 8 + kl:p + 8 + kl + dl]
            cuts = [0, 1, 2] + [i for i, c in enumerate(val) if c == 0] + [i + 1 for i, c in enumerate(val) if c == 0]
            nd = rng.choice(cuts + [rng.randrange(0, dl + 1)])
            b[p + 4:p + 8] = min(nd, dl).to_bytes(4, "little")
        elif (it == 1 or k < 0.2) and rec_at:
            # a record header (key or data length) replaced by a number far beyond the file
            what = "record-length"
            p, kl, dl = rec_at[-1] if rng.random() < 0.5 else rng.choice(rec_at)
            v = rng.choice([0x80000000, 0x80000000, 0xffffffff, 0x7fffffff, 0x90000000, L, L - p, 0xfffffff0,
                            (1 << 32) - rng.randint(1, 48), (1 << 32) - rng.randint(1, 48), (1 << 31) + rng.randint(-24, 24)])
            f = 4 if rng.random() < 0.75 else 0
            b[p + f:p + f + 4] = (v & 0xffffffff).to_bytes(4, "little")
        elif k < 0.30:
            what = "truncate"
            cut = rng.choice([0, 8, 2047, 2048, L - 1, L - 8, rng.randrange(0, L + 1), 8 * rng.randrange(0, L // 8 + 1),
                              end_records, max(0, end_records - rng.randint(1, 12))])
            b = b[:max(0, cut)]
        elif k < 0.50:
            what = "flip"
            for _ in range(rng.randint(1, 3)):
                region = rng.random()
                if region < 0.3:
                    p = rng.choice(slots) + rng.randrange(8)
                elif region < 0.7 and end_records > 2048:
                    p = rng.randrange(2048, end_records)
                else:
                    p = rng.randrange(L)
                b[p] ^= 1 << rng.randrange(8)
        elif k < 0.65:
            what = "byte"
            for _ in range(rng.randint(1, 4)):
                b[rng.randrange(2048, L) if L > 2048 and rng.random() < 0.7 else rng.randrange(L)] = rng.randrange(256)
        else:
            what = "pointer"
            v = rng.choice([0xffffffff, 0xffffffff, 0, 0x7fffffff, 0x80000000, L - 1, L, L + 1, 2048, L - 8, 1, 0xfffffff8,
                            0xfffffff0, rng.randrange(0, L + 64)]) & 0xffffffff
            region = rng.random()
            if region < 0.45:
                p = rng.choice(slots) + rng.choice([0, 4])
            elif region < 0.75 and L > end_records:
                p = end_records + 4 * rng.randrange(0, (L - end_records) // 4)
            elif end_records > 2048:
                p = 2048 + rng.choice([0, 4])           # first record header
            else:
                p = 4 * rng.randrange(0, L // 4)
            b[p:p + 4] = v.to_bytes(4, "little")
        out.append((what, bytes(b)))
    return out


# ------------------------------------------------------------------ running the real programs

def is_sanitizer(err):
    """an actual report (not the allocator's 'failed to allocate' warning under allocator_may_return_null)"""
    return b"ERROR: AddressSanitizer" in err or b"runtime error:" in err or b"SUMMARY: " in err


def snapshot_tools(names=("nqshim.so", "ql-rec")):
    """private copies of the shared stand-ins (bin/ may be rebuilt by somebody else while a check
    runs; a half-written nqshim.so would silently not be preloaded)"""
    d = build.mktemp("nqv-tools-")
    os.chmod(d, 0o755)
    for attempt in range(20):
        ok = True
        for n in names:
            shutil.copy(_shim.tool(n), os.path.join(d, n))
            os.chmod(os.path.join(d, n), 0o755)
        rc, out, err = core.run_with_watchdog(["/bin/true"], 20, env={"LD_PRELOAD": os.path.join(d, "nqshim.so")})
        if rc != 0 or err:
            ok = False
        for n in names:
            with open(os.path.join(d, n), "rb") as f:
                if f.read(4) != b"\x7fELF":
                    ok = False
        if ok:
            return d
        time.sleep(0.5)
    raise core.Inconclusive("bin/nqshim.so or a stand-in is not loadable")


class Box:
    """one worker's sandbox: a qmail home with the real programs, a record dir, a shim log"""

    def __init__(self, b, tools):
        self.b = b
        self.tools = tools
        self.base = build.mktemp("nqv-c11-")
        os.chmod(self.base, 0o755)
        self.home = self.base + "/q"
        sandbox.make_home(b, self.home, bins=("qmail-lspawn", "qmail-getpw", "qmail-newu"), queue=False)
        shutil.copy(os.path.join(tools, "ql-rec"), self.home + "/bin/qmail-local")
        os.chmod(self.home + "/bin/qmail-local", 0o755)
        d = "%s/queue/mess/%d" % (self.home, MESSNUM % 23)
        os.makedirs(d)
        self.mess = "%d/%d" % (MESSNUM % 23, MESSNUM)
        with open(d + "/%d" % MESSNUM, "wb") as f:
            f.write(b"Subject: c11\n\nbody\n")
        os.chown(d + "/%d" % MESSNUM, sandbox.uid("q"), sandbox.gid("q"))
        os.chown(self.home + "/alias", sandbox.uid("a"), 0)
        self.rec = self.base + "/rec"
        self.stderr = []
        os.mkdir(self.rec)
        os.chmod(self.rec, 0o1777)
        self.clock = self.base + "/clock"
        with open(self.clock, "wb") as f:
            f.write(b"\0" * 4096)
        self.log = self.base + "/log"
        self.passwd = self.base + "/passwd"
        self.getpw_real = self.home + "/bin/qmail-getpw.real"
        shutil.copy(self.home + "/bin/qmail-getpw", self.getpw_real)

    def env(self):
        e = self.b.env(self.home)
        # (ASan's log_path cannot be combined with the shim; sanitizer reports are taken from stderr: a
        # delivery child still has qmail-lspawn's stderr while it reads users/cdb)
        e.update({"LD_PRELOAD": os.path.join(self.tools, "nqshim.so"), "NQV_PASSWD": self.passwd,
                  "NQV_REC": self.rec, "NQV_TRACE": "i", "NQV_LOG": self.log, "NQV_CLOCK": self.clock,
                  "NQV_QL_OUT": QL_OUT.decode()})
        if getattr(self, "idfail", None):
            e["NQV_IDFAIL"] = self.idfail
        return e

    def newu(self):
        rc, out, err = core.run_with_watchdog([self.home + "/bin/qmail-newu"], 60, env=self.env())
        if rc is None:
            rc, out, err = core.run_with_watchdog([self.home + "/bin/qmail-newu"], 60, env=self.env())
        self.stderr = [err.decode("latin1")] if is_sanitizer(err) else []
        return rc, err

    def set_getpw(self, kind):
        p = self.home + "/bin/qmail-getpw"
        if os.path.lexists(p):
            os.unlink(p)
        if kind == "real":
            shutil.copy(self.getpw_real, p)
        elif kind == "missing":
            pass
        else:                               # a failing stand-in: exit code or signal
            with open(p, "w") as f:
                f.write("#!/bin/sh\n%s\n" % kind)
            os.chmod(p, 0o755)

    def sanitizer_reports(self):
        out, self.stderr = self.stderr, []
        return out

    def lspawn(self, locals_, domain=b"local.test", timeout=120):
        """-> (reports {idx: bytes}, records {idx: rec}, idevents {pid: [events]}, problem|None)"""
        for f in os.listdir(self.rec):
            os.unlink(os.path.join(self.rec, f))
        if os.path.exists(self.log):
            os.unlink(self.log)
        cmds = bytearray()
        for idx, l in enumerate(locals_):
            cmds += bytes([idx]) + self.mess.encode() + b"\0" + b"s%d@sender.test" % idx + b"\0" + l + b"@" + domain + b"\0"
        cf = self.base + "/cmds"
        with open(cf, "wb") as f:
            f.write(cmds)
        for attempt in (0, 1):
            with open(cf, "rb") as fin:
                rc, out, err = core.run_with_watchdog([self.home + "/bin/qmail-lspawn", DEFAULT.decode()], timeout,
                                                      env=self.env(), stdin=fin)
            if rc is not None:
                break
        if rc is None:
            return None, None, None, "qmail-lspawn watchdog"
        self.stderr = [err.decode("latin1")] if is_sanitizer(err) else []
        if self.stderr and rc != 0:
            return {}, {}, {}, None
        if rc != 0 or len(out) < 1:
            return None, None, None, "qmail-lspawn rc=%s stderr=%r" % (rc, err[-300:])
        reports = {}
        p = 1
        while p < len(out):
            d = out[p]
            z = out.find(b"\0", p + 1)
            if z < 0:
                return None, None, None, "unterminated report"
            if d in reports:
                return None, None, None, "two reports for delivery %d" % d
            reports[d] = out[p + 1:z]
            p = z + 1
        records = {}
        for f in sorted(os.listdir(self.rec)):
            r = {"args": [], "pid": int(f.split(".")[1])}
            with open(os.path.join(self.rec, f)) as fh:
                for line in fh:
                    k, _, v = line.rstrip("\n").partition("=")
                    if k == "arg":
                        r["args"].append(bytes.fromhex(v))
                    elif k in ("uid", "euid", "gid", "egid"):
                        r[k] = int(v) & 0xffffffff          # ql-rec prints ids as signed ints
                    elif k == "groups":
                        r["groups"] = [int(x) & 0xffffffff for x in v.split(",") if x]
                    elif k == "cwd":
                        r["cwd"] = v
            snd = r["args"][8] if len(r["args"]) > 8 else b""
            try:
                idx = int(snd[1:snd.index(b"@")])
            except ValueError:
                idx = -1 - len(records)
            records.setdefault(idx, []).append(r)
        ev = {}
        if os.path.exists(self.log):
            with open(self.log) as fh:
                for line in fh:
                    try:
                        e = json.loads(line)
                    except ValueError:
                        continue
                    if e.get("c") in ("setgroups", "setgid", "setuid", "initgroups"):
                        ev.setdefault(e["p"], []).append(e)
        return reports, records, ev, None


def want_tuple(t, local, domain, idx):
    return [b"bin/qmail-local", b"--", t.user, t.home, local, t.dash, t.ext, domain, b"s%d@sender.test" % idx, DEFAULT]


def judge(res, box, ctx, locals_, expect, reports, records, ev, domain, tag, chosen=None, sanitizer_seen=False):
    """expect: idx -> ('deliver',Target,uid,gid) | ('defer',why) | ('undefined',Target|None) | ('trash',)
    tag: key infix ('table', 'corrupt', fault name)"""
    chosen = chosen or {}
    for idx, local in enumerate(locals_):
        exp = expect[idx]
        rep = reports.get(idx)
        recs = records.get(idx, [])
        wit = dict(ctx, local=core.hx(local), local_hex=local.hex(), expect=repr(exp)[:300],
                   report=core.hx(rep) if rep is not None else None,
                   record=[{"args": [core.hx(a) for a in r["args"]], "uid": r.get("uid"), "gid": r.get("gid"),
                            "groups": r.get("groups")} for r in recs][:2])
        res.evaluations += 1
        if rep is None:
            res.inconclusive.append("no report for delivery %d (%s)" % (idx, tag))
            continue
        kind = rep[:1]
        res.counters.setdefault("reports", {})
        res.counters["reports"][kind.decode("latin1")] = res.counters["reports"].get(kind.decode("latin1"), 0) + 1
        if kind == b"Z":
            zt = res.counters.setdefault("z_texts", {})
            t = rep[1:60].decode("latin1").strip()
            zt[t] = zt.get(t, 0) + 1
        if b"ld.so" in rep and b"LD_PRELOAD" in rep:
            res.inconclusive.append("the shim was not loadable in a delivery child")
            continue
        if b"crashed" in rep and sanitizer_seen:
            res.counters.inc("children_aborted_by_sanitizer")      # already reported under its own key
            continue
        if b"crashed" in rep:
            res.violate("C20/sanitizer/qmail-lspawn/child-crashed/" + tag, "a delivery child died by signal", wit)
            continue
        # rules that hold whatever the table says
        for r in recs:
            if r.get("uid") == 0 or r.get("euid") == 0:
                res.violate("C11/%s/delivery-as-root" % tag, "qmail-local was started with uid 0", wit)
        if len(recs) > 1:
            res.violate("C11/%s/delivered-twice" % tag, "two qmail-local runs for one command", wit)
            continue
        if kind == b"D":
            res.violate("C11/%s/permanent-failure-report" % tag, "D report: the delivery would bounce", wit)
            continue
        if kind == b"K" and not recs and exp[0] != "trash":
            res.violate("C11/%s/K-without-delivery" % tag, "success reported but qmail-local never ran", wit)
            continue
        if exp[0] == "trash":
            if kind != b"K" or recs:
                res.violate("C11/%s/trash-address" % tag, "empty mailbox name is not treated as trash", wit)
            else:
                res.counters.inc("trash_ok")
            continue
        if exp[0] == "defer":
            if recs:
                cls = "uid0-entry-delivered" if exp[1] == "uid0" else "delivery-despite-lookup-error"
                key = "C11/%s/%s" % (tag, cls)
                if exp[1].startswith("cdb-damaged/"):
                    key += "/" + exp[1].split("/", 1)[1]
                if chosen.get("entries") is not None and upper_wild_defect(chosen["entries"], chosen.get("fallback"), local, rep, recs):
                    key = "C11/assign/wildcard-uppercase-last-char-ignored"
                res.violate(key, "expected a deferral (%s) but qmail-local ran" % exp[1], wit)
            elif kind != b"Z":
                res.violate("C11/%s/not-deferred" % tag, "expected a Z report (%s)" % exp[1], wit)
            else:
                res.counters.inc("deferred_ok_" + exp[1].split("/")[0])
                if "/" in exp[1]:
                    dc = res.counters.setdefault("damage_classes_deferred", {})
                    dc[exp[1].split("/", 1)[1]] = dc.get(exp[1].split("/", 1)[1], 0) + 1
                res.nontrivial(tag, "defer", exp[1], ctx.get("case"), local)
            continue
        if exp[0] == "undefined":
            if recs:
                res.counters.inc("undefined_id_delivered_nonroot")
            elif kind == b"Z":
                res.counters.inc("undefined_id_deferred")
            continue
        # deliver
        _, t, uid, gid = exp
        if not recs:
            key = "C11/%s/expected-delivery-deferred" % tag
            if chosen.get("entries") is not None and upper_wild_defect(chosen["entries"], chosen.get("fallback"), local, rep, recs):
                key = "C11/assign/wildcard-uppercase-last-char-ignored"
            res.violate(key, "model: deliver as %s (%s) but report is %r" % (core.hx(t.user), t.via, rep[:60]), wit)
            continue
        r = recs[0]
        want = want_tuple(t, local, domain, idx)
        if r["args"] != want:
            diff = [n for n, (a, w) in enumerate(zip(r["args"] + [None] * 10, want)) if a != w]
            names = ["argv0", "dashdash", "user", "homedir", "local", "dash", "ext", "domain", "sender", "defaultdelivery"]
            key = "C11/%s/wrong-%s/%s" % (tag, names[diff[0]] if diff else "argc", t.via)
            if chosen.get("entries") is not None and upper_wild_defect(chosen["entries"], chosen.get("fallback"), local, rep, recs):
                key = "C11/assign/wildcard-uppercase-last-char-ignored"
            wit["want_args"] = [core.hx(a) for a in want]
            res.violate(key, "argv differs from the model (%s)" % t.via, wit)
            continue
        if r.get("uid") != uid or r.get("euid") != uid:
            res.violate("C11/%s/wrong-uid/%s" % (tag, t.via), "uid %s/%s, model %d" % (r.get("uid"), r.get("euid"), uid), wit)
            continue
        if r.get("gid") != gid or r.get("egid") != gid:
            res.violate("C11/%s/wrong-gid/%s" % (tag, t.via), "gid %s/%s, model %d" % (r.get("gid"), r.get("egid"), gid), wit)
            continue
        if any(g != gid for g in r.get("groups", [])):
            res.violate("C11/%s/supplementary-groups" % tag, "groups %r, model only %d" % (r.get("groups"), gid), wit)
            continue
        if rep != b"K" + QL_OUT:
            res.violate("C11/%s/report-text" % tag, "delivered but report is %r" % rep[:60], wit)
            continue
        # privilege order for this process
        evs = ev.get(r["pid"], [])
        su = [e for e in evs if e["c"] == "setuid"]
        if not su:
            res.counters.inc("order_unobserved")
        else:
            last_su = su[-1]
            bad = None
            grp = [e for e in evs if e["c"] in ("setgroups", "initgroups")]
            sg = [e for e in evs if e["c"] == "setgid"]
            if any(e["ret"] != 0 for e in evs):
                bad = "a failing identity call was ignored"
            elif not grp or not sg:
                bad = "no setgroups/setgid before exec"
            elif any(e["q"] > last_su["q"] for e in grp + sg) or evs.index(last_su) < max(evs.index(e) for e in grp + sg):
                bad = "setuid before setgroups/setgid"
            elif last_su["id"] != uid or sg[-1]["id"] != gid:
                bad = "identity calls with other ids than the model"
            if bad:
                wit["id_events"] = [(e["c"], e.get("id"), e["ret"], e["q"]) for e in evs]
                res.violate("C11/%s/privilege-order" % tag, bad, wit)
                continue
            res.counters.inc("privilege_order_checked")
        res.counters.setdefault("delivered_via", {})
        res.counters["delivered_via"][t.via] = res.counters["delivered_via"].get(t.via, 0) + 1
        if t.via != "getpw-alias":
            res.nontrivial(tag, t.via, ctx.get("case"), local)
        if t.via in ("assign-wild", "getpw-ext") and idx % 7 == 0:
            res.sample({"local": core.hx(local), "user": core.hx(t.user), "uid": uid, "gid": gid, "dash": core.hx(t.dash),
                        "ext": core.hx(t.ext), "via": t.via, "mode": tag}, cap=5)
    for idx in records:
        if idx < 0 or idx >= len(locals_):
            res.violate("C11/%s/unexpected-delivery" % tag, "a qmail-local run that matches no command", dict(ctx))


def upper_wild_defect(entries, fallback, local, rep, recs):
    """True iff the observed outcome is exactly what the (repaired) defect 0f89315 produced and
    differs from the documented one: a wildcard whose loc ends in an upper-case letter was
    unreachable unless some wildcard ends in the lower-case letter as written.  Only used to give
    that known class its stable key."""
    written = {e.loc[-1:] for e in entries if e.kind == b"+" and e.loc}
    reach = [e for e in entries if not (e.kind == b"+" and e.loc and um.lower(e.loc)[-1:] not in written)]
    d, m = um.assign_lookup(reach, local), um.assign_lookup(entries, local)
    if d == m:
        return False
    if d is None:
        d = fallback(local) if fallback else None
    e = um.expectation(d)
    if recs:
        return e[0] != "defer" and recs[0]["args"][2:7] == [d.user, d.home, local, d.dash, d.ext]
    return e[0] != "deliver" and rep[:1] == b"Z"


def expect_of(t, why_none="lookup"):
    e = um.expectation(t)
    if e[0] == "defer":
        return ("defer", "uid0" if t is not None else why_none)
    if e[0] == "undefined-id":
        return ("undefined", t)
    return ("deliver", t, e[1], e[2])


def run_case(res, box, i, tier):
    rng = core.case_rng(PROP, i)
    mode = rng.choice(MODES)
    hd = "%s/c%d" % (box.base, i)
    if os.path.exists(hd):
        shutil.rmtree(hd)
    os.mkdir(hd)
    accounts, owners, passwd = gen_accounts(rng, hd, box.home)
    model_accounts = dict(accounts)
    if mode == "noalias":
        passwd = b"".join(l for l in passwd.splitlines(True) if not l.startswith(b"games:"))
        del model_accounts[ALIAS]
    with open(box.passwd, "wb") as f:
        f.write(passwd)
    text = b".\n" if mode == "emptytable" else gen_assign(rng, accounts)
    ctx = {"case": i, "mode": mode, "assign": core.hx(text[:1500]), "assign_hex": text[:1500].hex()}
    res.counters.setdefault("modes", {})
    res.counters["modes"][mode] = res.counters["modes"].get(mode, 0) + 1
    cdbp = box.home + "/users/cdb"
    for p in (cdbp, box.home + "/users/cdb.tmp"):
        if os.path.isdir(p):
            os.rmdir(p)
        elif os.path.exists(p):
            os.unlink(p)
    box.set_getpw("real")
    try:
        entries = um.parse_assign(text)
    except um.AssignError as e:
        raise core.Inconclusive("generator produced an invalid table: %s" % e)
    home_owner = owners.get
    compiled = None
    if mode != "nocdb":
        with open(box.home + "/users/assign", "wb") as f:
            f.write(text)
        rc, err = box.newu()
        res.evaluations += 1
        if rc is None:
            res.inconclusive.append("qmail-newu watchdog")
            return
        reps = box.sanitizer_reports()
        if reps:
            res.violate("C20/sanitizer/qmail-newu/" + hrun.sanitizer_site(reps[0]), "sanitizer report in qmail-newu",
                        dict(ctx, stderr=reps[0][-2000:]))
            return
        if rc != 0 or not os.path.exists(cdbp):
            res.violate("C11/newu/valid-table-refused", "qmail-newu rc=%s on a valid table: %r" % (rc, err[-200:]), ctx)
            return
        with open(cdbp, "rb") as f:
            compiled = f.read()
        # the compiled file, read by the independent reader, must say what the source says
        try:
            recs = um.CdbReader(compiled).records()
            if len(recs) != len(entries) + 1:
                res.violate("C11/newu/record-count", "%d records for %d assignments" % (len(recs), len(entries)), ctx)
        except um.CdbBad as e:
            res.violate("C11/newu/compiled-file-damaged", "independent reader: %s" % e, ctx)
            return
    if mode == "malformed":
        bad = gen_malformed(rng, text)
        try:
            um.parse_assign(bad)
            raise core.Inconclusive("malformed generator produced a valid table")
        except um.AssignError:
            pass
        with open(box.home + "/users/assign", "wb") as f:
            f.write(bad)
        rc, err = box.newu()
        res.evaluations += 1
        ctx["malformed_assign"] = core.hx(bad[:1500])
        now = open(cdbp, "rb").read() if os.path.exists(cdbp) else None
        if rc == 0:
            res.violate("C11/newu/malformed-table-accepted", "qmail-newu exit 0 on a malformed users/assign", ctx)
        elif now != compiled:
            res.violate("C11/newu/cdb-touched-on-error", "users/cdb changed although qmail-newu failed", ctx)
        else:
            res.counters.inc("malformed_refused_cdb_untouched")
            res.nontrivial("malformed", bad)
        box.sanitizer_reports()
    nloc = 50 if tier == "quick" else 100
    locals_ = gen_locals(rng, entries if mode != "nocdb" else None, accounts, nloc)
    domain = rng.choice([b"local.test", b"Local.Test", b"x", b"a.b.c.example"])
    # fault set-up
    fault_tag = "table"
    if mode == "cdb-empty":
        open(cdbp, "wb").close()
        fault_tag = "fault-cdb-empty"
    elif mode == "cdb-dir":
        os.unlink(cdbp)
        os.mkdir(cdbp)
        fault_tag = "fault-cdb-dir"
    elif mode == "getpw-missing":
        box.set_getpw("missing")
        fault_tag = "fault-getpw-missing"
    elif mode == "getpw-fails":
        how = rng.choice(["exit 111", "exit 115", "exit 116", "exit 118", "kill -9 $$", "kill -11 $$", "exit 0"])
        box.set_getpw(how)
        ctx["getpw_standin"] = how
        fault_tag = "fault-getpw-fails"
    elif mode == "noalias":
        fault_tag = "fault-noalias"
    elif mode == "nocdb":
        fault_tag = "nocdb"
    expect = {}
    chosen = {}
    for idx, l in enumerate(locals_):
        if l == b"":
            expect[idx] = ("trash",)
            continue
        if mode in ("cdb-empty", "cdb-dir"):
            expect[idx] = ("defer", "cdb-unreadable")
            continue
        t = um.assign_lookup(entries, l) if mode != "nocdb" else None
        if t is not None:
            chosen[idx] = um.chosen_entry(entries, l)
        if t is None:
            if mode in ("getpw-missing", "getpw-fails"):
                expect[idx] = ("defer", "getpw-failed")
                continue
            t = um.getpw_lookup(model_accounts, home_owner, l, ALIAS)
        expect[idx] = expect_of(t, "no-alias-user")
        # the compiled file read independently must agree with the source-level model
        if compiled is not None and mode in ("table", "emptytable", "malformed"):
            try:
                ct = um.cdb_lookup(compiled, l)
            except um.CdbBad as e:
                ct = e
            st = um.assign_lookup(entries, l)
            if (ct is None) != (st is None) or (ct is not None and st is not None and
                                                 (isinstance(ct, Exception) or ct[:6] != st[:6])):
                key = "C11/newu/compiled-differs-from-source"
                written = {e.loc[-1:] for e in entries if e.kind == b"+" and e.loc}
                dt = um.assign_lookup([e for e in entries if not (e.kind == b"+" and e.loc and
                                                                  um.lower(e.loc)[-1:] not in written)], l)
                if not isinstance(ct, Exception) and ((ct is None and dt is None) or
                                                      (ct is not None and dt is not None and ct[:6] == dt[:6])):
                    key = "C11/assign/wildcard-uppercase-last-char-ignored"
                res.violate(key, "users/cdb (independent reader) says %r, users/assign says %r" % (ct, st),
                            dict(ctx, local=core.hx(l)))
    if mode != "nocdb":
        chosen["entries"] = entries
        if mode in ("getpw-missing", "getpw-fails"):
            chosen["fallback"] = lambda l: None
        else:
            chosen["fallback"] = lambda l: um.getpw_lookup(model_accounts, home_owner, l, ALIAS)
    if i % 5 == 0 and mode not in ("nocdb",):
        # "starts only after supplementary groups, gid and uid have ALL been switched": one of the three switches fails
        # (whatever the reason the kernel gives) - then no delivery agent may be started at all
        box.idfail = rng.choice(["setgroups", "setgid", "setuid"]) + ":" + rng.choice(["EPERM", "EPERM", "EINVAL", "EAGAIN", "ENOMEM"])
        try:
            reports_f, records_f, ev_f, problem_f = box.lspawn(locals_[:4], domain)
        finally:
            which_fail = box.idfail
            box.idfail = None
        box.sanitizer_reports()
        if problem_f:
            res.inconclusive.append("case %d (identity switch failing): %s" % (i, problem_f))
        else:
            res.counters.inc("runs_with_a_failing_identity_switch")
            if records_f:
                res.violate("C11/started-despite-failed-identity-switch/" + which_fail.split(":")[0],
                            "%d delivery agents were started although %s failed" % (len(records_f), which_fail.replace(":", " with ")),
                            dict(ctx, failing=which_fail, locals=[core.hx(x) for x in locals_[:4]]))
    reports, records, ev, problem = box.lspawn(locals_, domain)
    if problem:
        res.inconclusive.append("case %d: %s" % (i, problem))
        return
    reps = box.sanitizer_reports()
    if reps:
        res.violate("C20/sanitizer/qmail-lspawn/" + hrun.sanitizer_site(reps[0]), "sanitizer report under qmail-lspawn",
                    dict(ctx, stderr=reps[0][-2000:]))
    judge(res, box, ctx, locals_, expect, reports, records, ev, domain, fault_tag, chosen, bool(reps))
    # (c) damaged users/cdb
    if mode == "table" and compiled is not None and i % 3 == 0:
        hit = [l for idx, l in enumerate(locals_) if idx in chosen]
        miss = [l for idx, l in enumerate(locals_) if idx not in chosen and l]
        chosen = {}
        probe = (hit[:7] + miss[:3])[:10]
        if probe:
            keys = [b""] + [b"!" + um.lower(l) + b"\0" for l in probe] + [b"!" + um.lower(e.loc) for e in entries if e.kind == b"+"]
            for what, damaged in corruptions(rng, compiled, keys, 6 if tier == "quick" else 12):
                with open(cdbp + ".new", "wb") as f:
                    f.write(damaged)
                os.rename(cdbp + ".new", cdbp)
                cexp = {}
                cls = set()
                slow = False
                for idx, l in enumerate(probe):
                    try:
                        t = um.cdb_lookup(damaged, l)
                        if t is None:
                            t = um.getpw_lookup(model_accounts, home_owner, l, ALIAS)
                            cls.add("falls-to-passwd")
                        else:
                            cls.add("same" if t[:6] == (um.assign_lookup(entries, l) or ())[:6] else "other-valid-table")
                        cexp[idx] = expect_of(t)
                    except um.CdbBad as e:
                        cexp[idx] = ("defer", "cdb-damaged/" + e.cls)
                        cls.add("damage-detected")
                        slow = slow or e.cls == "length-over-2G"
                if slow:
                    # (a data length >= 2^31 costs the unrepaired program gigabytes of scanning per
                    # address: keep such runs small)
                    keep = sorted(range(len(probe)), key=lambda k: len(probe[k]))[:2]
                    probe_run = [probe[k] for k in keep]
                    cexp = {n: cexp[k] for n, k in enumerate(keep)}
                else:
                    probe_run = probe
                cc = res.counters.setdefault("corruption_outcomes", {})
                for c in cls:
                    cc[what + "/" + c] = cc.get(what + "/" + c, 0) + 1
                reports, records, ev, problem = box.lspawn(probe_run, domain, 600 if slow else 120)
                if problem:
                    res.inconclusive.append("case %d corrupt: %s" % (i, problem))
                    continue
                reps = box.sanitizer_reports()
                cctx = {"case": i, "mode": "corrupt/" + what, "cdb_hex": damaged.hex() if len(damaged) < 6000 else damaged[:6000].hex(),
                        "assign": ctx["assign"]}
                if reps:
                    res.violate("C20/sanitizer/qmail-lspawn/" + hrun.sanitizer_site(reps[0]),
                                "sanitizer report under qmail-lspawn reading a damaged users/cdb", dict(cctx, stderr=reps[0][-2000:]))
                judge(res, box, cctx, probe_run, cexp, reports, records, ev, domain, "corrupt", None, bool(reps))
    shutil.rmtree(hd, ignore_errors=True)


def worker(bdir, tools, lo, hi, tier):
    res = core.Result()
    b = build.Build("asan", bdir)
    box = Box(b, tools)
    try:
        for i in range(lo, hi):
            t = time.time()
            try:
                run_case(res, box, i, tier)
            except core.Inconclusive as e:
                res.inconclusive.append("case %d: %s" % (i, e))
            if time.time() - t > 20:
                res.counters.setdefault("slow_cases", []).append("case %d: %.0fs" % (i, time.time() - t))
    finally:
        shutil.rmtree(box.base, ignore_errors=True)     # (pool workers do not run atexit handlers)
    return res


RULE = ("(a) %d random tables (0-2500 keys; duplicate keys, keys sharing one of the 256 buckets, equal-hash keys) written by the "
        "real cdbmss_* and read back key by key with the real cdb_seek; (b) %d generated set-ups: users/assign (1-14 simple/"
        "wildcard lines, overlapping prefix chains, duplicate keys in other case, break characters -+.= and letters, uid 0 and "
        "non-numeric id fields) compiled by the real qmail-newu, a passwd file (2-8 accounts with owned / root-owned / foreign / "
        "missing / invisible homes, uid 0, 31- and 32-character names, upper-case names) served to the real qmail-getpw, and up "
        "to %d local parts each derived from the table keys and account names (case flips, one byte more/less, extensions) sent "
        "to the real qmail-lspawn; modes: table, no users/cdb, empty table, malformed users/assign, empty cdb, cdb is a directory, "
        "qmail-getpw missing/failing, no alias account; (c) every third table: damaged users/cdb (truncations, bit flips, pointer "
        "patches) judged against an independent reader over the same bytes.  Non-trivial = a delivery decided by anything but the "
        "plain alias fallback, or a required deferral; distinct = (case, local part, deciding rule).")


def main(tier):
    t0 = time.time()
    if os.geteuid() != 0:
        raise core.Inconclusive("C11 needs root (qmail-lspawn switches users)")
    b = build.vbuild("asan")
    ntab = core.scaled(48000 if tier == "quick" else 1600000)
    ncase = core.scaled(1500 if tier == "quick" else 24000)
    harness_problem = None
    try:
        hc = b.compile_harness(os.path.join(core.VERIF, "harness/h_cdb.c"), extra_objs=CDB_OBJS)
        jobs = [["rand", max(1, ntab // 32), core.seed() * 100000 + j] for j in range(32)]
        res = hrun.run_many(hc, jobs, b.env(), timeout=1800)
    except core.Inconclusive as e:
        # the whole-program monitor below does not depend on internal names; run it anyway
        harness_problem = str(e)
        res = core.Result()
    res.counters["cdb_lookups"] = res.evaluations
    res.samples = [{"cdb_key": x} for x in res.samples[:2]]
    tools = snapshot_tools()
    wres = core.pmap(worker, [(b.dir, tools, lo, hi, tier) for lo, hi in core.chunks(ncase, core.JOBS * 2)], timeout=7200)
    res.merge(wres)
    if harness_problem:
        res.inconclusive.append(harness_problem[:600])
    rc = core.finish(PROP, tier, "exploration", res, RULE % (ntab, ncase, 50 if tier == "quick" else 100), t0, assumptions=[
        "reference model nqv/refmodel/users_model.py written from qmail-users(5), qmail-getpw(8), qmail-lspawn(8), qmail-newu(8)",
        "privilege order is read from the shim's per-process log of setgroups/setgid/setuid (execv itself is not visible to the "
        "shim; the state at exec is what ql-rec records in the same process id)",
        "id fields that are not decimal numbers below 2^32 are outside qmail-users(5): only 'never uid 0' is judged there",
        "damaged users/cdb: outcome must equal what an independent reader finds in the same bytes; a pointer/length leaving the "
        "file (however large the number is: no 32-bit arithmetic is imitated) must give a Z report",
        "group-membership of conf-users accounts and conf-break '-' as in the scratch build"])
    if harness_problem and rc == 0:
        print("INCONCLUSIVE property=%s: harness h_cdb.c does not build against this tree (whole-program part was silent)" % PROP)
        return 2
    return rc


def replay(path):
    with open(path) as f:
        w = json.load(f)
    cases = sorted({c["witness"].get("case") for c in w.get("cases", []) if isinstance(c.get("witness"), dict) and
                    isinstance(c["witness"].get("case"), int)})
    print("replaying case(s) %s of seed %s (set VERIF_SEED=%s)" % (cases, w.get("seed"), w.get("seed")))
    if not cases:
        print(json.dumps(w, indent=1)[:3000])
        return main(w.get("tier", "quick"))
    b = build.vbuild("asan")
    res = core.Result()
    box = Box(b, snapshot_tools())
    for i in cases:
        run_case(res, box, i, w.get("tier", "quick"))
    for v in res.violations:
        print("VIOLATION key=%s why=%s" % (v["key"], v["why"]))
        print(json.dumps(v["witness"], indent=1, default=core._json_default)[:3000])
    return 1 if res.violations else 0
