"""C15 - retry schedule (DESIGN.md section 3, C15).

This module owns the *arithmetic core*: the real squareroot()/nextretry() of qmail-send.c and the
real prioq.c run in-process (ASan/UBSan build) against the formula of the property statement and a
sorted-multiset model.  The daemon-history part (virtual clock, TERM/restart, ALRM, lifetime) is a
further sub-monitor owned by the engine; it plugs in through MONITORS:

    from nqv.checks import c15
    c15.MONITORS.append(mon_histories)        # def mon_histories(ctx) -> core.Result

Every sub-monitor receives a Ctx (tier, asan build, env) and returns a core.Result; it may append a
sentence to ctx.rule and to ctx.assumptions.  main() merges the Results and calls core.finish().
"""
import os
import time

from .. import core, build, hrun

PROP = "C15"
SEND_OBJS = ("qsutil.o control.o constmap.o newfield.o prioq.o trigger.o fmtqfn.o quote.o readsubdir.o "
             "qmail.o date822fmt.o datetime.a case.a ndelay.a getln.a wait.a fd.a sig.a open.a lock.a "
             "stralloc.a substdio.a error.a str.a fs.a auto_qmail.o auto_split.o env.a").split()
PRIOQ_OBJS = "prioq.o error.a".split()


class Ctx:
    def __init__(self, tier, b):
        self.tier = tier
        self.quick = tier == "quick"
        self.build = b                  # asan Build of the tree under test
        self.env = b.env()
        self.rule = []                  # sentences for the evidence 'rule'
        self.assumptions = []
        self.extra = {}
        self._h = {}

    def harness(self, name, objs, libs=()):
        if name not in self._h:
            self._h[name] = self.build.compile_harness(os.path.join(core.VERIF, "harness", name + ".c"),
                                                       extra_objs=objs, libs=list(libs))
        return self._h[name]


def mon_squareroot(ctx):
    """squareroot(x)^2 <= x < (squareroot(x)+1)^2"""
    h = ctx.harness("h_send_sched", SEND_OBJS)
    jobs = [["sqk"]]
    if ctx.quick:
        n = core.scaled(10000000)
        jobs.append(["sqrand", n, core.seed()])
        ctx.rule.append("squareroot: every k*k-1, k*k, k*k+1 below 2^32 (196 608 arguments) + %d random arguments spread "
                        "over all bit widths (one process, distinct arguments counted in a saturating hash set => undercount)" % n)
    else:
        parts = 64
        step = (1 << 32) // parts
        for i in range(parts):
            jobs.append(["sqrange", i * step, (i + 1) * step])
        ctx.rule.append("squareroot: ALL 2^32 arguments (64 ranges), plus the k*k-1,k*k,k*k+1 boundary set again")
        ctx.extra["exhaustive"] = True
        ctx.extra["exhaustive_scope"] = ("squareroot on every argument 0..2^32-1; prioq on every operation sequence up "
                                         "to the stated length; nextretry and long prioq runs are sampled")
    res = hrun.run_many(h, jobs, ctx.env, timeout=1800)
    res.counters["squareroot_evaluations"] = res.counters.pop("cases", 0)
    res.counters.pop("nontrivial", None)
    return res


def mon_nextretry(ctx):
    """nextretry(birth, chan) == birth + (isqrt(max(0, recent-birth)) + 10|20)^2 and > recent"""
    h = ctx.harness("h_send_sched", SEND_OBJS)
    nb = core.scaled(4096 if ctx.quick else 32768)
    na = 4096 if ctx.quick else 16384
    jobs = [["retry", lo, hi, na, core.seed()] for lo, hi in core.chunks(nb, 16)]
    res = hrun.run_many(h, jobs, ctx.env, timeout=1800)
    res.counters["nextretry_evaluations"] = res.counters.pop("cases", 0)
    res.counters.pop("nontrivial", None)
    ctx.rule.append("nextretry: %d births (0, 1, 2^31, 2^32, year 9999, realistic and random) x %d ages (-100..1099 dense, "
                    "perfect-square boundaries, up to 8 days, up to 2^32-1, negative) x 2 channels with 'recent' set to "
                    "birth+age; non-trivial = age != 0" % (nb, na))
    ctx.assumptions.append("negative age (birth later than 'recent') is treated as age 0, as the code comment and the "
                           "'strictly in the future' clause require; ages >= 2^32 are outside the stated domain")
    return res


def mon_prioq(ctx):
    """prioq_min returns a minimum, delmin removes exactly one minimal element"""
    h = ctx.harness("h_prioq", PRIOQ_OBJS)
    maxlen = 9 if ctx.quick else 11
    jobs = [["enum", maxlen, f, f + 1] for f in range(25)]
    nops = core.scaled(1000000 if ctx.quick else 30000000)
    s = core.seed()
    # (share of the operations, maximal heap size, number of distinct keys)
    shapes = [(0.30, 8, 3), (0.25, 40, 6), (0.20, 200, 50), (0.10, 256, 100000), (0.10, 5000, 40), (0.05, 60000, 1000000)]
    for k, (share, size, nkeys) in enumerate(shapes):
        jobs.append(["rand", int(nops * share), s * 100 + k, size, nkeys])
    res = hrun.run_many(h, jobs, ctx.env, timeout=3600)
    res.counters["prioq_operations"] = res.counters.pop("cases", 0)
    ctx.rule.append("prioq: every sequence of length <= %d over {insert 5, insert 6, insert 3, insert 7, delmin} from the empty "
                    "queue (each sequence run from scratch, full multiset comparison after every operation; non-trivial = has an "
                    "insert and a delmin on a non-empty queue) + %d random operations in grow/drain phases on heaps of up to "
                    "8..60000 elements with 3..10^6 distinct keys and LONG_MIN/LONG_MAX extremes (distinct = distinct "
                    "(multiset, operation) pairs with >= 2 elements)" % (maxlen, nops))
    ctx.assumptions.append("which of several equal-dt elements prioq_min/delmin picks is not specified and not judged")
    return res


def mon_histories(ctx):
    """daemon histories on the qsim engine (virtual clock, TERM/restart, ALRM, lifetimes), see c15_hist.py"""
    from . import c15_hist
    ctx.rule.append("(d) seeded histories of the real qmail-send with a virtual clock: no attempt before the retry time fixed at the "
                    "previous pass opening (observed exactly), prompt once due with free slots, earlier-due first, schedule kept "
                    "over TERM + restart, ALRM makes waiting messages due, past the lifetime a deferral becomes a failure") if isinstance(getattr(ctx, "rule", None), list) else None
    return c15_hist.mon_histories(ctx.tier, ctx.build)


MONITORS = [mon_squareroot, mon_nextretry, mon_prioq, mon_histories]


def main(tier):
    t0 = time.time()
    b = build.vbuild("asan")
    ctx = Ctx(tier, b)
    res = core.Result()
    ran, failed = {}, []
    for mon in list(MONITORS):
        try:
            r = mon(ctx)
        except core.Inconclusive as e:
            r = core.Result()
            r.inconclusive.append("%s: %s" % (mon.__name__, e))
        if r.evaluations < 1:
            failed.append(mon.__name__)          # a sub-monitor that observed nothing decides nothing
        ran[mon.__name__] = int(r.evaluations)
        r.samples = r.samples[:3]
        res.merge(r)
    ctx.extra["sub_monitor_evaluations"] = ran
    rule = " | ".join(ctx.rule) or "(no sub-monitor ran)"
    if failed:
        print("C15: sub-monitor(s) without a single evaluation: %s -- %s" % (
            ", ".join(failed), (res.inconclusive or ["?"])[0][:600]))
    return core.finish(PROP, tier, "exploration", res, rule, t0, extra=ctx.extra,
                       min_distinct=(1 << 62) if failed else 2,
                       assumptions=["reference: integer square root by Newton iteration + fix-up; retry formula and channel "
                                    "constants 10/20 from the property statement; sorted-multiset model keyed by unique ids",
                                    "static functions are reached by #include of the tree's qmail-send.c with main renamed; "
                                    "nothing else of the daemon runs in this part"] + ctx.assumptions)


def replay(path):
    import json
    with open(path) as f:
        w = json.load(f)
    key = w.get("key", "")
    case = (w.get("cases") or [{}])[0]
    wit = case.get("witness") or {}
    print("key: %s\nwhy: %s\nwitness: %s" % (key, case.get("why"), json.dumps(wit)[:600]))
    b = build.vbuild("asan")
    ctx = Ctx(w.get("tier", "quick"), b)
    args = None
    try:
        raw = bytes.fromhex(wit.get("input_hex", "")) if wit.get("input_hex") not in (None, "-") else b""
        if key.startswith("C15/squareroot/"):
            args = ("h_send_sched", SEND_OBJS, ["sq1", raw.decode().split()[0]])
        elif key.startswith("C15/nextretry/"):
            args = ("h_send_sched", SEND_OBJS, ["retry1"] + raw.decode().split()[:3])
        elif key.startswith("C15/prioq/") and not raw.startswith(b"rand"):
            args = ("h_prioq", PRIOQ_OBJS, ["seq", raw.hex()])
        elif key.startswith("C15/prioq/"):
            args = ("h_prioq", PRIOQ_OBJS, raw.decode().split())
    except (ValueError, IndexError):
        args = None
    if args is None:
        print("no single-case replay for this key; re-running the tier with VERIF_SEED=%s" % w.get("seed"))
        os.environ["VERIF_SEED"] = str(w.get("seed", 1))
        return main(w.get("tier", "quick"))
    h = ctx.harness(args[0], args[1])
    res = hrun.run_one(h, args[2], ctx.env, 600)
    if res.violations:
        print("VIOLATION property=C15 replay=%s" % path)
        for v in res.violations[:3]:
            print("  key=%s why=%s (reproduced by %s %s)" % (v["key"], v["why"], args[0], " ".join(args[2])))
        return 1
    if res.inconclusive:
        print("INCONCLUSIVE property=C15: %s" % res.inconclusive[0][:300])
        return 2
    print("OK property=C15: the recorded case no longer fails on this tree")
    return 0
