"""C07 - network daemons acknowledge a message if and only if exactly it was queued
(DESIGN.md section 3, C07).

The real qmail-smtpd, qmail-qmtpd and qmail-qmqpd (asan scratch build) run in a sandbox home, one
process per connection, the client byte stream on descriptor 0 (a file: end of file = the
client disconnected), descriptors 1 and 2 captured to end of file.  Descriptor 2 is inherited
by the queue program, so its end of file (plus a child-subreaper wait) proves that every
descendant has exited before the queue and the record directory are inspected.

Queue side A: $QMAILQUEUE = qq-rec in `tee` mode in front of the REAL qmail-queue and a real
queue: committed = a new queue/todo/<n>.  Queue side B: qq-rec plans (every exit status 0..255,
exit 82 + text on descriptor 6, death by signal, stops reading early); resource trouble: the real
qmail-queue failing at its k-th file operation (nqshim fault plan) and RLIMIT_NOFILE so small
that pipe()/open() fail in the daemon.  With plan exit=0 the
stand-in is a *virtual conforming queue*: committed = the recorded envelope was closed by the
extra NUL (qmail-queue(8): "if it sees end-of-file before the extra 0 byte it aborts").
Commits and acknowledgements are matched through the queue program's pid (`qp` in the reply,
`p<pid>` in the envelope file, record file name).

Oracle: see judge_*() - model-free part (acknowledged <=> committed, Received field
well-formed and naming the peer with safe characters only, no sanitizer report) on every
case; model part from gen_c07 chunks (SMTP) / refmodel.netstring (QMTP, QMQP)."""
import calendar
import ctypes
import json
import os
import random
import re
import resource
import shutil
import time

from .. import core, build, hrun, sandbox
from .. import shim as _shim
from .. import gen_c07 as gen
from ..refmodel import netstring as nsm

PROP = "C07"
QQREC = _shim.tool("qq-rec")
SHIM = _shim.tool("nqshim.so")
BIN = {"smtpd": "qmail-smtpd", "qmtpd": "qmail-qmtpd", "qmqpd": "qmail-qmqpd"}
PROTO = {"smtpd": b"SMTP", "qmtpd": b"QMTP", "qmqpd": b"QMQP"}

# Address-length zones.  The documents give one number: qmail-queue rejects envelope addresses
# longer than 1000 characters (qmail-limits); the daemons' own limits (about 900 / 1000) are
# not documented.  Known fact (DESIGN.md Appendix B): the queue accepts up to 1002.  Hence:
# >= NEVER must be refused permanently; a band below that is lenient (either outcome, but
# consistent); short addresses must be accepted.
ADDR_NEVER = 1003
ADDR_SURE = {"smtpd": 889, "qmtpd": 989, "qmqpd": 989}     # at or below: must be accepted

_MON = "Jan|Feb|Mar|Apr|May|Jun|Jul|Aug|Sep|Oct|Nov|Dec"
_DATE = rb"(\d{1,2}) (" + _MON.encode() + rb") (\d{4}) (\d\d):(\d\d):(\d\d) -0000"
# peer-controlled parts: printable ASCII without space and without RFC 822 specials that could
# end the comment / start a new construct:  ( ) < > , ; \ "
_C = rb"[!#-'*+\--:=?-\[\]-~]*"
RE_QQLINE = re.compile(rb"Received: \(qmail (\d+) invoked (?:by alias|from network|for bounce|by uid \d+)\); " + _DATE + rb"\n")
RE_FIELD = re.compile(rb"Received: from (" + _C + rb")(?: \(HELO (" + _C + rb")\))? \((" + _C + rb")\)\n  by (" + _C +
                      rb") with (SMTP|QMTP|QMQP); " + _DATE + rb"\n")
RE_ACK = re.compile(rb"^250 ok (\d+) qp (\d+)$")
RE_KACK = re.compile(rb"^Kok (\d+) qp (\d+)$")
SURE_SAFE = frozenset(b"abcdefghijklmnopqrstuvwxyzABCDEFGHIJKLMNOPQRSTUVWXYZ0123456789.-")
HARD_UNSAFE = frozenset(list(range(0, 33)) + [0x7f] + list(range(0x80, 256)) + list(b"()<>,;\\\""))


def _subreaper():
    try:
        ctypes.CDLL(None, use_errno=True).prctl(36, 1, 0, 0, 0)      # PR_SET_CHILD_SUBREAPER
    except Exception:
        pass


def _reap():
    """collect re-parented descendants (all of them have exited: their stderr reached EOF)"""
    for _ in range(200):
        try:
            pid, _st = os.waitpid(-1, os.WNOHANG)
        except ChildProcessError:
            return
        if pid == 0:
            time.sleep(0.005)


# ------------------------------------------------------------------ running one connection

class Obs:
    pass


def _clean_queue(home):
    q = home + "/queue"
    for d in ("todo", "intd", "pid"):
        for f in os.listdir(q + "/" + d):
            os.unlink(q + "/" + d + "/" + f)
    for d in os.listdir(q + "/mess"):
        for f in os.listdir(q + "/mess/" + d):
            os.unlink(q + "/mess/" + d + "/" + f)


def _parse_todo(data):
    """u<uid> NUL p<pid> NUL F<sender> NUL (T<rcpt> NUL)*  -> (uid, pid, sender, rcpts) or None"""
    if not data.endswith(b"\0"):
        return None
    t = data[:-1].split(b"\0")
    if len(t) < 3 or t[0][:1] != b"u" or t[1][:1] != b"p" or t[2][:1] != b"F":
        return None
    if not t[0][1:].isdigit() or not t[1][1:].isdigit():
        return None
    if any(x[:1] != b"T" for x in t[3:]):
        return None
    return int(t[0][1:]), int(t[1][1:]), t[2][1:], [x[1:] for x in t[3:]]


def _parse_envrec(data):
    """envelope stream as written by the daemon: F<sender> NUL (T<rcpt> NUL)* NUL; None when
    it is not closed by the extra NUL (a conforming queue program aborts then)"""
    if not data.endswith(b"\0\0") and data != b"\0":
        return None
    t = data[:-2].split(b"\0")
    if t[0][:1] != b"F" or any(x[:1] != b"T" for x in t[1:]):
        return None
    return t[0][1:], [x[1:] for x in t[1:]]


def run_case(b, home, case, timeout=90):
    """-> Obs or None (watchdog fired twice)"""
    dn = case["daemon"]
    wire = gen.wire_of(case)
    if case.get("cut") is not None:
        wire = wire[:case["cut"]]
    sandbox.write_control(home, "databytes", case.get("ctl_db"))
    rec = home + "/rec"
    wf = home + "/wire.bin"
    with open(wf, "wb") as f:
        f.write(wire)
    env = dict(b.env(home))
    env.update({"NQV_REC": rec, "QMAILQUEUE": QQREC, "NQV_QQ_PLAN": case["plan"]})
    shimlog = home + "/shim.log"
    if case.get("shim"):
        env.update({"LD_PRELOAD": SHIM, "NQV_PLAN": case["shim"], "NQV_LOG": shimlog, "NQV_TRACE": "m"})
        if os.path.exists(shimlog):
            os.unlink(shimlog)
    for k, v in case["env"].items():
        env[k] = v
    kw = {}
    if case.get("nofile"):
        lim = int(case["nofile"])
        kw["preexec_fn"] = lambda: resource.setrlimit(resource.RLIMIT_NOFILE, (lim, lim))
    for attempt in (0, 1):
        with open(wf, "rb") as fin:
            rc, out, err = core.run_with_watchdog([home + "/bin/" + BIN[dn]], timeout, env=env, stdin=fin, cwd=home, **kw)
        _reap()
        if rc is not None:
            break
        for f in os.listdir(rec):
            os.unlink(rec + "/" + f)
        _clean_queue(home)
    if rc is None:
        return None
    o = Obs()
    o.rc, o.out, o.err, o.wire = rc, out, err, wire
    # records of the queue stand-in, in the order the daemon opened them
    o.records = []
    names = sorted(os.listdir(rec))
    for n in names:
        if n.endswith(".msg"):
            base = n[:-4]
            pid = int(base.split(".")[1])
            with open(rec + "/" + n, "rb") as f:
                msg = f.read()
            envd = None
            if os.path.exists(rec + "/" + base + ".env"):
                with open(rec + "/" + base + ".env", "rb") as f:
                    envd = f.read()
            o.records.append({"pid": pid, "msg": msg, "env": envd, "meta": os.path.exists(rec + "/" + base + ".meta")})
    for n in names:
        os.unlink(rec + "/" + n)
    # commits
    o.commits = {}          # pid -> list of dicts (a list: pid reuse inside one session is detected, not assumed away)
    o.badcommit = []
    if case["plan"] == "tee":
        tq = home + "/queue/todo"
        for f in sorted(os.listdir(tq)):
            with open(tq + "/" + f, "rb") as fh:
                data = fh.read()
            p = _parse_todo(data)
            try:
                with open(home + "/queue/mess/%d/%s" % (int(f) % 23, f), "rb") as fh:
                    mess = fh.read()
            except OSError:
                mess = None
            if p is None or mess is None:
                o.badcommit.append((f, data[:200]))
                continue
            m = RE_QQLINE.match(mess)
            if not m or int(m.group(1)) != p[1]:
                o.badcommit.append((f, mess[:200]))
                continue
            o.commits.setdefault(p[1], []).append({"sender": p[2], "rcpts": p[3], "msg": mess[m.end():], "uid": p[0]})
        _clean_queue(home)
    elif case["plan"] == "exit=0":
        for r in o.records:
            e = _parse_envrec(r["env"]) if r["env"] is not None else None
            if e is not None:
                o.commits.setdefault(r["pid"], []).append({"sender": e[0], "rcpts": e[1], "msg": r["msg"], "uid": None})
    o.fault_fired = False
    if case.get("shim") and os.path.exists(shimlog):
        with open(shimlog, "rb") as f:
            o.fault_fired = b'"inj":"fail"' in f.read()
    return o


# ------------------------------------------------------------------ model pieces (from the documents)

def eff_databytes(case):
    """qmail-smtpd(8): control/databytes, default 0 = no limit; $DATABYTES overrides it"""
    d = case.get("ctl_db") or 0
    e = case["env"].get("DATABYTES")
    if e is not None:
        d = int(e)
    return d


def count_hops(decoded):
    """qmail-smtpd(8): Received or Delivered-To header fields, any letter case"""
    n = 0
    for line in decoded.split(b"\n"):
        if line == b"":
            break
        name = line.split(b":", 1)[0].lower() if b":" in line else None
        if name in (b"received", b"delivered-to"):
            n += 1
    return n


def rcpt_allowed(addr):
    """qmail-smtpd(8) rcpthosts rule for gen.RCPTHOSTS; None = not decidable from the page"""
    at = addr.rfind(b"@")
    if at < 0:
        return True
    dom = addr[at + 1:].lower().decode("latin1")
    for h in gen.RCPTHOSTS:
        if h.startswith("."):
            if dom.endswith(h) and len(dom) > len(h):
                return True
        elif dom == h:
            return True
    return False


def plan_causes(case, big):
    """(perm, temp, lenient) causes contributed by the queue program's plan; lenient entries are
    (name, class) with class in perm/temp/any: the message MAY fail with that class"""
    perm, temp, len_ = set(), set(), set()
    plan = case["plan"]
    if case.get("nofile"):
        len_.add(("descriptor-limit", "temp"))
    if plan == "tee":
        if case.get("shim"):
            len_.add(("queue-fault", "temp"))
        return perm, temp, len_
    if plan.startswith("stop="):
        n = int(plan.split("exit=")[1])
        if n == 0:
            # the stand-in lies (exit 0 without reading); only a message larger than the pipe
            # capacity makes the daemon see the write error for certain
            if big:
                temp.add("qq-stop")
            else:
                len_.add(("qq-stop", "temp"))
            return perm, temp, len_
        plan = "exit=%d" % n
    if plan.startswith("exit="):
        n = int(plan[5:])
        if n == 0:
            pass
        elif 11 <= n <= 40:
            perm.add("qq-exit-%d" % n)
        elif n == 115:
            # historical "address too long" status of qmail-queue; the daemons may call it permanent
            temp.add("qq-exit-115")
            perm.add("qq-exit-115")
        else:
            temp.add("qq-exit-%d" % n)
    elif plan.startswith("err="):
        t = plan[4:]
        if len(t) <= 2:
            temp.add("qq-err-short")
            if t[:1] == "D":
                perm.add("qq-err-short")       # page: "permanently for strings starting with D"
        elif t[0] == "D":
            perm.add("qq-err-D")
        else:
            temp.add("qq-err-Z")
    elif plan.startswith("sig="):
        temp.add("qq-signal")
    return perm, temp, len_


def sanitize_ok(inp, outp):
    """outp names inp using safe characters only: same length, safe bytes kept, unsafe replaced"""
    if len(inp) != len(outp):
        return False
    for a, c in zip(inp, outp):
        if c in HARD_UNSAFE:
            return False
        if a in SURE_SAFE and a != c:
            return False
    return True


def check_received(msg, dn, env, helo, modelfree=False):
    """msg = what the daemon handed to the queue.  -> (reason or None, rest-of-message)"""
    m = RE_FIELD.match(msg)
    if not m:
        return "not-wellformed", msg
    host, he, peer, local, proto = m.group(1), m.group(2), m.group(3), m.group(4), m.group(5)
    if proto != PROTO[dn]:
        return "wrong-protocol", msg
    try:
        t = calendar.timegm((int(m.group(8)), _MON.split("|").index(m.group(7).decode()) + 1, int(m.group(6)),
                             int(m.group(9)), int(m.group(10)), int(m.group(11)), 0, 0, 0))
    except Exception:
        return "bad-date", msg
    if abs(t - time.time()) > 2 * 86400:
        return "bad-date", msg
    rest = msg[m.end():]
    rh = env.get("TCPREMOTEHOST")
    if rh is not None and not sanitize_ok(rh, host):
        return "remotehost-differs", rest
    ip = env.get("TCPREMOTEIP")
    info = env.get("TCPREMOTEINFO")
    if ip is not None:
        if info is not None:
            want = len(info) + 1 + len(ip)
            if len(peer) != want or peer[len(info):len(info) + 1] != b"@" or not sanitize_ok(info, peer[:len(info)]) \
                    or not sanitize_ok(ip, peer[len(info) + 1:]):
                return "remoteinfo-or-ip-differs", rest
        elif not sanitize_ok(ip, peer):
            return "remoteip-differs", rest
    lh = env.get("TCPLOCALHOST")
    if lh is None:
        lh = env.get("TCPLOCALIP")
    if lh is not None and not sanitize_ok(lh, local):
        return "localhost-differs", rest
    if he is not None and not modelfree:
        if helo is None or not sanitize_ok(helo, he):
            return "helo-differs", rest
    return None, rest


def sanitizer_violation(res, o, case, wit):
    wit = wit or {}
    e = o.err.decode("latin1", "replace")
    if o.rc < 0 or "Sanitizer" in e or "runtime error" in e:
        prog = BIN[case["daemon"]] if o.rc < 0 else "qmail-queue"
        if o.rc < 0 and "Sanitizer" not in e and "runtime error" not in e:
            res.violate("C07/%s/crash/signal-%d" % (case["daemon"], -o.rc), "daemon killed by a signal", wit)
            return True
        res.violate("C20/sanitizer/%s/%s" % (prog, hrun.sanitizer_site(e)),
                    "sanitizer report while serving a connection (rc=%s)" % o.rc, dict(wit, stderr_tail=e[-2500:]))
        return True
    return False


def cause_of(case, extra=None):
    """input class for violation keys: never payload"""
    if extra:
        return extra
    p = case["plan"]
    if p not in ("tee", "exit=0"):
        return "qq-" + re.split(r"[=,]", p)[0]
    if case.get("nofile"):
        return "descriptor-limit"
    if case.get("shim"):
        return "queue-fault"
    if case.get("cut") is not None:
        return "cut"
    return case["cls"]


class Judge:
    """per-case bookkeeping shared by the three protocol oracles"""

    def __init__(self, res, case, o):
        self.res, self.case, self.o = res, case, o
        self.dn = case["daemon"]
        self.used = set()             # commit pids consumed by a message of the model
        self.wit = None

    def witness(self):
        if self.wit is None:
            c, o = self.case, self.o
            cj = gen.case_to_json(c)
            w = {"daemon": self.dn, "cls": c["cls"], "plan": c["plan"], "shim": c.get("shim"), "cut": c.get("cut"),
                 "env": {k: core.hx(v) for k, v in c["env"].items()}, "ctl_databytes": c.get("ctl_db"),
                 "wire_len": len(o.wire), "wire_head": core.hx(o.wire[:700]), "wire_tail": core.hx(o.wire[-300:]),
                 "output": core.hx(o.out[:1500]), "rc": o.rc,
                 "records": [{"pid": r["pid"], "msg_len": len(r["msg"]), "env": core.hx((r["env"] or b"")[:300])} for r in o.records[:6]],
                 "commits": [{"pid": p, "sender": core.hx(x["sender"][:120]), "rcpts": [core.hx(y[:120]) for y in x["rcpts"][:8]],
                              "msg_head": core.hx(x["msg"][:300])} for p, l in list(o.commits.items())[:6] for x in l]}
            if len(json.dumps(cj)) < 400000:
                w["case"] = cj
            self.wit = w
        return self.wit

    def v(self, rule, cause, why, **kw):
        key = "C07/%s/%s/%s" % (self.dn, rule, cause) if cause else "C07/%s/%s" % (self.dn, rule)
        self.res.violate(key, why, dict(self.witness(), **kw))

    # -- one message of the model against what was observed
    def message(self, idx, pid, acked, sender, rcpts, body, helo, perm, temp, lenient, neg_class, cls_hint=None,
                ack_qps=None, got_reply=True, body_alt=None):
        """pid: queue program pid of this message (None: the daemon never started one);
        acked: bool - positive acknowledgement seen; sender/rcpts/body: what the acknowledgement
        covers according to the protocol; perm/temp/lenient: causes that forbid / may forbid
        acceptance; neg_class: 'perm' | 'temp' | None (class of the negative reply seen)."""
        o, case = self.o, self.case
        commits = o.commits.get(pid, []) if pid is not None else []
        if pid is not None:
            self.used.add(pid)
        cause = cause_of(case, cls_hint)
        self.res.counters.inc("messages_judged")
        if acked:
            self.res.counters.inc("acknowledged")
            if perm or temp:
                self.v("acknowledged-despite", _causeclass(perm | temp),
                       "positive acknowledgement although %s" % sorted(perm | temp), message_index=idx)
            if len(commits) != 1:
                self.v("ack-without-commit", cause, "positive acknowledgement but %d committed messages for qp %s" % (len(commits), pid),
                       message_index=idx)
                return
            if ack_qps is not None and any(q != pid for q in ack_qps):
                self.v("ack-names-wrong-qp", cause, "acknowledgement qp %s, queue program pid %s" % (ack_qps, pid), message_index=idx)
            cm = commits[0]
            if sender is not None and (cm["sender"] != sender or cm["rcpts"] != rcpts):
                self.v("envelope-differs", cause, "queued envelope is not the acknowledged one", message_index=idx,
                       expected_sender=core.hx(sender[:200]), expected_rcpts=[core.hx(r[:200]) for r in rcpts[:10]])
            why, rest = check_received(cm["msg"], self.dn, case["env"], helo, case.get("modelfree"))
            if why:
                self.v("received-field", why, "Received field of the daemon: %s" % why, message_index=idx)
            elif body is not None and rest != body and (body_alt is None or rest != body_alt):
                self.v("body-differs", cause, "queued body is not the transmitted one (len %d vs %d)" % (len(rest), len(body)),
                       message_index=idx, first_difference=_firstdiff(rest, body))
            return
        # not acknowledged
        if commits:
            self.v("commit-without-ack", cls_hint or cause, "message committed (qp %s) without a positive reply" % pid, message_index=idx)
        if not got_reply:
            return
        self.res.counters.inc("refused_" + (neg_class or "noclass"))
        self.class_check(idx, neg_class, perm, temp, lenient, cause)

    def class_check(self, idx, neg_class, perm, temp, lenient, cause):
        lperm = any(c in ("perm", "any") for _n, c in lenient)
        ltemp = any(c in ("temp", "any") for _n, c in lenient)
        if not perm and not temp and not lenient:
            self.v("not-acknowledged", cause, "acceptable message refused (%s)" % neg_class, message_index=idx)
            return
        okp = bool(perm) or lperm
        okt = bool(temp) or ltemp
        if neg_class == "perm" and not okp:
            self.v("wrong-class", _causeclass(temp) if temp else cause, "permanent reply for a temporary condition %s" % sorted(temp), message_index=idx)
        elif neg_class == "temp" and not okt:
            self.v("wrong-class", _causeclass(perm) if perm else cause, "temporary reply for a permanent condition %s" % sorted(perm), message_index=idx)
        elif neg_class not in ("perm", "temp"):
            self.v("wrong-class", "undefined-reply-class", "reply is neither positive, permanent nor temporary", message_index=idx)

    def leftovers(self):
        for pid, l in self.o.commits.items():
            if pid not in self.used:
                self.v("commit-without-ack" if self.case.get("modelfree") else "commit-unexpected", cause_of(self.case),
                       "a message was committed (qp %s) that no acknowledgement / completed transaction accounts for" % pid)
        if self.o.badcommit:
            self.v("commit-unreadable", cause_of(self.case), "queue entry with unexpected format: %r" % (self.o.badcommit[:2],))


def _causeclass(causes):
    c = sorted(causes)[0]
    m = re.match(r"qq-exit-(\d+)$", c)
    if m:
        return "qq-exit-code-%s" % m.group(1)
    return c


def _firstdiff(a, b):
    n = min(len(a), len(b))
    i = next((k for k in range(n) if a[k] != b[k]), n)
    return {"offset": i, "queued": core.hx(a[max(0, i - 20):i + 40]), "expected": core.hx(b[max(0, i - 20):i + 40])}


def addr_zone(dn, pre_len, final_len, queue_real):
    """-> 'ok' | 'lenient' | 'never' for an envelope address: pre_len as the daemon receives it,
    final_len with the RELAYCLIENT suffix as the queue sees it"""
    if not queue_real:
        final_len = pre_len          # only the real queue program enforces the queue's limit
    if max(pre_len, final_len) >= ADDR_NEVER:
        return "never"
    if pre_len <= ADDR_SURE[dn] and final_len <= 1000:
        return "ok"
    return "lenient"


# ------------------------------------------------------------------ SMTP

def smtp_replies(out):
    """-> (list of (code, lastline, nlines), clean)"""
    lines = out.split(b"\r\n")
    clean = lines[-1] == b""
    lines = lines[:-1] if clean else lines
    res = []
    n = 0
    for l in lines:
        n += 1
        if len(l) >= 4 and l[:3].isdigit() and l[3:4] == b"-":
            continue
        code = int(l[:3]) if l[:3].isdigit() else None
        res.append((code, l, n))
        n = 0
    return res, clean


def judge_smtp(res, case, o):
    """Lock step over the units the client sent and the replies the server gave.  The replies
    drive the interpretation: the acknowledged sender is the address of the latest MAIL answered
    250, the acknowledged recipients are the RCPTs answered 250 since; a DATA answered 354 makes
    the next unit a message block with exactly one final reply; a refused DATA makes the server
    read the block as command lines (one reply per line)."""
    J = Judge(res, case, o)
    dn = "smtpd"
    replies, clean = smtp_replies(o.out)
    d = res.counters.setdefault("reply_codes_smtpd", {})
    for code, line, _n in replies:
        k = "250-ack" if RE_ACK.match(line) else str(code)
        d[k] = d.get(k, 0) + 1
    if case.get("modelfree"):
        # corrupted session: every acknowledgement names exactly one committed message with a
        # well-formed Received field, and every committed message is acknowledged
        for m in (RE_ACK.match(l) for _c, l, _n in replies):
            if m:
                J.message(None, int(m.group(2)), True, None, None, None, None, set(), set(), set(), None)
        J.leftovers()
        return J
    if not replies or replies[0][0] != 220:
        if case.get("nofile") and (not replies or (replies[0][0] or 0) // 100 == 4):
            res.counters.inc("refused_at_greeting_under_descriptor_limit")
            J.leftovers()
        elif not sanitizer_seen(o):
            res.inconclusive.append("smtpd did not greet: %r" % o.out[:100])
        return J
    relay = case["env"].get("RELAYCLIENT")
    queue_real = case["plan"] == "tee"
    D = eff_databytes(case)
    wire_len = len(o.wire)
    pos = 0
    ri = 1
    helo = None
    mail, mail_zone = None, "ok"
    rcpts, rcpt_zone = [], []
    recs = list(o.records)
    data_ok = False          # the latest DATA was answered 354
    refused_body = False     # the latest DATA was refused: the block is read as commands
    closed = False
    early_end = False
    txn = 0

    def nextreply():
        nonlocal ri
        r = replies[ri] if ri < len(replies) else None
        ri += 1
        return r

    for ch in case["chunks"]:
        raw = ch["raw"]
        complete = pos + len(raw) <= wire_len
        avail = raw if complete else raw[:max(0, wire_len - pos)]
        pos += len(raw)
        k = ch["k"]
        if closed:
            break
        if k == "body":
            if refused_body:
                ri += avail.count(b"\n")
                refused_body = False
                if not complete:
                    break
                continue
            if not data_ok:
                break                  # DATA itself was cut: nothing of the block was sent either
            data_ok = False
            rec = recs.pop(0) if recs else None
            pid = rec["pid"] if rec else None
            body = ch["decoded"]
            # a line ". CR x" may be stored with or without its dot (DESIGN 7.3, F7 withdrawn): two readings
            alt = ch.get("decoded_alt")
            perm, temp, lenient = plan_causes(case, len(body) > 90000)
            if D and len(body) > D and (alt is None or len(alt) > D):
                perm.add("oversize")
            elif D and (len(body) > D or (alt is not None and len(alt) > D)):
                lenient.add(("size-depends-on-dot-cr-reading", "perm"))
            if count_hops(body) >= 100:
                perm.add("hops")
            for z in [mail_zone] + rcpt_zone:
                if z == "never":
                    perm.add("address-too-long")
                elif z == "lenient":
                    lenient.add(("address-near-limit", "perm"))
            txn += 1
            if not complete:
                # the client disconnected inside the message: no reply, nothing queued
                J.message(txn, pid, False, mail, list(rcpts), body, helo, perm, temp, lenient, None, got_reply=False)
                res.counters.inc("cut_inside_message")
                break
            r = nextreply()
            if ch.get("barelf"):
                if r is None or r[0] is None or not (400 <= r[0] < 500):
                    J.v("bare-lf-not-temporary", None, "bare LF inside DATA not answered with a temporary error: %r" % (r,))
                J.message(txn, pid, False, mail, list(rcpts), None, helo, set(), {"bare-lf"}, set(), "temp")
                closed = True
                continue
            if r is None:
                early_end = True
                J.message(txn, pid, False, mail, list(rcpts), body, helo, perm, temp, lenient, None, got_reply=False)
                break
            m = RE_ACK.match(r[1])
            if m:
                J.message(txn, pid, True, mail, list(rcpts), body, helo, perm, temp, lenient, None, ack_qps=[int(m.group(2))],
                          body_alt=alt)
            else:
                cls = "perm" if r[0] is not None and 500 <= r[0] < 600 else "temp" if r[0] is not None and 400 <= r[0] < 500 else None
                J.message(txn, pid, False, mail, list(rcpts), body, helo, perm, temp, lenient, cls)
            mail, rcpts, rcpt_zone = None, [], []
            continue
        if not complete:
            break                      # unterminated command line: never executed
        r = nextreply()
        if r is None:
            early_end = True
            break
        code = r[0]
        if k == "helo":
            if code == 250:
                helo = ch["arg"]
            mail, rcpts, rcpt_zone = None, [], []
        elif k == "mail":
            if code == 250:
                a = ch["addr"]
                if b"\0" in a:
                    a = a.split(b"\0")[0]      # accepted reading: the argument ends at the NUL
                    res.counters.inc("smtp_nul_address_truncated")
                mail = a
                mail_zone = addr_zone(dn, len(a), len(a), queue_real)
                rcpts, rcpt_zone = [], []
            elif code is not None and 400 <= code < 500:
                J.v("wrong-class", "mail-refused-temporarily", "MAIL refused with %s" % code)
            else:
                res.counters.inc("smtp_mail_refused")
        elif k == "rcpt":
            if code == 250:
                a = ch["addr"]
                if b"\0" in a:
                    a = a.split(b"\0")[0]
                    res.counters.inc("smtp_nul_address_truncated")
                if relay is None and not rcpt_allowed(a):
                    J.v("acknowledged-despite", "rcpthosts", "recipient outside rcpthosts accepted without RELAYCLIENT: %s" % core.hx(a[:80]))
                fa = a + (relay or b"")
                rcpts.append(fa)
                rcpt_zone.append(addr_zone(dn, len(a), len(fa), queue_real))
            elif code is not None and 400 <= code < 500:
                J.v("wrong-class", "rcpt-refused-temporarily", "RCPT refused with %s" % code)
            else:
                res.counters.inc("smtp_rcpt_refused")
        elif k == "data":
            if code == 354:
                data_ok = True
                if mail is None:
                    J.v("data-accepted-without-sender", None, "DATA accepted although no MAIL was acknowledged")
                    mail, mail_zone = b"", "lenient"
            else:
                refused_body = True
        elif k == "rset":
            mail, rcpts, rcpt_zone = None, [], []
        elif k == "quit":
            closed = True
    if early_end or ri > len(replies):
        if case.get("nofile") and (not replies or (replies[-1][0] or 0) // 100 == 4):
            res.counters.inc("session_dropped_under_descriptor_limit")
        elif not sanitizer_seen(o):
            J.v("reply-missing", cause_of(case), "output ended although the client had sent complete units")
    elif ri < len(replies):
        J.v("reply-count-mismatch", cause_of(case), "%d more replies than units sent" % (len(replies) - ri))
    J.leftovers()
    return J


def sanitizer_seen(o):
    e = o.err
    return o.rc < 0 or b"Sanitizer" in e or b"runtime error" in e


# ------------------------------------------------------------------ QMTP

MALFORMED_KEY = {"nondigit-length": "nondigit-%s-length", "bad-terminator": "bad-terminator-after-%s",
                 "overrun": "overrunning-%s", "truncated": "truncated-%s", "empty": "empty-%s",
                 "bad-type-byte": "bad-type-byte-in-%s", "missing": "missing-%s"}


def malformed_key(p):
    return (MALFORMED_KEY.get(p.reason, p.reason + "-%s")) % (p.field or "frame")


def reply_class(r):
    return {b"K": "ack", b"Z": "temp", b"D": "perm"}.get(r[:1])


def judge_qmtp(res, case, o):
    J = Judge(res, case, o)
    dn = "qmtpd"
    relay = case["env"].get("RELAYCLIENT")
    sl = len(relay) if relay else 0
    D = eff_databytes(case)
    replies, clean = nsm.parse_replies(o.out)
    d = res.counters.setdefault("reply_classes_qmtpd", {})
    for r in replies:
        k = r[:1].decode("latin1") if r[:1] in (b"K", b"Z", b"D") else "other"
        d[k] = d.get(k, 0) + 1
    if not clean:
        J.v("garbled-output", None, "server output is not a sequence of netstrings")
    pk = nsm.qmtp_packages(o.wire)
    okp = [p for p in pk if p.ok]
    bad = pk[-1] if pk and not pk[-1].ok else None
    recs = list(o.records)
    pos = 0
    for i, p in enumerate(okp):
        rec = recs[i] if i < len(recs) else None
        pid = rec["pid"] if rec else None
        n = len(p.rcpts)
        rs = replies[pos:pos + n]
        pos += n
        perm, temp, lenient = plan_causes(case, len(p.body) > 90000)
        if p.flags:
            lenient.add(("lenient-framing", "any"))
            res.counters.inc("lenient_framing_packages")
        if D and len(p.body) > D:
            perm.add("oversize")
        if b"\0" in p.sender:
            perm.add("sender-nul")
        z = addr_zone(dn, len(p.sender), len(p.sender), True)
        if z == "never":
            perm.add("address-too-long")
        elif z == "lenient":
            lenient.add(("address-near-limit", "perm"))
        # per recipient
        rperm = []
        for a in p.rcpts:
            if b"\0" in a:
                rperm.append("rcpt-nul")
            elif relay is None and not rcpt_allowed(a):
                rperm.append("rcpthosts")
            else:
                zz = addr_zone(dn, len(a) + sl, len(a) + sl, True)
                rperm.append({"never": "address-too-long", "lenient": None, "ok": ""}[zz])
        if len(rs) < n:
            hint = "unflushed-reply-at-protocol-exit" if bad is not None else "replies-missing"
            if pid is not None and o.commits.get(pid):
                J.used.add(pid)
                J.v("commit-without-ack", hint, "message committed (qp %s) but %d of %d replies missing" % (pid, n - len(rs), n), package=i)
            elif case.get("nofile") and o.rc == 111:
                res.counters.inc("session_dropped_under_descriptor_limit")
            elif not sanitizer_seen(o):
                J.v("negative-reply-missing", hint, "%d of %d replies missing" % (n - len(rs), n), package=i)
            continue
        acked_idx = []
        qps = []
        for j, (a, r) in enumerate(zip(p.rcpts, rs)):
            c = reply_class(r)
            if c == "ack":
                m = RE_KACK.match(r)
                qps.append(int(m.group(2)) if m else -1)
                acked_idx.append(j)
                if rperm[j]:
                    J.v("acknowledged-despite", rperm[j], "recipient %s acknowledged" % core.hx(a[:80]), package=i, recipient=j)
            elif rperm[j] and c != "perm":
                J.v("wrong-class", rperm[j], "reply %r for an unacceptable recipient" % r[:40], package=i, recipient=j)
        # message level: judged through the replies of the recipients that are acceptable as such
        elig = [j for j in range(n) if not rperm[j]]          # "" = surely acceptable, None = near the length limit
        surely = [j for j in elig if rperm[j] == ""]
        acked_rcpts = [p.rcpts[j] + (relay or b"") for j in acked_idx]
        if not elig:
            # nothing the server could acknowledge (no recipient, or every recipient unacceptable)
            J.message(i, pid, bool(acked_idx), p.sender, acked_rcpts, p.body, None,
                      perm | {"no-acceptable-recipient"}, temp, lenient, None, ack_qps=qps, got_reply=False)
            continue
        if acked_idx:
            missing = [j for j in surely if j not in acked_idx]
            if missing:
                J.v("not-acknowledged", "recipient-of-accepted-message", "message accepted but recipient %d answered %r" % (
                    missing[0], rs[missing[0]][:40]), package=i)
            J.message(i, pid, True, p.sender, acked_rcpts, p.body, None, perm, temp, lenient, None, ack_qps=qps)
        else:
            if not surely:
                lenient = lenient | {("address-near-limit", "perm")}
            classes = sorted(set(reply_class(rs[j]) or "none" for j in elig))
            J.message(i, pid, False, p.sender, [], p.body, None, perm, temp, lenient, classes[0] if classes[0] != "none" else None)
            for c in classes[1:]:
                J.class_check(i, c if c != "none" else None, perm, temp, lenient, cause_of(case))
    extra = replies[pos:]
    if bad is not None:
        res.counters.setdefault("malformed_frames", {})
        mk = malformed_key(bad)
        res.counters["malformed_frames"][mk] = res.counters["malformed_frames"].get(mk, 0) + 1
        rec = recs[len(okp)] if len(okp) < len(recs) else None
        if any(reply_class(r) == "ack" for r in extra):
            J.v(mk + "-acknowledged", None, "positive reply to a package with malformed framing (%s in %s)" % (bad.reason, bad.field))
        if rec is not None and o.commits.get(rec["pid"]):
            J.used.add(rec["pid"])
            J.v(mk + "-queued", None, "package with malformed framing (%s in %s) was committed" % (bad.reason, bad.field))
    elif extra:
        J.v("reply-count-mismatch", cause_of(case), "%d replies beyond one per recipient" % len(extra))
    J.leftovers()
    return J


def judge_qmqp(res, case, o):
    J = Judge(res, case, o)
    dn = "qmqpd"
    replies, clean = nsm.parse_replies(o.out)
    d = res.counters.setdefault("reply_classes_qmqpd", {})
    for r in replies:
        k = r[:1].decode("latin1") if r[:1] in (b"K", b"Z", b"D") else "other"
        d[k] = d.get(k, 0) + 1
    if not clean:
        J.v("garbled-output", None, "server output is not a sequence of netstrings")
    p = nsm.qmqp_package(o.wire)
    rec = o.records[0] if o.records else None
    pid = rec["pid"] if rec else None
    if not p.ok:
        res.counters.setdefault("malformed_frames", {})
        mk = malformed_key(p)
        res.counters["malformed_frames"][mk] = res.counters["malformed_frames"].get(mk, 0) + 1
        if any(reply_class(r) == "ack" for r in replies):
            J.v(mk + "-acknowledged", None, "positive reply to a package with malformed framing (%s in %s)" % (p.reason, p.field))
        if pid is not None and o.commits.get(pid):
            J.used.add(pid)
            J.v(mk + "-queued", None, "package with malformed framing (%s in %s) was committed" % (p.reason, p.field))
        J.leftovers()
        return J
    perm, temp, lenient = plan_causes(case, len(p.body) > 90000)
    if p.flags:
        lenient.add(("lenient-framing", "any"))
        res.counters.inc("lenient_framing_packages")
    for a in [p.sender] + p.rcpts:
        if b"\0" in a:
            perm.add("address-nul")
        z = addr_zone(dn, len(a), len(a), True)
        if z == "never":
            perm.add("address-too-long")
        elif z == "lenient":
            lenient.add(("address-near-limit", "perm"))
    if len(replies) != 1:
        if len(replies) == 0:
            if pid is not None and o.commits.get(pid):
                J.used.add(pid)
                J.v("commit-without-ack", "replies-missing", "message committed (qp %s) but no reply" % pid)
            elif case.get("nofile") and o.rc == 111:
                res.counters.inc("session_dropped_under_descriptor_limit")
            elif not sanitizer_seen(o):
                J.v("negative-reply-missing", "replies-missing", "complete package, no reply")
        else:
            J.v("reply-count-mismatch", cause_of(case), "%d replies to one package" % len(replies))
        J.leftovers()
        return J
    r = replies[0]
    c = reply_class(r)
    if c == "ack":
        m = RE_KACK.match(r)
        J.message(0, pid, True, p.sender, p.rcpts, p.body, None, perm, temp, lenient, None, ack_qps=[int(m.group(2)) if m else -1])
    else:
        J.message(0, pid, False, p.sender, p.rcpts, p.body, None, perm, temp, lenient, c)
    J.leftovers()
    return J


JUDGES = {"smtpd": judge_smtp, "qmtpd": judge_qmtp, "qmqpd": judge_qmqp}


# ------------------------------------------------------------------ workload plan

SMTP_CLASSES = ["plain", "size", "hops", "addrlen", "nul", "peer", "barelf", "sizewire"]
NS_CLASSES = ["plain", "size", "hops", "addrlen", "nul", "peer", "framing", "framing"]


def make_case(spec):
    """spec -> case.  Specs are small tuples so that the work list is cheap to ship to workers:
      ('gen', daemon, i)                 seeded structured case i
      ('mut', daemon, i)                 seeded case i with random byte corruption
      ('rcut', daemon, i)                seeded case i cut at a random byte
      ('cut', daemon, j, n)              exhaustive: short session j cut after n bytes
      ('exit', daemon, N, rep)           queue program exits N
      ('err', daemon, i) ('sig', daemon, s, rep) ('stop', daemon, i)
      ('nofile', daemon, n, rep)         RLIMIT_NOFILE = n for the daemon and its children (resource trouble)
      ('fault', daemon, k, errno)        real qmail-queue fails at its k-th file operation"""
    kind, dn = spec[0], spec[1]
    if kind in ("gen", "mut", "rcut"):
        i = spec[2]
        rng = core.case_rng(PROP, i, dn + "/" + kind)
        classes = SMTP_CLASSES if dn == "smtpd" else NS_CLASSES
        cls = classes[i % len(classes)]
        if kind != "gen" and cls == "barelf":
            cls = "plain"
        c = gen.gen_smtp(rng, cls) if dn == "smtpd" else gen.gen_ns(rng, dn, cls)
        if rng.random() < 0.25:
            c["plan"] = "exit=0"          # virtual conforming queue instead of the real one
        if kind == "mut":
            w = gen.mutate_bytes(rng, gen.wire_of(c))
            c.pop("chunks", None)
            c["wire"] = w
            c["cls"] = "mutated"
            c["modelfree"] = dn == "smtpd"
        elif kind == "rcut":
            c["cut"] = rng.randrange(0, len(gen.wire_of(c)) + 1)
        return c
    if kind == "cut":
        c = short_session(dn, spec[2])
        c["cut"] = spec[3]
        return c
    if kind == "exit":
        rng = core.case_rng(PROP, spec[2] * 1000 + spec[3], dn + "/exit")
        return gen.gen_side_b(rng, dn, gen.exit_plan(spec[2]))
    if kind == "err":
        rng = core.case_rng(PROP, spec[2], dn + "/err")
        c = gen.gen_side_b(rng, dn, "err=" + gen.err_text(rng))
        if spec[2] % 2 == 1:
            # the queue program may produce its text with more than one write
            c["env"] = dict(c["env"], NQV_QQ_ERRSPLIT=str(rng.choice([1, 1, 2, 3, 9])))
        return c
    if kind == "sig":
        rng = core.case_rng(PROP, spec[2] * 1000 + spec[3], dn + "/sig")
        return gen.gen_side_b(rng, dn, "sig=%d" % spec[2])
    if kind == "nofile":
        rng = core.case_rng(PROP, spec[2] * 1000 + spec[3], dn + "/nofile")
        c = gen.gen_smtp(rng, "plain") if dn == "smtpd" else gen.gen_ns(rng, dn, "plain")
        c["cls"] = "nofile"
        c["nofile"] = spec[2]
        return c
    if kind == "stop":
        rng = core.case_rng(PROP, spec[2], dn + "/stop")
        n = rng.choice([0, 0, 53, 31, 1, 111])
        big = n == 0 or rng.random() < 0.3
        return gen.gen_side_b(rng, dn, "stop=%d,exit=%d" % (rng.choice([0, 1, 100, 5000]), n), big=big)
    if kind == "fault":
        rng = core.case_rng(PROP, spec[2] * 1000 + spec[3], dn + "/fault")
        c = gen.gen_smtp(rng, "tee-fault") if dn == "smtpd" else gen.gen_ns(rng, dn, "tee-fault")
        c["shim"] = "qmail-queue:%d:fail=%d" % (spec[2], spec[3])
        return c
    raise ValueError(spec)


def short_session(dn, j):
    """deterministic short sessions (independent of VERIF_SEED, at most 400 bytes) for the
    exhaustive cut-point sweep: session j cut after every byte"""
    rng = random.Random(7000 + j)
    c = {"daemon": dn, "cls": "cut-sweep", "cut": None, "ctl_db": None, "plan": "tee", "shim": None, "modelfree": False,
         "env": {"TCPREMOTEIP": b"192.0.2.7", "TCPREMOTEHOST": b"c.example", "TCPLOCALHOST": b"mx.local.test"}}
    bodies = [b"Subject: a\n\nhello\n.dot\n", b"x\n", b"", b"Received: by x\n\nb\n", b"\n\n", b"..\n.\n", b"a\rb\n",
              b"Delivered-To: u@local.test\nTo: u\n\n\0\xff\n"]
    senders = [b"s@x.test", b"", b"a+b@c.d.e"]
    rsets = [[b"u@local.test"], [b"u@local.test", b"w@other.net", b"v@sub.a.test"], [b"noat", b"W@LOCAL.TEST"], [b"w@other.net"]]
    if j == 0:
        pick = [(senders[0], rsets[1], bodies[0]), (b"t@y.test", [b"noat"], bodies[1])]
    else:
        pick = [(rng.choice(senders), rng.choice(rsets), rng.choice(bodies)) for _ in range(rng.choice([1, 2, 2]))]
    if dn != "qmqpd" and rng.random() < 0.4:
        c["env"]["RELAYCLIENT"] = rng.choice([b"", b"@r.test"])
    if rng.random() < 0.3:
        d = rng.choice([1, 5, 20])
        c["ctl_db"] = d                      # some of the bodies are over this limit
    if dn == "smtpd":
        ch = []
        if rng.random() < 0.5:
            ch.append({"k": "helo", "arg": b"c.peer", "raw": b"EHLO c.peer\r\n"})
        for (ss, rr, bb) in pick:
            ch.append({"k": "mail", "addr": ss, "raw": b"MAIL FROM:<" + ss + b">\r\n"})
            for a in rr:
                ch.append({"k": "rcpt", "addr": a, "raw": b"RCPT TO:<" + a + b">\r\n"})
            ch.append({"k": "data", "raw": b"DATA\r\n"})
            ch.append(gen.c_body(bb))
        ch.append({"k": "quit", "raw": b"QUIT\r\n"})
        c["chunks"] = ch
    elif dn == "qmtpd":
        c["wire"] = b"".join(gen.qmtp_pkg(rng, bb, ss, rr, dos=rng.random() < 0.4) for ss, rr, bb in pick)
    else:
        ss, rr, bb = pick[0]
        c["wire"] = gen.qmqp_pkg(rng, bb, ss, rr) + rng.choice([b"", b"trailing"])
    assert len(gen.wire_of(c)) <= 400
    return c


def work_list(tier):
    q = tier == "quick"
    specs = []
    for dn in ("smtpd", "qmtpd", "qmqpd"):
        ngen = core.scaled(3000 if q else 40000)
        nmut = core.scaled(600 if q else 10000)
        nrcut = core.scaled(500 if q else 6000)
        specs += [("gen", dn, i) for i in range(ngen)]
        specs += [("mut", dn, i) for i in range(nmut)]
        specs += [("rcut", dn, i) for i in range(nrcut)]
        for j in range(3 if q else 20):
            n = len(gen.wire_of(short_session(dn, j)))
            specs += [("cut", dn, j, k) for k in range(0, n + 1)]
        specs += [("exit", dn, n, r) for r in range(1 if q else 4) for n in range(256)]
        specs += [("err", dn, i) for i in range(core.scaled(60 if q else 1500))]
        specs += [("sig", dn, s, r) for r in range(1 if q else 10) for s in gen.SIDE_B_SIGNALS]
        specs += [("nofile", dn, n, r) for r in range(2 if q else 20) for n in range(4, 12)]
        specs += [("stop", dn, i) for i in range(core.scaled(16 if q else 300))]
        for k in range(1, 19 if q else 40):
            for e in ((28, 5) if q else (28, 5, 12, 122)):       # ENOSPC, EIO, ENOMEM, EDQUOT
                specs.append(("fault", dn, k, e))
    return specs


# ------------------------------------------------------------------ worker

def _mkhome(b):
    home = build.mktemp("nqv-c07-")
    sandbox.make_home(b, home, controls={"me": gen.ME, "rcpthosts": gen.RCPTHOSTS},
                      bins=("qmail-smtpd", "qmail-qmtpd", "qmail-qmqpd", "qmail-queue"))
    os.makedirs(home + "/rec")
    return home


def judge_case(res, case, o):
    """all oracles for one observed connection"""
    dn = case["daemon"]
    res.evaluations += 1
    res.counters.inc("sessions_" + dn)
    d = res.counters.setdefault("daemon_exit_codes_" + dn, {})
    d[str(o.rc)] = d.get(str(o.rc), 0) + 1
    J = JUDGES[dn](res, case, o)
    sanitizer_violation(res, o, case, J.witness() if sanitizer_seen(o) else None)
    return J


def note_evidence(res, case, o):
    dn = case["daemon"]
    plan = case["plan"]
    if plan.startswith("exit="):
        res.counters.setdefault("qq_exit_statuses_exercised", set()).add(int(plan[5:]))
    res.counters.setdefault("qq_plans", {})
    pk = re.split(r"[=,]", plan)[0] + ("+exit" if plan.startswith("stop") else "")
    res.counters["qq_plans"][pk] = res.counters["qq_plans"].get(pk, 0) + 1
    if case.get("cut") is not None:
        res.counters.inc("cut_points_exercised_" + dn)
        if case["cls"] == "cut-sweep":
            res.counters.inc("cut_points_exhaustive_" + dn)
            d = res.counters.setdefault("cut_sweep_session_bytes", {})
            k = "%s/%d" % (dn, len(gen.wire_of(case)))
            d[k] = d.get(k, 0) + 1
    if case.get("nofile"):
        d = res.counters.setdefault("descriptor_limits_exercised", {})
        d[str(case["nofile"])] = d.get(str(case["nofile"]), 0) + 1
    if case.get("shim"):
        res.counters.inc("queue_faults_planned")
        if o.fault_fired:
            res.counters.inc("queue_faults_fired")
    d = res.counters.setdefault("cases_by_class", {})
    d[dn + "/" + case["cls"]] = d.get(dn + "/" + case["cls"], 0) + 1
    if o.records or o.out:
        res.nontrivial(dn, o.wire, plan, case.get("shim"), case.get("nofile"), sorted(case["env"].items()), case.get("ctl_db"))


def worker(bdir, specs):
    _subreaper()
    res = core.Result()
    b = build.Build("asan", bdir)
    home = _mkhome(b)
    for spec in specs:
        try:
            case = make_case(spec)
        except Exception as e:          # generator bug: harness failure, not a verdict
            res.inconclusive.append("generator failed for %r: %r" % (spec, e))
            continue
        o = run_case(b, home, case)
        if o is None:
            res.inconclusive.append("watchdog expired twice: %r" % (spec,))
            continue
        pids = [r["pid"] for r in o.records]
        if len(set(pids)) != len(pids):
            res.inconclusive.append("pid reused inside one session: %r" % (spec,))
            continue
        before = len(res.violations)
        judge_case(res, case, o)
        note_evidence(res, case, o)
        for v in res.violations[before:]:
            if isinstance(v.get("witness"), dict):
                v["witness"]["spec"] = list(spec)
        if o.commits and len(res.samples) < 3 and case["plan"] == "tee":
            pid, l = next(iter(o.commits.items()))
            res.sample({"daemon": case["daemon"], "cls": case["cls"], "wire_head": core.hx(o.wire[:160]), "output": core.hx(o.out[:200]),
                        "queued_envelope": core.hx(b"F" + l[0]["sender"] + b"\0" + b"".join(b"T" + r + b"\0" for r in l[0]["rcpts"]))[:200],
                        "queued_head": core.hx(l[0]["msg"][:150])}, cap=3)
    shutil.rmtree(home, ignore_errors=True)
    return res


RULE = ("One case = one connection to a real daemon (asan build): SMTP sessions of 1-3 pipelined transactions, QMTP streams of 1-5 "
        "packages, one QMQP package; classes plain / size (stored length databytes-1,=,+1,+2 via control file and $DATABYTES, LF and "
        "CR LF conventions) / hops (98..101,150 Received/Delivered-To fields in mixed case, decoys in body and continuation lines) / "
        "addrlen (897..902 SMTP, 998..1005 QMTP/QMQP incl. RELAYCLIENT suffix, 999..1005 at the real queue through an SMTP suffix) / "
        "nul / peer (hostile TCPREMOTE*, TCPLOCAL*, HELO bytes) / framing (non-digit, arithmetic-compensated, empty, zero-padded, "
        "huge lengths, wrong terminator, short/long counts in every field) / barelf; derived: random byte corruption, random cut, "
        "EVERY cut point of short sessions, queue program exiting 0..255, exit 82 + D/Z/short texts, killed by signals, stops "
        "reading early, real qmail-queue failing at its k-th file operation (nqshim), RLIMIT_NOFILE 4..11 (pipe/open failures). Queue side A = real qmail-queue behind qq-rec "
        "tee; side B = qq-rec plans. Non-trivial = the daemon produced output or started a queue program; distinct = hash of "
        "(daemon, client bytes actually sent, queue plan, fault, peer environment, databytes).")


def run_specs(b, specs, jobs=None):
    jobs = jobs or core.JOBS
    # interleave so that every worker gets a similar mix; several slices per worker keep homes few
    nsl = max(1, min(len(specs), jobs * 3))
    slices = [specs[i::nsl] for i in range(nsl)]
    return core.pmap(worker, [(b.dir, s) for s in slices], jobs=jobs, timeout=7200)


def main(tier):
    t0 = time.time()
    if not os.path.exists(QQREC):
        raise core.Inconclusive("bin/qq-rec missing (run make -C csrc)")
    b = build.vbuild("asan")
    specs = work_list(tier)
    res = run_specs(b, specs)
    return _finish(tier, res, t0)


def _finish(tier, res, t0, min_distinct=2):
    ex = res.counters.get("qq_exit_statuses_exercised", set())
    extra = {"qq_exit_statuses_all_0_255": len(ex) == 256,
             "exhaustive": False,
             "exhaustive_scope": "every cut point of the short sessions and every queue exit status 0..255 per daemon; the rest is seeded"}
    return core.finish(PROP, tier, "exploration", res, RULE, t0, extra=extra, min_distinct=min_distinct, assumptions=[
        "client disconnect = end of file on the daemon's descriptor 0; descriptor 1 is read to end of file (DESIGN.md Appendix B)",
        "side B 'committed' = plan exit=0 and the recorded envelope closed by the extra NUL (a conforming queue program, qmail-queue(8))",
        "address lengths: >= 1003 bytes at the queue must be refused permanently; 890..1002 (SMTP, before the suffix) and 990..1002 "
        "(QMTP/QMQP incl. suffix) may be refused or accepted, consistently; shorter ones must be accepted",
        "lenient by decision: netstring lengths with leading zeros or empty (':,' read as '0:,'); an SMTP MAIL/RCPT argument "
        "containing NUL may be refused or consistently truncated at the NUL; queue exit status 115 may be reported as permanent",
        "custom queue error texts are generated inside the documented interface only: first byte D or Z (no CR/LF/NUL), or at most 2 bytes",
        "under a planned descriptor limit a connection closed without a reply (daemon exit 111 / 4xx and close) and nothing queued "
        "counts as a temporary refusal",
        "hop counting is demanded of qmail-smtpd only (qmail-smtpd(8)); QMTP/QMQP have no documented hop limit",
        "Received field: printable ASCII without space and ( ) < > , ; \\ \" in the peer-controlled parts, letters digits . - preserved"])


def replay(path):
    t0 = time.time()
    with open(path) as f:
        w = json.load(f)
    os.environ["VERIF_SEED"] = str(w.get("seed", 1))
    _subreaper()
    b = build.vbuild("asan")
    home = _mkhome(b)
    res = core.Result()
    for cs in w.get("cases", []):
        wit = cs.get("witness") or {}
        if "case" in wit:
            case = gen.case_from_json(wit["case"])
        elif "spec" in wit:
            case = make_case(tuple(wit["spec"]))
        else:
            continue
        o = run_case(b, home, case)
        if o is None:
            res.inconclusive.append("watchdog")
            continue
        print("case %s/%s plan=%s cut=%s rc=%s" % (case["daemon"], case["cls"], case["plan"], case.get("cut"), o.rc))
        print("  wire   %s" % core.hx(o.wire[:600]))
        print("  output %s" % core.hx(o.out[:600]))
        for pid, l in o.commits.items():
            for x in l:
                print("  commit qp=%s F=%s T=%s" % (pid, core.hx(x["sender"][:80]), [core.hx(r[:80]) for r in x["rcpts"][:6]]))
        judge_case(res, case, o)
        note_evidence(res, case, o)
    return _finish(w.get("tier", "quick"), res, t0, min_distinct=1)
