"""C12 - mailbox deliveries are complete or absent: maildir atomic, mbox rolled back
(DESIGN.md section 3, C12).  Real qmail-local under the LD_PRELOAD shim: maildir crash sweep x disk
variants, single-fault sweeps for maildir and mbox, the mbox(5) reader as oracle, concurrent
deliveries with a lock-interval monitor over the event log."""
import os
import re
import shutil
import time

from .. import core, build, shim

PROP = "C12"


# ---------------------------------------------------------------- mbox(5) reader (written from the man page)
def mbox_read(data):
    """-> list of (from_line, message).  Any line beginning 'From ' starts a message; the final blank
    line is stripped and one level of >From quoting removed."""
    msgs = []
    cur = None
    for line in data.split(b"\n")[:-1] if data.endswith(b"\n") else data.split(b"\n"):
        if line.startswith(b"From "):
            if cur is not None:
                msgs.append(cur)
            cur = [line, []]
        elif cur is not None:
            cur[1].append(line)
        else:
            msgs.append([b"(garbage before first From_ line)", [line]])
    if cur is not None:
        msgs.append(cur)
    out = []
    for fl, lines in msgs:
        if lines and lines[-1] == b"":
            lines = lines[:-1]
        body = []
        for l in lines:
            if re.match(rb"^>+From ", l):
                l = l[1:]
            body.append(l)
        out.append((fl, b"".join(x + b"\n" for x in body)))
    return out


def expected_stored(msg):
    """what a reader must get back for a delivered message: the message, a partial last line completed"""
    if msg and not msg.endswith(b"\n"):
        return msg + b"\n"
    return msg


SIMPLE = re.compile(rb"^[A-Za-z0-9.@=_+-]*$")


def header_ok(stored, sender, recip):
    """stored must start with one Return-Path line and one Delivered-To line; returns the rest or None"""
    m = re.match(rb"^Return-Path: <([^\n]*)>\nDelivered-To: ([^\n]*)\n", stored)
    if not m:
        return None
    if m.group(2) != recip.replace(b"\n", b"_"):
        return None
    if SIMPLE.match(sender) and m.group(1) != sender:
        return None
    return stored[m.end():]


# ---------------------------------------------------------------- inputs
def gen_messages(tier):
    base = [b"", b"x", b"no final newline", b"line\n", b"From me\nFrom  two\n>From quoted\n>>From twice\n>>>>From more\nFromage\n from\n",
            b"\nFrom start after blank\n\n\nFrom again\n", b"a\0b\xff\xfe\n\x80\n", b"From ", b">From", b"From \n"]
    for n in (1023, 1024, 1025, 2047, 2048, 2049, 5000):
        base.append(bytes(65 + (i % 26) if i % 61 else 10 for i in range(n)))
        base.append(bytes(65 + (i % 26) if i % 61 else 10 for i in range(n)) + b"\nFrom tail")
    base.append(b"L" * 1030 + b"\nFrom x\n" + b"M" * 3000 + b"\n")
    # a From_ / >From_ prefix that straddles an input-buffer boundary (1024-byte reads of the message)
    for k in (1, 2):
        for j in range(0, 9):
            for prefix in (b"From ", b">From ", b">>From "):
                head_len = 1024 * k - j
                filler = (b"filler line of text\n" * 120)[:head_len - 1] + b"\n"
                base.append(filler + prefix + b"straddles a buffer boundary\nlast\n")
    if tier == "thorough":
        for i in range(core.scaled(1500)):
            rng = core.case_rng(PROP, i, "msg")
            n = rng.choice([0, 5, 100, 1024, 3000, 9000])
            words = [b"From ", b">From ", b">>From ", b"\n", b"\n\n", b"x", b"\0", b"\xff", b"From\n", b" From ", b"abc def"]
            m = b"".join(rng.choice(words) for _ in range(max(1, n // 4)))[:n]
            base.append(m)
    return base


SENDERS = [b"sender@remote.test", b"", b"#@[]", b"with space@x.test", b"tab\there@x.test", b"new\nline@x.test", b"\"quoted\"@x.test",
           b"a b\tc\nd@x.test", b"list-owner-@h.test-@[]"]


class Env:
    def __init__(self, bdir):
        self.b = build.Build("asan", bdir)
        self.root = build.mktemp("nqv-c12-")
        self.home = self.root + "/home"
        os.mkdir(self.home, 0o755)
        self.clock = shim.Clock(self.root + "/clock")
        self.log = self.root + "/log"
        self.msgfile = self.root + "/msg"
        self.reset()

    def reset(self):
        for f in os.listdir(self.home):
            p = os.path.join(self.home, f)
            if os.path.isdir(p):
                shutil.rmtree(p)
            else:
                os.unlink(p)
        for d in ("Maildir", "Maildir/tmp", "Maildir/new", "Maildir/cur"):
            os.mkdir(os.path.join(self.home, d), 0o700)

    def run(self, msg, sender, target, plan=None, count="m", recip_local=b"user-ext", wait=True, trace="mla", role="ql"):
        with open(self.msgfile, "wb") as f:
            f.write(msg)
        e = self.b.env(None, shim.env(clock=self.clock, log=self.log, trace=trace, plan=plan, count=count, role=role, datacap=32))
        e["NQV_HOME"] = self.home
        argv = [self.b.path("qmail-local"), "--", "user", self.home, recip_local.decode("latin1"), "", "", "local.test",
                sender.decode("latin1"), target]
        pid = os.fork()
        if pid == 0:
            try:
                fd = os.open(self.msgfile, os.O_RDONLY)
                os.dup2(fd, 0)
                dn = os.open("/dev/null", os.O_WRONLY)
                os.dup2(dn, 1)
                os.dup2(dn, 2)
                os.closerange(3, 1024)
                os.execve(argv[0], [a.encode("latin1") if isinstance(a, str) else a for a in argv], e)
            finally:
                os._exit(127)
        if not wait:
            return pid
        return self.wait(pid)

    def wait(self, pid, timeout=60):
        t_end = time.time() + timeout
        while time.time() < t_end:
            p, st = os.waitpid(pid, os.WNOHANG)
            if p:
                return st
            time.sleep(0.001)
        os.kill(pid, 9)
        os.waitpid(pid, 0)
        return None

    def clearlog(self):
        open(self.log, "wb").close()


def stat_str(st):
    if st is None:
        return "hang"
    return ("sig%d" % os.WTERMSIG(st)) if os.WIFSIGNALED(st) else "exit%d" % os.WEXITSTATUS(st)


# ---------------------------------------------------------------- maildir
def judge_maildir(res, E, msg, sender, recip, st, evs, site, wit, rng, expect_complete=None):
    dm = shim.DiskModel()
    for e in evs:
        dm.feed(e)
    new = os.listdir(E.home + "/Maildir/new")
    ok_files = 0
    for variant in ("keep-all", "lose-all-unsynced", "lose-suffix"):
        for f in new:
            p = os.path.join(E.home, "Maildir/new", f)
            content = open(p, "rb").read()
            view = dm.view(os.stat(p).st_ino, content, variant, rng)
            rest = header_ok(view, sender, recip + b"@local.test")
            if rest is None or rest != msg:
                res.violate("C12/maildir/visible-file-incomplete/%s/%s" % (variant, site),
                            "a file in new/ is not Return-Path + Delivered-To + exactly the message (%d of %d bytes)" % (len(view), len(msg)),
                            dict(wit, file_head=core.hx(view[:160])))
            elif variant == "keep-all":
                ok_files += 1
    code = os.WEXITSTATUS(st) if (st is not None and os.WIFEXITED(st)) else -1
    if code == 0 and len(new) != 1:
        res.violate("C12/maildir/success-without-delivery/" + site, "exit 0 with %d files in new/" % len(new), wit)
    if code not in (0, 111, -1) and st is not None:
        res.violate("C12/maildir/exit-status/" + site, "qmail-local ended with %s" % stat_str(st), wit)
    if len(new) > 1:
        res.violate("C12/maildir/duplicate-delivery/" + site, "%d files in new/ after one delivery" % len(new), wit)
    return len(new)


def maildir_worker(bdir, tier, lo, hi):
    res = core.Result()
    E = Env(bdir)
    msgs = gen_messages(tier)
    for idx in range(lo, hi):
        msg = msgs[idx % len(msgs)]
        sender = SENDERS[idx % len(SENDERS)]
        recip = [b"user-ext", b"user-ext", b"new\nline", b"a b"][idx % 4]
        rng = core.case_rng(PROP, idx, "md")
        wit0 = {"message": core.hx(msg[:80]), "msg_len": len(msg), "sender": core.hx(sender), "recipient_local": core.hx(recip)}
        E.reset()
        E.clearlog()
        st = E.run(msg, sender, "./Maildir/", recip_local=recip)
        evs = shim.read_log(E.log)
        res.evaluations += 1
        if st is None:
            res.inconclusive.append("maildir reference run hung")
            continue
        if not (os.WIFEXITED(st) and os.WEXITSTATUS(st) == 0):
            res.violate("C12/maildir/reference-delivery-failed", "fault-free maildir delivery ended with %s" % stat_str(st), wit0)
            continue
        judge_maildir(res, E, msg, sender, recip, st, evs, "no-fault", wit0, rng)
        # ordering over the log: last write < fsync < link(tmp,new)
        wr = [e["q"] for e in evs if e["c"] == "write" and "Maildir/tmp" in (e.get("path") or "")]
        fs = [e["q"] for e in evs if e["c"] == "fsync" and e.get("ret") == 0]
        lk = [e["q"] for e in evs if e["c"] == "link" and "Maildir/new" in (e.get("path2") or "") and e.get("ret") == 0]
        al = [e for e in evs if e["c"] == "alarm" and e.get("sec")]
        if not lk or (wr and not any(max(wr) < f < lk[0] for f in fs)):
            res.violate("C12/maildir/no-fsync-before-link", "writes %r fsync %r link %r" % (wr[-1:], fs, lk), wit0)
        if not al or not (0 < al[0]["sec"] <= 86400):
            res.violate("C12/maildir/no-24h-alarm", "alarm events %r" % [a.get("sec") for a in al], wit0)
        res.nontrivial("md-ref", idx)
        calls = [e for e in evs if "n2" in e and e["c"] not in ("alarm", "sleep", "flock")]
        if idx % 7 == 0:
            res.sample({"maildir_calls": ["%s %s" % (e["c"], (e.get("path2") or e.get("path") or "").replace(E.home, "~")) for e in calls][:12]}, cap=1)
        # crash sweep
        for e in calls:
            k = e["n2"]
            E.reset()
            E.clearlog()
            st2 = E.run(msg, sender, "./Maildir/", plan="qmail-local:%d:kill" % k, recip_local=recip)
            evs2 = shim.read_log(E.log)
            res.evaluations += 1
            if not any(x.get("inj") == "kill" for x in evs2):
                res.inconclusive.append("maildir crash point %d did not fire" % k)
                continue
            res.counters.inc("maildir_crash_points_fired")
            site = "crash-before-%s" % e["c"]
            judge_maildir(res, E, msg, sender, recip, st2, evs2, site, dict(wit0, crash_before_call=k, call=e["c"]), rng)
            code = os.WEXITSTATUS(st2) if os.WIFEXITED(st2) else -1
            res.nontrivial("md-crash", idx, k)
        # "whatever instant the process dies": a catchable signal just before every call of the writer (TERM, and the
        # writer's own 24 h ALRM whose handler removes tmp/X; INT and HUP on a subset), judged like a crash
        for e in calls:
            for sg in [15, 14] + ([2, 1] if idx % 4 == 0 else []):
                k = e["n2"]
                E.reset()
                E.clearlog()
                st5 = E.run(msg, sender, "./Maildir/", plan="qmail-local:%d:sig=%d" % (k, sg), recip_local=recip)
                evs5 = shim.read_log(E.log)
                res.evaluations += 1
                if st5 is None:
                    res.inconclusive.append("maildir delivery hung after signal %d before call %d" % (sg, k))
                    continue
                if not any(x.get("inj") == "sig" for x in evs5):
                    res.inconclusive.append("maildir signal point %d/%d did not fire" % (k, sg))
                    continue
                res.counters.inc("maildir_signal_points_fired")
                d5 = res.counters.setdefault("maildir_outcome_after_signal", {})
                d5["%d:%s" % (sg, stat_str(st5))] = d5.get("%d:%s" % (sg, stat_str(st5)), 0) + 1
                judge_maildir(res, E, msg, sender, recip, st5, evs5, "signal-%d-before-%s" % (sg, e["c"]), dict(wit0, signal=sg, before_call=k, call=e["c"]), rng)
                res.nontrivial("md-signal", idx, k, sg)
        # single-fault sweep
        for e in calls:
            for action in {"write": ["fail=ENOSPC", "short=1", "fail=EIO"], "fsync": ["fail=EIO"], "close": ["fail=EIO"],
                           "link": ["fail=EEXIST", "fail=EIO"], "open": ["fail=EEXIST", "fail=ENOSPC"], "unlink": ["fail=EIO"]}.get(e["c"], []):
                k = e["n2"]
                E.reset()
                E.clearlog()
                st3 = E.run(msg, sender, "./Maildir/", plan="qmail-local:%d:%s" % (k, action), recip_local=recip)
                evs3 = shim.read_log(E.log)
                res.evaluations += 1
                if not any(x.get("inj") in ("fail", "short") for x in evs3):
                    res.inconclusive.append("maildir fault %s@%d did not fire" % (action, k))
                    continue
                d = res.counters.setdefault("faults_fired_by_site", {})
                key = "maildir:%s:%s" % (e["c"], action)
                d[key] = d.get(key, 0) + 1
                site = "fault-%s-%s" % (e["c"], action.split("=")[0])
                n_new = judge_maildir(res, E, msg, sender, recip, st3, evs3, site, dict(wit0, fault=action, at_call=k, call=e["c"]), rng)
                code = os.WEXITSTATUS(st3) if (st3 is not None and os.WIFEXITED(st3)) else -1
                if action.startswith("fail") and e["c"] in ("write", "fsync", "close", "link") and code == 0 and "Maildir/tmp" in (e.get("path") or e.get("path2") or "Maildir/tmp"):
                    if e["c"] != "link" or n_new != 1:
                        res.violate("C12/maildir/success-despite-failed-%s" % e["c"], "exit 0 although %s failed (%s)" % (e["c"], action), dict(wit0, fault=action, at_call=k))
                res.nontrivial("md-fault", idx, k, action)
    # unique names: several deliveries at the same virtual second
    E.reset()
    pids = [E.run(b"concurrent %d\n" % i, b"s@x.test", "./Maildir/", wait=False) for i in range(6)]
    for p in pids:
        E.wait(p)
    n = len(os.listdir(E.home + "/Maildir/new"))
    res.evaluations += 1
    if n != 6:
        res.violate("C12/maildir/name-collision", "6 simultaneous deliveries left %d files in new/" % n, {})
    E.clock.close()
    return res


# ---------------------------------------------------------------- mbox
def judge_mbox(res, E, delivered, site, wit):
    """the documented reader must give back exactly the delivered messages"""
    p = E.home + "/Mailbox"
    data = open(p, "rb").read() if os.path.exists(p) else b""
    got = mbox_read(data)
    if len(got) != len(delivered):
        res.violate("C12/mbox/reader-message-count/" + site, "reader finds %d messages, %d were delivered" % (len(got), len(delivered)),
                    dict(wit, mailbox_tail=core.hx(data[-200:])))
        return
    for (fl, stored), (msg, sender, recip) in zip(got, delivered):
        rest = header_ok(stored, sender, recip + b"@local.test")
        if rest is None or rest != expected_stored(msg):
            res.violate("C12/mbox/reader-message-differs/" + site, "reader returns a message different from the delivered one",
                        dict(wit, delivered=core.hx(msg[:120]), read_back=core.hx(stored[:200])))
            continue
        f = fl.split(b" ")
        want = sender.replace(b" ", b"-").replace(b"\t", b"-").replace(b"\n", b"-") if sender else b"MAILER-DAEMON"
        if len(f) < 3 or f[1] != want:
            res.violate("C12/mbox/from-line-sender/" + site, "From_ line %r for sender %r" % (core.hx(fl[:80]), core.hx(sender)), wit)
        if len(fl) - len(b"From " + f[1] + b" ") < 24:
            res.violate("C12/mbox/from-line-date/" + site, "From_ line %r has no 24-character date" % core.hx(fl[:80]), wit)


def mbox_worker(bdir, tier, lo, hi):
    res = core.Result()
    E = Env(bdir)
    msgs = gen_messages(tier)
    for idx in range(lo, hi):
        rng = core.case_rng(PROP, idx, "mb")
        E.reset()
        delivered = []
        # a mailbox built by several deliveries, judged after each
        for j in range(3):
            msg = msgs[(idx * 3 + j) % len(msgs)]
            sender = SENDERS[(idx + j) % len(SENDERS)]
            recip = [b"user-ext", b"new\nline", b"a b"][(idx + j) % 3]
            E.clearlog()
            st = E.run(msg, sender, "./Mailbox", recip_local=recip)
            res.evaluations += 1
            wit = {"message": core.hx(msg[:80]), "msg_len": len(msg), "sender": core.hx(sender), "position_in_mailbox": j}
            if st is None or not (os.WIFEXITED(st) and os.WEXITSTATUS(st) == 0):
                res.violate("C12/mbox/reference-delivery-failed", "fault-free mbox delivery ended with %s" % stat_str(st), wit)
                break
            delivered.append((msg, sender, recip))
            judge_mbox(res, E, delivered, "no-fault", wit)
            res.nontrivial("mb-ref", idx, j)
        evs = shim.read_log(E.log)
        calls = [e for e in evs if "n2" in e and e["c"] in ("write", "fsync", "open", "close", "ftruncate")]
        lock = [e for e in evs if e["c"] == "flock"]
        if not lock or lock[0].get("ret") != 0 or (calls and lock[0]["q"] > min(e["q"] for e in calls if e["c"] == "write")):
            res.violate("C12/mbox/write-without-lock", "no successful flock before the first write: %r" % [(e["c"], e.get("ret")) for e in lock], {})
        # fault sweep on one more delivery: size must be restored, exit 111
        msg = msgs[(idx * 7 + 1) % len(msgs)]
        sender = SENDERS[idx % len(SENDERS)]
        if not delivered:
            continue
        size0 = os.path.getsize(E.home + "/Mailbox")
        snapshot = open(E.home + "/Mailbox", "rb").read()
        E.clearlog()
        st = E.run(msg, sender, "./Mailbox")
        entry = os.path.getsize(E.home + "/Mailbox") - size0
        with open(E.home + "/Mailbox", "wb") as f:
            f.write(snapshot)
        variants = [msg]
        if entry > 0 and (tier == "thorough" or idx % 2 == 0):
            # the same message padded so that everything before the closing blank line fills qmail-local's 1024-byte output
            # buffer exactly (and one byte less / more): then it is the put of that last newline which issues a write
            base = msg if msg.endswith(b"\n") or not msg else msg + b"\n"
            grow = (entry - 1) + (len(base) - len(msg))
            k = (-(grow)) % 1024
            for dk in ((0,) if tier == "quick" else (0, 1023, 1)):
                kk = (k + dk) % 1024
                if kk == 0:
                    kk = 1024
                variants.append(base + b"p" * (kk - 1) + b"\n")
        for vi, msg in enumerate(variants):
          E.clearlog()
          st = E.run(msg, sender, "./Mailbox")
          ref = [e for e in shim.read_log(E.log) if "n2" in e and e["c"] in ("write", "fsync")]
          if vi:
              res.counters.inc("mbox_entries_aligned_to_the_output_buffer")
              sizes = [e.get("len") for e in ref if e["c"] == "write"]
              res.counters.setdefault("aligned_write_sizes", {})[str(sizes[-3:])] = 1
          with open(E.home + "/Mailbox", "wb") as f:
              f.write(snapshot)
          for e in ref:
              for action in {"write": ["fail=ENOSPC", "fail=EIO", "short=1", "short=100"], "fsync": ["fail=EIO"]}[e["c"]]:
                  E.clearlog()
                  st = E.run(msg, sender, "./Mailbox", plan="qmail-local:%d:%s" % (e["n2"], action))
                  evs3 = shim.read_log(E.log)
                  res.evaluations += 1
                  if not any(x.get("inj") in ("fail", "short") for x in evs3):
                      res.inconclusive.append("mbox fault %s@%d did not fire" % (action, e["n2"]))
                      continue
                  d = res.counters.setdefault("faults_fired_by_site", {})
                  key = "mbox:%s:%s" % (e["c"], action)
                  d[key] = d.get(key, 0) + 1
                  wit = {"message": core.hx(msg[:80]), "msg_len": len(msg), "fault": action, "at_call": e["n2"], "call": e["c"], "size_before": size0}
                  code = os.WEXITSTATUS(st) if (st is not None and os.WIFEXITED(st)) else -1
                  size1 = os.path.getsize(E.home + "/Mailbox")
                  if action.startswith("short"):
                      # a short write is completed by the next write: the delivery must succeed and read back
                      if code == 0:
                          judge_mbox(res, E, delivered + [(msg, sender, b"user-ext")], "fault-write-short", wit)
                      elif size1 != size0:
                          res.violate("C12/mbox/not-rolled-back/fault-write-short", "exit %s, size %d -> %d" % (stat_str(st), size0, size1), wit)
                  else:
                      if code != 111:
                          res.violate("C12/mbox/exit-status-after-failed-%s" % e["c"], "exit %s after an injected %s" % (stat_str(st), action), wit)
                      if size1 != size0:
                          res.violate("C12/mbox/not-rolled-back/fault-%s" % e["c"], "failed %s: mailbox size %d -> %d (not restored)" % (e["c"], size0, size1), wit)
                      elif open(E.home + "/Mailbox", "rb").read() != snapshot:
                          res.violate("C12/mbox/content-changed-after-rollback", "size restored but earlier content changed", wit)
                  with open(E.home + "/Mailbox", "wb") as f:
                      f.write(snapshot)
                  res.nontrivial("mb-fault", idx, e["n2"], action)
    # mailboxes whose length does not fit 31 / 32 bits (sparse files): the roll-back position is a file offset, not an int
    for big in ((1 << 31) + 4321, (1 << 32) + 5000, (1 << 31) - 700):
        if lo % 3 != [(1 << 31) + 4321, (1 << 32) + 5000, (1 << 31) - 700].index(big) and tier == "quick":
            continue
        E.reset()
        mb = E.home + "/Mailbox"
        tailmark = b"From old@x.test Thu Jan  1 00:00:00 1970\nold entry at the end of a big mailbox\n\n"
        try:
            with open(mb, "wb") as f:
                f.truncate(big - len(tailmark))
                f.seek(big - len(tailmark))
                f.write(tailmark)
        except OSError as e:
            res.counters.inc("big_mailbox_not_supported_by_the_file_system")
            continue
        msg = b"Subject: big\n\n" + b"a line of the message\n" * 130
        E.clearlog()
        st = E.run(msg, b"s@x.test", "./Mailbox")
        res.evaluations += 1
        wit = {"mailbox_size_before": big, "msg_len": len(msg)}
        size1 = os.path.getsize(mb)
        if st is None or not (os.WIFEXITED(st) and os.WEXITSTATUS(st) == 0):
            res.violate("C12/mbox/reference-delivery-failed", "fault-free delivery to a mailbox of %d bytes ended with %s" % (big, stat_str(st)), wit)
            continue
        with open(mb, "rb") as f:
            f.seek(big - len(tailmark))
            tail = f.read()
        got = mbox_read(tail)
        if size1 <= big or len(got) != 2 or header_ok(got[1][1], b"s@x.test", b"user-ext@local.test") != msg:
            res.violate("C12/mbox/big-mailbox-append", "after a delivery to a mailbox of %d bytes the reader finds %d entries at its end (size now %d)" % (big, len(got), size1), wit)
        ref = [e for e in shim.read_log(E.log) if "n2" in e and e["c"] in ("write", "fsync")]
        os.truncate(mb, big)
        for e in ref:
            action = "fail=EIO" if e["c"] == "fsync" else "fail=ENOSPC"
            E.clearlog()
            st = E.run(msg, b"s@x.test", "./Mailbox", plan="qmail-local:%d:%s" % (e["n2"], action))
            res.evaluations += 1
            if not any(x.get("inj") == "fail" for x in shim.read_log(E.log)):
                res.inconclusive.append("big-mailbox fault %s@%d did not fire" % (action, e["n2"]))
                continue
            res.counters.inc("big_mailbox_faults_fired")
            size2 = os.path.getsize(mb)
            code = os.WEXITSTATUS(st) if (st is not None and os.WIFEXITED(st)) else -1
            w2 = dict(wit, fault=action, at_call=e["n2"], call=e["c"])
            if code != 111:
                res.violate("C12/mbox/exit-status-after-failed-%s" % e["c"], "exit %s after an injected %s (big mailbox)" % (stat_str(st), action), w2)
            if size2 != big:
                res.violate("C12/mbox/not-rolled-back/big-mailbox", "failed %s: mailbox of %d bytes is %d bytes long afterwards" % (e["c"], big, size2), w2)
                os.truncate(mb, big)
            else:
                with open(mb, "rb") as f:
                    f.seek(big - len(tailmark))
                    if f.read() != tailmark:
                        res.violate("C12/mbox/content-changed-after-rollback", "size restored but the end of the big mailbox changed", w2)
            res.nontrivial("mb-big", big, e["n2"])
        os.unlink(mb)
    E.clock.close()
    return res


def mbox_concurrent_worker(bdir, tier, lo, hi):
    """2-3 genuinely concurrent deliveries to one mailbox; the reader must find them intact and the event
    log must show disjoint lock..close intervals"""
    res = core.Result()
    E = Env(bdir)
    for idx in range(lo, hi):
        rng = core.case_rng(PROP, idx, "cc")
        E.reset()
        E.clearlog()
        k = rng.choice([2, 3])
        bodies = []
        pids = []
        for i in range(k):
            n = rng.choice([3000, 20000, 60000])
            body = (b"message %d of run %d line\n" % (i, idx)) * (n // 30) + rng.choice([b"", b"partial"])
            bodies.append(body)
        # in half of the runs one delivery meets a failing fsync/write: it must roll back ONLY its own bytes
        # (its call index is taken from a solo run of the same message on a scratch mailbox)
        faulty, plan = None, None
        if idx % 2 == 1:
            faulty = rng.randrange(k)
            E.msgfile = E.root + "/msgx"
            E.clearlog()
            E.run(bodies[faulty], b"s%d@x.test" % faulty, "./Scratchbox", trace="m")
            ref = [e for e in shim.read_log(E.log) if "n2" in e and e["c"] in ("fsync", "write")]
            if ref:
                tgt = ref[-1] if rng.random() < 0.6 else rng.choice(ref)
                plan = "qmail-local:%d:fail=EIO" % tgt["n2"]
            E.clearlog()
        # separate message files: start all, then wait
        for i, body in enumerate(bodies):
            E.msgfile = E.root + "/msg%d" % i
            pids.append(E.run(body, b"s%d@x.test" % i, "./Mailbox", wait=False, trace="ml", role="ql%d" % i,
                              plan=plan if i == faulty else None))
        sts = [E.wait(p) for p in pids]
        res.evaluations += 1
        ok_idx = [i for i in range(k) if not (i == faulty and plan)]
        if any(sts[i] is None or not (os.WIFEXITED(sts[i]) and os.WEXITSTATUS(sts[i]) == 0) for i in ok_idx):
            res.violate("C12/mbox/concurrent-delivery-failed", "statuses %r" % [stat_str(s) for s in sts], {})
            continue
        if plan and faulty is not None:
            res.counters.inc("concurrent_runs_with_one_failing_delivery")
            if not (sts[faulty] is not None and os.WIFEXITED(sts[faulty]) and os.WEXITSTATUS(sts[faulty]) == 111):
                res.violate("C12/mbox/concurrent-failing-delivery-exit", "the delivery with the injected fault ended with %s" % stat_str(sts[faulty]), {"plan": plan})
        data = open(E.home + "/Mailbox", "rb").read()
        got = sorted(x[1] for x in mbox_read(data))
        want = sorted(b"Return-Path: <s%d@x.test>\nDelivered-To: user-ext@local.test\n" % i + expected_stored(bodies[i]) for i in ok_idx)
        if plan and got != want:
            res.violate("C12/mbox/rollback-damaged-another-delivery", "after one of %d concurrent deliveries failed and rolled back, the reader finds %d "
                        "messages instead of the %d that reported success" % (k, len(got), len(want)), {"plan": plan, "sizes": [len(b_) for b_ in bodies]})
            continue
        if got != want:
            res.violate("C12/mbox/concurrent-deliveries-interleaved", "the reader does not find the %d delivered messages intact (finds %d)" % (k, len(got)),
                        {"sizes": [len(b_) for b_ in bodies]})
        evs = shim.read_log(E.log)
        iv = {}
        for e in evs:
            r = e.get("r")
            if e["c"] == "flock" and e.get("ret") == 0 and "Mailbox" in (e.get("path") or ""):
                iv.setdefault(r, [e["q"], None])
            if e["c"] in ("write", "ftruncate") and "Mailbox" in (e.get("path") or ""):
                iv.setdefault(r, [None, None])
                if iv[r][0] is None:
                    res.violate("C12/mbox/write-without-lock", "process %s writes the mailbox before holding the lock" % r, {})
                iv[r][1] = e["q"]
        spans = sorted((a, b_) for a, b_ in iv.values() if a is not None and b_ is not None)
        for (a1, b1), (a2, b2) in zip(spans, spans[1:]):
            if a2 < b1:
                res.violate("C12/mbox/lock-intervals-overlap", "one delivery wrote between another's lock and its last write (%r, %r)" % ((a1, b1), (a2, b2)), {})
        res.counters.inc("concurrent_lock_intervals_checked", len(spans))
        res.nontrivial("mb-conc", idx)
    E.clock.close()
    return res


def mbox_gated_worker(bdir, tier, lo, hi):
    """2-3 mbox deliveries to one mailbox under CONTROLLED interleaving: every open/flock/write/fsync/
    ftruncate/close of each qmail-local is held at the shim's gate and released one at a time by a seeded
    priority scheduler with change points; optionally one write/fsync of one delivery fails.  Judged after
    every step that ends a critical section (the mailbox must then consist of exactly the entries of the
    deliveries that have finished successfully) and at the end (statuses, reader).  The lock itself is
    monitored too: a flock that returns success while another process holds the lock is a violation."""
    from .. import gatesched
    res = core.Result()
    E = Env(bdir)
    for idx in range(lo, hi):
        rng = core.case_rng(PROP, idx, "gated")
        E.reset()
        E.clearlog()
        k = rng.choice([2, 2, 3])
        bodies = []
        for i in range(k):
            n = rng.choice([0, 40, 900, 1100, 2300, 3500])
            body = (b"gated %d/%d line\n" % (i, idx)) * (n // 16) + rng.choice([b"", b"partial", b"From inside\n", b"\n"])
            bodies.append(body)
        pre = rng.choice([b"", b"", b"From old@x.test Thu Jan  1 00:00:00 1970\nold entry\n\n"])
        if pre:
            with open(E.home + "/Mailbox", "wb") as f:
                f.write(pre)
        gate = E.root + "/gate.sock"
        ctl = gatesched.GateCtl(gate)
        pids = []
        role_of = {}
        try:
            for i, body in enumerate(bodies):
                E.msgfile = E.root + "/msg%d" % i
                with open(E.msgfile, "wb") as f:
                    f.write(body)
                e = E.b.env(None, shim.env(clock=E.clock, log=E.log, trace="ml", role="ql%d" % i, datacap=32,
                                           gate=gate, gatecls="ml", gateprog="qmail-local"))
                e["NQV_HOME"] = E.home
                argv = [E.b.path("qmail-local"), "--", "user", E.home, "user-ext", "", "", "local.test", "s%d@x.test" % i, "./Mailbox"]
                pid = os.fork()
                if pid == 0:
                    try:
                        fd = os.open(E.msgfile, os.O_RDONLY)
                        os.dup2(fd, 0)
                        dn = os.open("/dev/null", os.O_WRONLY)
                        os.dup2(dn, 1)
                        os.dup2(dn, 2)
                        os.closerange(3, 1024)
                        os.execve(argv[0], [a.encode("latin1") for a in argv], e)
                    finally:
                        os._exit(127)
                pids.append(pid)
                role_of[pid] = i
            # the fault, if any: the j-th write/fsync on the mailbox of one delivery
            faulty = rng.randrange(k) if rng.random() < 0.4 else None
            fault_at = rng.randrange(1, 5)
            fault_err = rng.choice(["EIO", "ENOSPC", "EDQUOT"]) if faulty is not None else None
            fault_fired = False
            prio = {i: rng.random() for i in range(k)}
            changes = set(rng.sample(range(1, 25), rng.choice([1, 2, 3, 5])))
            uniform = rng.random() < 0.5        # every step drawn uniformly, or priorities with change points
            holder = None           # role index that holds the lock according to the events seen
            nwf = {i: 0 for i in range(k)}
            nblocked = 0
            step = 0
            hang = False
            seen = 0
            while True:
                if not ctl.settle(pids):
                    hang = True
                    break
                # digest the new exit events
                # one call is released at a time, so a batch holds the return of that call plus, when it was the
                # holder's close, the returns of the flocks it unblocked (whose events were begun earlier and carry
                # lower sequence numbers): releases are digested before acquisitions
                batch = [x for x in ctl.events[seen:] if x[0] == "exit"]
                batch.sort(key=lambda x: 0 if x[2].get("c") == "close" else 1)
                for kind, role, m in batch:
                    ri = int(role[2:])
                    c = m.get("c")
                    if c == "flock" and m.get("ret") == 0 and "Mailbox" in (m.get("path") or ""):
                        if holder is not None and holder != ri:
                            res.violate("C12/mbox/lock-not-exclusive", "delivery %d obtained the mailbox lock while delivery %d held it" % (ri, holder),
                                        {"grants": ctl.grants[-20:]})
                        holder = ri
                    elif c in ("write", "ftruncate") and "Mailbox" in (m.get("path") or "") and holder != ri:
                        res.violate("C12/mbox/write-without-lock", "delivery %d changes the mailbox without holding the lock" % ri, {"grants": ctl.grants[-20:]})
                    elif c == "close" and "Mailbox" in (m.get("path") or "") and holder == ri:
                        holder = None
                seen = len(ctl.events)
                for pid in pids:
                    if pid in ctl.status and holder == role_of[pid]:
                        holder = None
                held = ctl.held()
                if not held:
                    if all(pid in ctl.status for pid in pids):
                        break
                    # everybody alive waits inside flock: the holder has just gone (the kernel releases its lock at
                    # exit); wait for the return of one of those calls
                    t_end = time.time() + 30
                    while time.time() < t_end and not ctl.held() and not all(pid in ctl.status for pid in pids):
                        ctl.pump(0.005)
                        ctl.reap(pids)
                    if not ctl.held() and not all(pid in ctl.status for pid in pids):
                        hang = True
                        break
                    continue
                step += 1
                if step in changes:
                    for i in prio:
                        prio[i] = rng.random()
                held.sort(key=lambda p: -prio.get(int(p.role[2:]), 0))
                p = rng.choice(held) if uniform else held[0]
                ri = int(p.role[2:])
                m = p.held
                c = m.get("c")
                dec = "g"
                if c in ("write", "fsync") and "Mailbox" in (m.get("path") or ""):
                    nwf[ri] += 1
                    if ri == faulty and nwf[ri] == fault_at:
                        dec = "f " + fault_err
                        fault_fired = True
                expect_block = c == "flock" and holder is not None and holder != ri
                nblocked += 1 if expect_block else 0
                ctl.release(p, dec, expect_block=expect_block)
                if not expect_block:
                    # wait for the call to return (or the process to exit inside it)
                    t_end = time.time() + 20
                    while p.inflight is not None and not p.gone and time.time() < t_end:
                        ctl.pump(0.002)
                    if p.inflight is not None and not p.gone:
                        if c == "flock":
                            p.blocked = True          # blocks although we think the lock is free: somebody holds it
                        else:
                            hang = True
                            break
                else:
                    ctl.pump(0.003)
                    if p.inflight is None and not p.gone:
                        pass                          # judged with the exit event above (lock-not-exclusive)
                # a critical section has just ended? then the mailbox must be whole entries of the finished deliveries
                ctl.reap(pids)
            if hang:
                res.inconclusive.append("gated mbox run %d did not settle: %r grants=%r" % (idx, [(p_.role, p_.pid, (p_.held or {}).get("c"), (p_.inflight or {}).get("c"), p_.blocked, p_.gone) for p_ in ctl.procs], ctl.grants[-8:]))
                continue
            res.evaluations += 1
            sts = [ctl.status.get(pid) for pid in pids]
            ok_idx = [i for i in range(k) if not (i == faulty and fault_fired)]
            if any(sts[i] is None or not (os.WIFEXITED(sts[i]) and os.WEXITSTATUS(sts[i]) == 0) for i in ok_idx):
                res.violate("C12/mbox/gated-delivery-failed", "statuses %r" % [stat_str(s) for s in sts], {"grants": ctl.grants})
                continue
            if fault_fired:
                res.counters.inc("gated_runs_with_fault_fired")
                if not (sts[faulty] is not None and os.WIFEXITED(sts[faulty]) and os.WEXITSTATUS(sts[faulty]) == 111):
                    res.violate("C12/mbox/concurrent-failing-delivery-exit", "the delivery with the injected fault ended with %s" % stat_str(sts[faulty]),
                                {"grants": ctl.grants})
            data = open(E.home + "/Mailbox", "rb").read()
            if not data.startswith(pre):
                res.violate("C12/mbox/earlier-content-damaged", "the mailbox no longer starts with what it held before the deliveries", {"grants": ctl.grants})
                continue
            got = sorted(x[1] for x in mbox_read(data[len(pre):]))
            want = sorted(b"Return-Path: <s%d@x.test>\nDelivered-To: user-ext@local.test\n" % i + expected_stored(bodies[i]) for i in ok_idx)
            if got != want:
                key = "C12/mbox/rollback-damaged-another-delivery" if fault_fired else "C12/mbox/concurrent-deliveries-interleaved"
                res.violate(key, "controlled interleaving of %d deliveries: the reader finds %d messages, %d reported success (fault: %s)"
                            % (k, len(got), len(want), fault_fired), {"grants": ctl.grants, "sizes": [len(x) for x in bodies]})
            res.counters.inc("gated_runs")
            res.counters.inc("gated_steps", len(ctl.grants))
            res.counters.inc("gated_flocks_that_had_to_wait", nblocked)
            res.nontrivial("mb-gated", tuple(ctl.grants))
            if idx < lo + 2:
                res.sample({"gated_schedule": ["%s:%s" % g for g in ctl.grants]})
        finally:
            for pid in pids:
                if pid not in ctl.status:
                    try:
                        os.kill(pid, 9)
                        os.waitpid(pid, 0)
                    except OSError:
                        pass
            ctl.close()
    E.clock.close()
    return res


def main(tier):
    t0 = time.time()
    b = build.vbuild("asan")
    quick = tier == "quick"
    nm = len(gen_messages(tier))
    res = core.Result()
    n_md = core.scaled(nm if quick else nm)
    n_mb = core.scaled(60 if quick else nm)
    n_cc = core.scaled(600 if quick else 24000)
    res.merge(core.pmap(maildir_worker, [(b.dir, tier, lo, hi) for lo, hi in core.chunks(n_md, 30)], timeout=3000))
    res.merge(core.pmap(mbox_worker, [(b.dir, tier, lo, hi) for lo, hi in core.chunks(n_mb, 30)], timeout=3000))
    res.merge(core.pmap(mbox_concurrent_worker, [(b.dir, tier, lo, hi) for lo, hi in core.chunks(n_cc, 16)], timeout=3000))
    n_g = core.scaled(640 if quick else 16000)
    res.merge(core.pmap(mbox_gated_worker, [(b.dir, tier, lo, hi) for lo, hi in core.chunks(n_g, 40)], timeout=3000))
    if not res.counters.get("maildir_crash_points_fired") or not res.counters.get("faults_fired_by_site") or not res.counters.get("concurrent_lock_intervals_checked") \
            or not res.counters.get("gated_flocks_that_had_to_wait"):
        res.inconclusive.append("no crash point / fault fired or no lock interval observed: the instrumentation is not active")
        res.distinct = set()
    rule = ("messages: empty, no final newline, From_/>From_/>>From_ lines, NUL and 8-bit, sizes around the 1024-byte buffers; senders "
            "with spaces, tabs, newlines, empty, #@[]; recipients with newline/space. Maildir: reference run, SIGKILL before every "
            "mutating libc call (new/ judged under 3 disk variants), a catchable signal (TERM, ALRM; INT, HUP on a subset) before every call, one injected fault per call site. Mbox: mailboxes built from 3 "
            "deliveries judged by the mbox(5) reader after each, one injected write/fsync fault per call (size restored, exit 111), the same "
            "on sparse mailboxes of 2^31-700, 2^31+4321 and 2^32+5000 bytes, "
            "2-3 genuinely concurrent deliveries (reader + lock-interval monitor over the event log), and 2-3 deliveries under "
            "CONTROLLED interleaving (every open/flock/write/fsync/ftruncate/close held at the shim's gate and released one at a "
            "time by a seeded scheduler, uniform or priority-with-change-points, optionally one failing write/fsync; distinct = the "
            "released call sequence). Non-trivial/distinct = (input, call index, action) whose injection fired, reference runs, "
            "concurrent runs, distinct gated schedules.")
    return core.finish(PROP, tier, "fault_enumeration", res, rule, t0, assumptions=[
        "crash/fault injection at the libc boundary (LD_PRELOAD shim); disk model as conf-qmail states",
        "Return-Path content is compared exactly only for senders without special characters (quoting is C17's subject)",
        "the free-running concurrent mbox deliveries are really concurrent processes; their lock-interval monitor uses the shim's global sequence numbers",
        "controlled interleavings are at libc-call granularity; a flock released while another delivery holds the lock is expected to block"])


def replay(path):
    with open(path) as f:
        print(f.read()[:4000])
    return main("quick")
