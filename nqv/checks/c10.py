"""C10 - recipients are routed and rewritten exactly by the control files (DESIGN.md section 3, C10).

(a) harness h_send_rewrite: the real qmail-send.c with controls loaded by the real getcontrols()
    from generated control directories; rewrite() on generated addresses, senderadd() on VERP
    senders, then the real reread() (SIGHUP path) on replaced locals/virtualdomains, all compared
    with the documentation model nqv/refmodel/rewrite_model.py.
(b) light whole-binary piece: the real qmail-send daemon (ASan build) with both concurrencies 0
    (deliveries on hold), the real qmail-queue and qmail-clean: messages injected before start-up
    and after a SIGHUP that follows a rewrite of locals/virtualdomains; local/<n> and remote/<n>
    must hold exactly the model's records, in envelope order, none dropped / duplicated / merged.
    (Preprocessing under crashes, faults and delivery traffic is the queue engine's job, not this.)"""
import glob
import json
import os
import shutil
import signal
import subprocess
import time

from .. import core, build, hrun, sandbox
from ..refmodel import rewrite_model as rm

PROP = "C10"
SEND_OBJS = ("qsutil.o control.o constmap.o newfield.o prioq.o trigger.o fmtqfn.o quote.o readsubdir.o "
             "qmail.o date822fmt.o datetime.a case.a ndelay.a getln.a wait.a fd.a sig.a open.a lock.a "
             "stralloc.a substdio.a error.a str.a fs.a auto_qmail.o auto_split.o env.a").split()
PRIMARY = ("locals", "vuser", "vdomain", "vwild", "vcatchall", "remote")


def rule_class(fired):
    """stable input class for violation keys: which documented rules the model applied"""
    parts = []
    if "pct2" in fired:
        parts.append("pct-repeated")
    elif "pct" in fired:
        parts.append("pct")
    parts += [x for x in PRIMARY if x in fired]
    if parts == ["remote"] and "noat" in fired:
        parts.insert(0, "noat")
    if "exception" in fired:
        parts.append("empty-prepend")
    if "several-rules-match" in fired:
        parts.append("overlap")
    return "+".join(parts) or "none"


def write_controls(d, files):
    os.makedirs(d, exist_ok=True)
    for k, v in files.items():
        with open(os.path.join(d, k), "wb") as f:
            f.write(v)


def describe(raw, maps):
    return {"me": core.hx(raw["me"]),
            "locals": None if maps[0] is None else [core.hx(x) for x in maps[0]],
            "virtualdomains": None if maps[1] is None else {core.hx(k): core.hx(v) for k, v in maps[1].items()},
            "percenthack": None if raw["percenthack"] is None else [core.hx(x) for x in raw["percenthack"]],
            "envnoathost": None if raw["envnoathost"] is None else core.hx(raw["envnoathost"])}


# ------------------------------------------------------------------ (a) harness

def gen_history(i, naddr, nverp):
    """configuration i: start-up controls, then 0-2 HUP stages with new locals/virtualdomains"""
    rng = core.case_rng(PROP, i, "cfg")
    raw = rm.gen_config(rng)
    stages = [(raw["locals"], raw["vdoms"])]
    for _ in range(rng.choice([0, 1, 1, 2])):
        if rng.random() < 0.6:
            # a small edit of what the daemon has loaded (same-length rename, value change, append, delete, swap)
            stages.append(rm.edit_maps(rng, stages[-1], raw["names"] + [raw["me"]])[:2])
        else:
            stages.append(rm.gen_maps(rng, raw["names"] + [raw["me"]]))
    files = []
    for k, maps in enumerate(stages):
        r2 = dict(raw, locals=maps[0], vdoms=maps[1])
        files.append(rm.control_files(rng, r2))
        if k:
            # only locals and virtualdomains change: everything else is the very same file
            for name in ("me", "percenthack", "envnoathost"):
                if name in files[0]:
                    files[k][name] = files[0][name]
                else:
                    files[k].pop(name, None)
    per = max(20, naddr // len(stages))
    ops = []
    for k, maps in enumerate(stages):
        if k:
            ops.append(("H", k, None))
        for a in rm.gen_addresses(rng, raw, per, extra_maps=stages):
            ops.append(("A", k, a))
        for j in range(1, len(stages)):
            # and addresses aimed at exactly what a HUP stage changed, asked in every stage
            for a in rm.changed_addresses(rng, stages[j - 1], stages[j]):
                ops.append(("A", k, a))
        for s, r in rm.gen_verp(rng, raw, nverp // len(stages) + 1):
            ops.append(("S", k, (s, r)))
    return raw, stages, files, ops


def harness_worker(bdir, hbin, lo, hi, naddr, nverp):
    # pool workers do not run atexit handlers: remove the scratch directory here
    top = build.mktemp("nqv-c10-h-")
    try:
        return _harness_worker(bdir, hbin, lo, hi, naddr, nverp, top)
    finally:
        shutil.rmtree(top, ignore_errors=True)


def _harness_worker(bdir, hbin, lo, hi, naddr, nverp, top):
    res = core.Result()
    b = build.Build("asan", bdir)
    for i in range(lo, hi):
        raw, stages, files, ops = gen_history(i, naddr, nverp)
        home = os.path.join(top, "h%d" % i)
        os.makedirs(home + "/queue")
        for k, fl in enumerate(files):
            write_controls(home + ("/control" if k == 0 else "/control.%d" % k), fl)
        script = bytearray()
        for op, k, x in ops:
            if op == "A":
                script += b"A" + x + b"\0"
            elif op == "S":
                script += b"s" + x[0] + b"\0S" + x[1] + b"\0"
            else:
                script += b"H%d\0" % k
        sp = home + "/script"
        with open(sp, "wb") as f:
            f.write(script)
        rc, out, err = core.run_with_watchdog([hbin, home, sp], 120, env=b.env(home))
        if rc is None:
            rc, out, err = core.run_with_watchdog([hbin, home, sp], 120, env=b.env(home))
        label = "config %d" % i
        if rc is None:
            res.inconclusive.append("h_send_rewrite watchdog, " + label)
            continue
        e = err.decode("latin1")
        if rc != 0:
            if "Sanitizer" in e or "runtime error" in e or rc < 0:
                res.violate("C20/sanitizer/h_send_rewrite/" + hrun.sanitizer_site(e),
                            "sanitizer report in rewrite()/senderadd()/getcontrols() (rc=%s)" % rc,
                            {"case_index": i, "config": describe(raw, stages[0]), "stderr_tail": e[-2500:]})
            else:
                res.inconclusive.append("h_send_rewrite rc=%s %s: %s" % (rc, label, e[-300:]))
            continue
        if "alert:" in e:
            res.inconclusive.append("daemon code logged an alert, %s: %s" % (label, e[-200:]))
            continue
        lines = out.decode("latin1").split("\n")
        if lines and lines[-1] == "":
            lines.pop()
        if len(lines) != len(ops):
            res.inconclusive.append("h_send_rewrite: %d answers for %d operations, %s" % (len(lines), len(ops), label))
            continue
        cfg0 = rm.to_config(raw)
        cfgs = [cfg0] + [cfg0.after_hup(m[0], m[1]) for m in stages[1:]]
        res.counters.inc("configurations")
        res.counters.inc("hup_rereads", len(stages) - 1)
        for (op, k, x), line in zip(ops, lines):
            t = line.split(" ")
            stage = "rewrite" if k == 0 else "rewrite-after-hup"
            if op == "H":
                if t[0] != "h":
                    res.inconclusive.append("protocol: expected h, got %r" % line[:40])
                    break
                continue
            if op == "A":
                if t[0] != "r" or len(t) != 3:
                    res.inconclusive.append("protocol: expected r, got %r" % line[:40])
                    break
                res.evaluations += 1
                got_ch = int(t[1])
                got = bytes.fromhex(t[2]) if t[2] != "-" else b""
                m = rm.rewrite(x, cfgs[k])
                wit = {"case_index": i, "stage": k, "address": core.hx(x), "address_hex": x.hex(),
                       "config": describe(raw, stages[k]), "observed_channel": got_ch, "observed_record": core.hx(got)}
                framed = got_ch in (1, 2) and got[:1] == b"T" and got[-1:] == b"\0" and b"\0" not in got[1:-1]
                if m is None:
                    res.counters.inc("undetermined_by_documents_not_compared")
                    if not framed:
                        res.violate("C10/%s/malformed-record/undetermined" % stage, "rewrite() result is not T<addr>NUL with channel 1/2", wit)
                    continue
                ch, addr, fired = m
                cls = rule_class(fired)
                wit["expected_channel"] = ch
                wit["expected_record"] = core.hx(b"T" + addr + b"\0")
                wit["rules"] = sorted(fired)
                for r in fired:
                    res.counters.inc("rule_" + r)
                if k:
                    res.counters.inc("compared_after_hup")
                if fired != {"remote"}:
                    res.nontrivial(i, k, x)
                if not framed:
                    res.violate("C10/%s/malformed-record/%s" % (stage, cls), "rewrite() result is not T<addr>NUL with channel 1/2", wit)
                elif got_ch != ch:
                    res.violate("C10/%s/channel/%s" % (stage, cls), "classified %s, documents say %s" % (
                        {1: "local", 2: "remote"}[got_ch], {1: "local", 2: "remote"}[ch]), wit)
                elif got != b"T" + addr + b"\0":
                    res.violate("C10/%s/address/%s" % (stage, cls), "rewritten address differs from the documented rewriting", wit)
                else:
                    res.counters.inc("channel_local" if ch == 1 else "channel_remote")
                    if "several-rules-match" in fired or "pct2" in fired:
                        res.sample({"address": core.hx(x), "rules": sorted(fired), "record": core.hx(got),
                                    "channel": ch, "config": describe(raw, stages[k])}, cap=3)
            else:
                if t[0] != "s" or len(t) != 2:
                    res.inconclusive.append("protocol: expected s, got %r" % line[:40])
                    break
                res.evaluations += 1
                got = bytes.fromhex(t[1]) if t[1] != "-" else b""
                s, r = x
                exp = rm.senderadd(s, r)
                if exp is None:
                    continue
                form = "verp-form" if exp != s else "plain-sender"
                if exp != s:
                    res.nontrivial("verp", s, r)
                    res.counters.inc("verp_expansions")
                else:
                    res.counters.inc("verp_plain_senders")
                if got != exp:
                    res.violate("C10/verp/%s" % form, "per-recipient sender differs from prerecip=domain@host",
                                {"case_index": i, "sender": core.hx(s), "recipient": core.hx(r),
                                 "observed": core.hx(got), "expected": core.hx(exp)})
                elif exp != s:
                    res.sample({"sender": core.hx(s), "recipient": core.hx(r), "expanded": core.hx(got)}, cap=1)
        shutil.rmtree(home, ignore_errors=True)
    return res


# ------------------------------------------------------------------ (b) real daemon, deliveries on hold

SELECT_SYSCALLS = {"23", "270"}        # select, pselect6 (x86_64)


def _syscall(pid):
    try:
        with open("/proc/%d/syscall" % pid) as f:
            return f.read().split(" ")[0].strip()
    except OSError:
        return None


def _vol_switches(pid):
    try:
        with open("/proc/%d/status" % pid) as f:
            for l in f:
                if l.startswith("voluntary_ctxt_switches"):
                    return int(l.split()[1])
    except OSError:
        pass
    return None


class Daemon:
    """real qmail-send with stand-in spawners that grant concurrency 0 and a real qmail-clean"""

    def __init__(self, b, home):
        self.home = home
        env = b.env(home)
        env["ASAN_OPTIONS"] = env.get("ASAN_OPTIONS", "") + ":log_path=" + home + "/asan"   # fd 2 is a pipe here
        pipes = [os.pipe() for _ in range(6)]
        (lo_r, lo_w), (li_r, li_w), (ro_r, ro_w), (ri_r, ri_w), (ct_r, ct_w), (cf_r, cf_w) = pipes
        self.clean = subprocess.Popen([home + "/bin/qmail-clean"], stdin=ct_r, stdout=cf_w, env=env,
                                      stderr=subprocess.DEVNULL, start_new_session=True)
        logfd = os.open(home + "/send.log", os.O_WRONLY | os.O_CREAT | os.O_APPEND, 0o644)
        self.pid = os.fork()
        if self.pid == 0:
            try:
                import fcntl
                os.setsid()
                want = [logfd, lo_w, li_r, ro_w, ri_r, ct_w, cf_r]
                high = [fcntl.fcntl(fd, fcntl.F_DUPFD, 100) for fd in want]
                for n, fd in enumerate(high):
                    os.dup2(fd, n)
                os.closerange(7, 4096)
                os.execve(home + "/bin/qmail-send", ["qmail-send"], env)
            finally:
                os._exit(127)
        os.close(logfd)
        for fd in (lo_w, li_r, ro_w, ri_r, ct_w, cf_r, ct_r, cf_w):
            os.close(fd)
        self.keep = [lo_r, li_w, ro_r, ri_w]
        os.write(li_w, b"\0")           # "I can run 0 deliveries at once": everything stays on hold
        os.write(ri_w, b"\0")
        self.status = None

    def alive(self):
        if self.status is not None:
            return False
        p, st = os.waitpid(self.pid, os.WNOHANG)
        if p:
            self.status = st
            return False
        return True

    def wait_idle(self, deadline, after_switches=None):
        """daemon blocked in select() and todo/, intd/ empty.  A zero-timeout select never blocks,
        and the daemon polls with zero timeout while a todo scan is open, so 'blocked in select'
        means the scan is over."""
        q = self.home + "/queue/"
        while time.time() < deadline:
            if not self.alive():
                return False
            if not os.listdir(q + "todo") and not os.listdir(q + "intd") and _syscall(self.pid) in SELECT_SYSCALLS:
                if after_switches is None or (_vol_switches(self.pid) or 0) > after_switches:
                    return True
            time.sleep(0.004)
        return False

    def hup(self, deadline):
        """SIGHUP and wait until the daemon has gone around its main loop (woken, then blocked in
        select again): the reread happens at the top of the loop"""
        n = _vol_switches(self.pid)
        os.kill(self.pid, signal.SIGHUP)
        return self.wait_idle(deadline, after_switches=n)

    def stop(self):
        if self.alive():
            os.kill(self.pid, signal.SIGTERM)
            t = time.time() + 15
            while time.time() < t and self.alive():
                time.sleep(0.005)
            if self.alive():
                os.kill(self.pid, signal.SIGKILL)
                os.waitpid(self.pid, 0)
                self.status = -9
        for fd in self.keep:
            try:
                os.close(fd)
            except OSError:
                pass
        try:
            self.clean.wait(timeout=10)
        except subprocess.TimeoutExpired:
            self.clean.kill()
            self.clean.wait()
        return self.status


def read_records(path):
    if not os.path.exists(path):
        return []
    with open(path, "rb") as f:
        data = f.read()
    recs = data.split(b"\0")
    if recs and recs[-1] == b"":
        recs.pop()
    return recs


def daemon_history(b, home, i, res):
    """one history; returns False when it could not be driven (inconclusive, retried once)"""
    rng = core.case_rng(PROP, i, "daemon")
    raw = rm.gen_config(rng)
    stages = [(raw["locals"], raw["vdoms"])]
    stages.append(rm.edit_maps(rng, stages[0], raw["names"] + [raw["me"]])[:2] if rng.random() < 0.6
                  else rm.gen_maps(rng, raw["names"] + [raw["me"]]))
    cfg0 = rm.to_config(raw)
    cfgs = [cfg0, cfg0.after_hup(*stages[1])]
    files = rm.control_files(rng, raw)
    files["concurrencylocal"] = b"0\n"
    files["concurrencyremote"] = b"0\n"
    sandbox.make_home(b, home, controls={}, bins=("qmail-queue", "qmail-clean", "qmail-send"))
    write_controls(home + "/control", files)
    msgs = []          # (stage, sender, recipients)

    def make(stage, k):
        n = rng.choice([1, 2, 5, 12, 40, 150])
        rc = [a for a in rm.gen_addresses(rng, raw, n, extra_maps=stages) + rm.changed_addresses(rng, stages[0], stages[1])
              if all(rm.rewrite(a, c) is not None for c in cfgs)]
        if not rc:
            rc = [b"user@" + raw["names"][0]]
        for _ in range(rng.choice([0, 0, 1, 3])):
            # the same recipient listed twice (adjacent or apart) stays two records
            j = rng.randrange(len(rc))
            rc.insert(rng.choice([j, j + 1, rng.randint(0, len(rc))]), rc[j])
        m = (stage, b"s%d-%d@sender.test" % (stage, k), rc)
        msgs.append(m)
        return m

    def inject(m):
        env = b"F" + m[1] + b"\0" + b"".join(b"T" + r + b"\0" for r in m[2]) + b"\0"
        st = sandbox.inject(b, home, b"Subject: c10\n\nbody\n", env)
        if st != 0:
            raise core.Inconclusive("qmail-queue status %d" % st)

    for k in range(rng.randint(1, 3)):
        inject(make(0, k))                  # queued before the daemon starts: found by the start-up scan
    d = Daemon(b, home)
    try:
        dl = time.time() + 40
        if not d.wait_idle(dl):
            res.inconclusive.append("daemon did not become idle after start (history %d)" % i)
            return False
        for k in range(3, 3 + rng.randint(0, 2)):
            inject(make(0, k))              # arrives while the daemon runs: found through the trigger
        if not d.wait_idle(dl):
            res.inconclusive.append("daemon did not become idle (history %d)" % i)
            return False
        # the administrator edits the two files, then signals
        f2 = rm.control_files(rng, dict(raw, locals=stages[1][0], vdoms=stages[1][1]))
        for name in ("locals", "virtualdomains"):
            p = home + "/control/" + name
            if name in f2:
                with open(p + ".new", "wb") as f:
                    f.write(f2[name])
                os.rename(p + ".new", p)
            elif os.path.exists(p):
                os.unlink(p)
        if not d.hup(dl):
            res.inconclusive.append("daemon did not come back to select after SIGHUP (history %d)" % i)
            return False
        for k in range(rng.randint(1, 3)):
            inject(make(1, k))
        if not d.wait_idle(dl):
            res.inconclusive.append("daemon did not become idle after HUP stage (history %d)" % i)
            return False
    finally:
        st = d.stop()
    reports = glob.glob(home + "/asan.*")
    if reports or st != 0:
        txt = ""
        for r in reports[:1]:
            with open(r, errors="replace") as f:
                txt = f.read()
        if reports:
            res.violate("C20/sanitizer/qmail-send/" + hrun.sanitizer_site(txt), "sanitizer report in qmail-send",
                        {"case_index": i, "report": txt[-2500:]})
        else:
            res.inconclusive.append("qmail-send exit status %r (history %d)" % (st, i))
        return True
    # map messages to queue ids through their (unique) envelope senders
    ids = {}
    for p in glob.glob(home + "/queue/info/*/*"):
        with open(p, "rb") as f:
            s = f.read()
        if s[:1] == b"F" and s[-1:] == b"\0":
            ids[s[1:-1]] = os.path.basename(p)
    for stage, sender, rcpts in msgs:
        res.evaluations += 1
        res.counters.inc("daemon_messages")
        res.counters.inc("daemon_recipients", len(rcpts))
        skey = "daemon" if stage == 0 else "daemon-after-hup"
        wit = {"case_index": i, "stage": stage, "config": describe(raw, stages[stage]),
               "recipients": [core.hx(r) for r in rcpts[:60]], "recipients_hex": [r.hex() for r in rcpts[:60]]}
        mid = ids.get(sender)
        if mid is None:
            res.violate("C10/%s/message-not-preprocessed" % skey, "no info file for an accepted message", wit)
            continue
        exp = {1: [], 2: []}
        classes = set()
        for r in rcpts:
            ch, addr, fired = rm.rewrite(r, cfgs[stage])
            exp[ch].append(b"T" + addr)
            classes.add(rule_class(fired))
            if fired != {"remote"}:
                res.nontrivial("daemon", i, stage, r)
        got = {1: read_records(glob.glob(home + "/queue/local/*/" + mid)[0]) if glob.glob(home + "/queue/local/*/" + mid) else [],
               2: read_records(glob.glob(home + "/queue/remote/*/" + mid)[0]) if glob.glob(home + "/queue/remote/*/" + mid) else []}
        wit["observed_local"] = [core.hx(x) for x in got[1][:60]]
        wit["observed_remote"] = [core.hx(x) for x in got[2][:60]]
        wit["expected_local"] = [core.hx(x) for x in exp[1][:60]]
        wit["expected_remote"] = [core.hx(x) for x in exp[2][:60]]
        if got == exp:
            res.counters.inc("daemon_messages_exact")
            if stage:
                res.counters.inc("daemon_messages_exact_after_hup")
            if len(rcpts) > 1 and exp[1] and exp[2]:
                res.counters.inc("daemon_messages_split_over_both_channels")
                res.sample({"daemon_message": "%d recipients -> %d local + %d remote records%s" % (
                    len(rcpts), len(exp[1]), len(exp[2]), ", preprocessed after SIGHUP" if stage else ""),
                    "first_local": core.hx(got[1][0]), "first_remote": core.hx(got[2][0])}, cap=1)
            continue
        if sorted(got[1] + got[2]) == sorted(exp[1] + exp[2]):
            if sorted(got[1]) == sorted(exp[1]):
                res.violate("C10/%s/record-order" % skey, "channel files hold the right records in another order", wit)
            else:
                res.violate("C10/%s/channel" % skey, "right records, wrong channel file", wit)
        elif len(got[1]) + len(got[2]) != len(rcpts):
            res.violate("C10/%s/record-count" % skey, "%d records written for %d recipients" % (
                len(got[1]) + len(got[2]), len(rcpts)), wit)
        else:
            res.violate("C10/%s/records-differ" % skey, "channel files differ from the documented rewriting", wit)
    return True


def daemon_worker(bdir, lo, hi):
    top = build.mktemp("nqv-c10-d-")
    try:
        return _daemon_worker(bdir, lo, hi, top)
    finally:
        shutil.rmtree(top, ignore_errors=True)


def _daemon_worker(bdir, lo, hi, top):
    res = core.Result()
    b = build.Build("asan", bdir)
    for i in range(lo, hi):
        for attempt in (0, 1):
            r2 = core.Result()
            try:
                ok = daemon_history(b, os.path.join(top, "home"), i, r2)
            except core.Inconclusive as e:
                ok = False
                r2.inconclusive.append("history %d: %s" % (i, e))
            if ok or attempt:
                res.merge(r2)
                if ok:
                    res.counters.inc("daemon_histories")
                break
    return res


def proc_syscall_usable():
    p = subprocess.Popen(["sleep", "5"])
    try:
        for _ in range(200):
            s = _syscall(p.pid)
            if s and s.lstrip("-").isdigit() and s != "-1":
                return _vol_switches(p.pid) is not None
            time.sleep(0.005)
        return False
    finally:
        p.kill()
        p.wait()


def main(tier):
    t0 = time.time()
    b = build.vbuild("asan")
    hbin = b.compile_harness(os.path.join(core.VERIF, "harness/h_send_rewrite.c"), extra_objs=SEND_OBJS)
    ncfg = core.scaled(1500 if tier == "quick" else 30000)
    naddr = 200
    nverp = 30
    nhist = core.scaled(96 if tier == "quick" else 1600)
    res = core.pmap(harness_worker, [(b.dir, hbin, lo, hi, naddr, nverp) for lo, hi in core.chunks(ncfg, core.JOBS * 2)],
                    timeout=3600)
    res.samples = res.samples[:6]
    notes = []
    if proc_syscall_usable():
        dres = core.pmap(daemon_worker, [(b.dir, lo, hi) for lo, hi in core.chunks(nhist, core.JOBS)], timeout=3600)
        dres.samples = dres.samples[:3]
        res.merge(dres)
    else:
        notes.append("whole-binary piece skipped: /proc/<pid>/syscall not readable here, idleness of the daemon cannot be observed soundly")
        res.counters["daemon_piece_skipped"] = 1
    rule = ("(a) %d generated configurations (locals / virtualdomains with users, domains, dot-suffix wildcards, catch-all, "
            "empty-prepend exceptions / percenthack / envnoathost, each possibly absent, mixed case, comments, trailing blanks, "
            "never one key twice) x ~%d recipient addresses built from the configured names (case flips, extra labels, no @, "
            "trailing @, two @, %% chains, configured virtual users) through the real rewrite() after the real getcontrols(), "
            "0-2 SIGHUP rereads per configuration with new locals/virtualdomains, plus ~%d VERP sender/recipient pairs through "
            "senderadd(); (b) %d histories of the real qmail-send (deliveries on hold) with real qmail-queue/qmail-clean, messages "
            "of 1-150 recipients before start, while running and after a SIGHUP. Non-trivial = the model applied a rule other than "
            "'no rule matches -> remote' (default host, percent hack, locals, any virtualdomains entry) or expanded a VERP sender; "
            "distinct = distinct (configuration, stage, address)." % (ncfg, naddr, nverp, nhist))
    return core.finish(PROP, tier, "exploration", res, rule, t0, extra={"notes": notes} if notes else None, assumptions=[
        "reference model nqv/refmodel/rewrite_model.py written from qmail-send(8), addresses(5), qmail-control(5)",
        "control files never list one key twice (outside the property's domain)",
        "percent hack where the would-be fqdn contains '@' is not determined by the documents: executed, framing checked, result not compared",
        "SIGHUP stages change only locals and virtualdomains (the files the documents say are reread)",
        "record order / loss under crashes, faults and concurrent deliveries is judged by the queue engine (C02/C03), not here"])


def replay(path):
    with open(path) as f:
        w = json.load(f)
    print(json.dumps(w, indent=1)[:6000])
    os.environ["VERIF_SEED"] = str(w.get("seed", 1))
    print("re-running ./check C10 --tier %s with VERIF_SEED=%s (cases are addressed by case_index under that seed)" % (
        w.get("tier"), w.get("seed")))
    return main(w.get("tier", "quick"))
