"""C08 - SMTP transactions are well-sequenced; relaying is gated (DESIGN.md section 3, C08).

Monitor: the real qmail-smtpd binary (asan build) with QMAILQUEUE=qq-rec in a sandbox home whose
control directory is generated (rcpthosts, morercpthosts + morercpthosts.cdb compiled by the
scratch tree's own qmail-newmrh, badmailfrom, localiphost; databytes absent), RELAYCLIENT
unset / empty / set.  Oracle: refmodel/smtpd_model.py (written from qmail-smtpd(8),
qmail-control(5), RFC 5321/821): per-command reply class and, for every completed DATA, the exact
envelope handed to qq-rec.

Workload: (1) bounded-exhaustive: every command sequence of a fixed length over a small symbol
pool (all shorter sequences are its prefixes and are judged reply by reply), in two fixed
configurations; (2) random sessions in random configurations with address arguments generated
from the documented grammar.  The expected address of every generated argument is known by
construction *and* re-derived by the model's own RFC grammar parser; the two must agree or the
run is a harness failure, not a violation."""
import json
import os
import shutil
import socket
import subprocess
import time

from .. import core, build, hrun, sandbox, smtpdrive
from .. import shim as _shim
from ..refmodel import smtpd_model as M

PROP = "C08"
QQREC = _shim.tool("qq-rec")
BODY = b"Subject: c08\r\n\r\nbody\r\n.\r\n"
NONLOCAL_IP = b"10.9.8.7"


# ------------------------------------------------------------------ facts about this host

def probe_local_ips():
    """addresses this host owns (bind succeeds) among loopback and what `ip` lists; the
    documents say 'local IP address', which is a fact about the machine, not about the program"""
    cands = {b"127.0.0.1"}
    try:
        out = subprocess.run(["ip", "-4", "-o", "addr", "show", "up"], capture_output=True, timeout=10).stdout
        for line in out.splitlines():
            t = line.split()
            if b"inet" in t:
                cands.add(t[t.index(b"inet") + 1].split(b"/")[0])
    except Exception:
        pass
    local = []
    for ip in sorted(cands):
        s = socket.socket(socket.AF_INET, socket.SOCK_STREAM)
        try:
            s.bind((ip.decode(), 0))
            local.append(ip)
        except OSError:
            pass
        finally:
            s.close()
    s = socket.socket(socket.AF_INET, socket.SOCK_STREAM)
    try:
        s.bind((NONLOCAL_IP.decode(), 0))
        raise core.Inconclusive("%s is unexpectedly a local address" % NONLOCAL_IP.decode())
    except OSError:
        pass
    finally:
        s.close()
    if b"127.0.0.1" not in local:
        raise core.Inconclusive("loopback address is not up in this sandbox")
    return local


# ------------------------------------------------------------------ configuration generator

RH_POOL = [b"a.test", b".a.test", b"b.test", b".b.test", b".sub.b.test", b"me.test", b"OTHER.net", b"lip.test",
           b"[10.9.8.7]", b"Mixed.Case.Test", b"abcdefghijklm.nopqrstuvwxyz.test", b".Zulu-Yankee.Quiz.test"]
RH_NOISE = [b"# a comment", b"#a.test", b"", b"   "]
MRH_POOL = [b"more.test", b".more.test", b"MORE2.test", b".b.test", b"lip.test", b"me.test", b"JAZZ.BUZZ.test", b".fizz.test"]
BMF_POOL = [b"bad@a.test", b"@other.net", b"bad@B.Test", b"user@a.test", b"@LIP.test", b"spam", b"@[10.9.8.7]",
            b"quo ted@a.test", b"@deep.more.test", b"quiz@jazz.buzz.test", b"@Fizz.Test", b"LIZ@a.test"]
DOMAINS = [b"a.test", b"sub.a.test", b"A.Test", b"xa.test", b"b.test", b"x.sub.b.test", b"X.B.TEST", b"other.net",
           b"OTHER.NET", b"more.test", b"deep.more.test", b"More2.Test", b"me.test", b"lip.test", b"LIP.Test",
           b"nowhere.example", b"test", b"mixed.case.test", b"a.test.example", b"[10.9.8.7]",
           # every letter of the alphabet takes part in a case-insensitive match somewhere
           b"ABCDEFGHIJKLM.NOPQRSTUVWXYZ.TEST", b"AbCdEfGhIjKlM.nOpQrStUvWxYz.test", b"x.zulu-yankee.quiz.test", b"X.ZULU-YANKEE.QUIZ.TEST",
           b"jazz.buzz.test", b"Jazz.Buzz.Test", b"FIZZ.test", b"y.fizz.TEST"]
LOCALS_PLAIN = [b"user", b"User.Name", b"bad", b"spam", b"postmaster", b"x", b"a-b_c", b"u+tag", b"j=k", b"o'neil", b"quiz", b"QUIZ", b"liz", b"Liz"]
LOCALS_SPECIAL = [b"quo ted", b"a@b", b'a"b', b"back\\slash", b"gt>x", b"co:lon", b"semi;x", b"<lt", b"c,d", b"(paren)",
                  b"@lead", b"trail@", b"two  sp", b".dot", b"dot.", b"a..b", b'"', b"\\"]


def with_noise(rng, entries, comments=True):
    out = []
    for e in entries:
        if rng.random() < 0.2:
            e = e + rng.choice([b" ", b"\t", b"  \t "])
        out.append(e)
        if comments and rng.random() < 0.2:
            out.append(rng.choice(RH_NOISE))
    return out


def gen_config(rng, local_ips):
    rh = mrh = bmf = lip = relay = None
    r = rng.random()
    if r < 0.80:
        rh = with_noise(rng, rng.sample(RH_POOL, rng.randint(1, 4)))
    elif r < 0.85:
        rh = [b"# nothing is allowed"]
    if rng.random() < 0.5:
        mrh = with_noise(rng, rng.sample(MRH_POOL, rng.randint(1, 3)), comments=False)
    if rng.random() < 0.5:
        bmf = with_noise(rng, rng.sample(BMF_POOL, rng.randint(1, 3)))
    if rng.random() < 0.5:
        lip = rng.choice([b"lip.test", b"a.test", b"nowhere.example"])
    r = rng.random()
    if r < 0.15:
        relay = b""
    elif r < 0.32:
        relay = b"@relay.test"
    elif r < 0.40:
        relay = b".rly"
    return M.Config(b"me.test", rh, mrh, bmf, lip, relay, local_ips=local_ips)


def install_config(b, home, cfg):
    cdir = os.path.join(home, "control")
    for n in os.listdir(cdir):
        os.unlink(os.path.join(cdir, n))
    sandbox.write_control(home, "me", cfg.me)
    for name, val in (("rcpthosts", cfg.rcpthosts), ("morercpthosts", cfg.morercpthosts),
                      ("badmailfrom", cfg.badmailfrom)):
        if val is not None:
            sandbox.write_control(home, name, list(val))
    if cfg.localiphost is not None:
        sandbox.write_control(home, "localiphost", cfg.localiphost)
    if cfg.morercpthosts is not None:
        rc, out, err = core.run_with_watchdog([b.path("qmail-newmrh")], 60, env=b.env(home))
        if rc != 0 or not os.path.exists(os.path.join(cdir, "morercpthosts.cdb")):
            if rc is not None and smtpdrive.sanitizer_hit(err, rc):
                return ("C20/sanitizer/qmail-newmrh/" + hrun.sanitizer_site(err.decode("latin1")), err)
            raise core.Inconclusive("qmail-newmrh failed rc=%s %r" % (rc, err[-300:]))
    return None


def smtpd_env(b, home, rec, cfg):
    e = {"QMAILQUEUE": QQREC, "NQV_REC": rec, "TCPREMOTEIP": "192.0.2.9", "TCPREMOTEHOST": "client.test",
         "TCPLOCALHOST": "me.test"}
    if cfg.relayclient is not None:
        e["RELAYCLIENT"] = cfg.relayclient.decode("latin1")
    return b.env(home, e)


# ------------------------------------------------------------------ command generator

def _plain(local):
    return (all(c in M._ATEXT or c == 0x2e for c in local) and local[:1] != b"." and local[-1:] != b"."
            and b".." not in local and len(local) > 0)


def encode_local(rng, local):
    """a wire spelling of a local part: Dot-string, RFC 821 backslash quoting, or Quoted-string"""
    plain = _plain(local)
    style = rng.choice(["dot", "esc", "quoted"]) if plain else rng.choice(["esc", "quoted"])
    if style == "dot":
        return local, "dot"
    out = bytearray()
    if style == "esc":
        for c in local:
            if not (c in M._ATEXT) or rng.random() < 0.15:
                out += b"\\"
            out.append(c)
        return bytes(out), "esc"
    out += b'"'
    for c in local:
        if c in b'"\\' or rng.random() < 0.1:
            out += b"\\"
        out.append(c)
    out += b'"'
    return bytes(out), "quoted"


def _flipcase(rng, b):
    r = rng.random()
    if r < 0.5:
        return b
    if r < 0.7:
        return b.upper()
    return bytes((c ^ 0x20) if (97 <= (c | 0x20) <= 122 and rng.random() < 0.4) else c for c in b)


def _listed_domain(rng, cfg):
    """a domain derived from the configured lists, so that accept decisions are frequent"""
    pool = [e.rstrip(b" \t") for e in (cfg.rcpthosts or []) + (cfg.morercpthosts or [])]
    pool = [e for e in pool if e and e[:1] != b"#"]
    if not pool:
        return None
    e = rng.choice(pool)
    if e[:1] == b".":
        r = rng.random()
        if r < 0.7:
            e = rng.choice([b"x", b"deep.y", b"X-1"]) + e
        elif r < 0.85:
            e = e[1:]                   # the bare name is NOT covered by the wildcard
        else:
            e = b"x" + e[1:]            # xname: not a dot-suffix
    elif e[:1] != b"[" and rng.random() < 0.15:
        e = rng.choice([b"x.", b"x"]) + e  # sub-domain / prefixed name of an exact entry: not listed
    return _flipcase(rng, e)


def _listed_sender(rng, cfg):
    pool = [e.rstrip(b" \t") for e in (cfg.badmailfrom or [])]
    pool = [e for e in pool if e and e[:1] != b"#"]
    if not pool:
        return None
    e = rng.choice(pool)
    at = e.rfind(b"@")
    if e[:1] == b"@":
        return rng.choice(LOCALS_PLAIN), _flipcase(rng, e[1:])
    if at < 0:
        return e, None
    return e[:at], _flipcase(rng, e[at + 1:])


def gen_address(rng, cfg, is_rcpt):
    """-> (semantic address, wire argument behind FROM:/TO:, tags)"""
    tags = []
    r = rng.random()
    if not is_rcpt and r < 0.10:       # the null reverse-path; RCPT TO:<> is not in the grammar
        tags.append("null-path")
        return b"", b"<>" + rng.choice([b"", b"", b" SIZE=0"]), tags
    r = rng.random()
    if r < 0.70:
        local = rng.choice(LOCALS_PLAIN)
    elif r < 0.91:
        local = rng.choice(LOCALS_SPECIAL)
        tags.append("special-local")
    elif r < 0.955:
        local = b"l" * rng.choice([600, 700, 780])
        tags.append("long-ok")
    else:
        local = b"L" * rng.choice([1150, 1300, 2500])
        tags.append("too-long")
    r = rng.random()
    domain = b""
    if r < 0.07:
        domain = None
        tags.append("no-at")
    elif r < 0.20 and len(local) < 100:
        ips = sorted(cfg.local_ips)
        ip = rng.choice(ips + [NONLOCAL_IP])
        if rng.random() < 0.08:
            ip = b"0.0.0.0"
        domain = b"[" + ip + b"]"
        tags.append("ip-literal")
    elif r < 0.65 and is_rcpt:
        domain = _listed_domain(rng, cfg) or rng.choice(DOMAINS)
    elif r < 0.45 and not is_rcpt:
        ls = _listed_sender(rng, cfg)
        if ls and len(local) < 100:
            local, domain = ls
            tags.append("sender-from-badmailfrom")
            if domain is None:
                tags.append("no-at")
        else:
            domain = rng.choice(DOMAINS)
    else:
        domain = rng.choice(DOMAINS)
    if domain is not None and len(local) > 100 and len(domain) > 15:
        domain = b"a.test"
    addr = local if domain is None else local + b"@" + domain
    form = rng.choice(["angle", "angle", "angle", "params", "space", "route", "bare"])
    if form == "bare" and not (_plain(local)):
        form = "angle"
    if form == "bare":
        tags.append("bracketless")
        wire = addr + rng.choice([b"", b"", b" SIZE=10"])
        if rng.random() < 0.3:
            wire = b" " + wire
        return addr, wire, tags
    enc, style = encode_local(rng, local)
    tags.append(style)
    path = enc if domain is None else enc + b"@" + domain
    if form == "route":
        tags.append("source-route")
        path = rng.choice([b"@relay.example:", b"@r1.example,@r2.example:", b"@a.test:", b"@[10.9.8.7]:"]) + path
    wire = b"<" + path + b">"
    if form == "params":
        tags.append("esmtp-params")
        wire += rng.choice([b" SIZE=100", b" BODY=8BITMIME", b" SIZE=1 BODY=7BIT", b" X-EXT"])
    if form == "space":
        tags.append("space-after-colon")
        wire = b" " + wire
    return addr, wire, tags


def _case(rng, word):
    r = rng.random()
    if r < 0.6:
        return word.upper()
    if r < 0.8:
        return word.lower()
    return bytes((c ^ 0x20) if (65 <= (c & ~0x20) <= 90 and rng.random() < 0.5) else c for c in word)


UNKNOWN = [b"XYZZY", b"EXPN list", b"MAILFROM:<x@a.test>", b"", b"RCPTTO:<x@a.test>", b"STARTTLS", b"AUTH PLAIN AGEAYg==",
           b"DATA.", b"TURN", b"SEND FROM:<x@a.test>", b".", b"BDAT 5 LAST"]
VERB_WEIGHTS = [("mail", 3.0), ("rcpt", 5.0), ("data", 3.0), ("rset", 1.0), ("helo", 0.6), ("ehlo", 0.6),
                ("noop", 0.5), ("vrfy", 0.3), ("help", 0.3), ("unknown", 0.7)]


class GenCmd:
    __slots__ = ("verb", "line", "eol", "addr", "tags", "parsed")

    def __init__(self, verb, line, eol, addr=None, tags=()):
        self.verb = verb
        self.line = line
        self.eol = eol
        self.addr = addr
        self.tags = list(tags)
        self.parsed = M.parse_line(line)
        # the model's own reading of the line must agree with what the generator built
        if (not self.parsed.in_grammar or self.parsed.verb != verb or
                (verb in ("mail", "rcpt") and self.parsed.addr != addr)):
            raise core.Inconclusive("generator/grammar disagreement on %r: built %s %r, parsed %r" % (
                line[:200], verb, None if addr is None else addr[:80], self.parsed._replace(
                    addr=None if self.parsed.addr is None else self.parsed.addr[:80])))

    @property
    def wire(self):
        return self.line + self.eol


def gen_command(rng, cfg, verb):
    eol = b"\n" if rng.random() < 0.2 else b"\r\n"
    if verb in ("mail", "rcpt"):
        addr, arg, tags = gen_address(rng, cfg, verb == "rcpt")
        line = _case(rng, verb.encode()) + b" " + _case(rng, b"from:" if verb == "mail" else b"to:") + arg
        return GenCmd(verb, line, eol, addr, tags)
    if verb in ("helo", "ehlo"):
        return GenCmd(verb, _case(rng, verb.encode()) + rng.choice([b" client.test", b" [192.0.2.9]", b" Client.Test"]), eol)
    if verb == "vrfy":
        return GenCmd(verb, _case(rng, b"vrfy") + b" postmaster", eol)
    if verb in ("noop", "help"):
        return GenCmd(verb, _case(rng, verb.encode()) + rng.choice([b"", b"", b" x"]), eol)
    if verb == "unknown":
        return GenCmd(verb, rng.choice(UNKNOWN), eol)
    return GenCmd(verb, _case(rng, verb.encode()), eol)


def gen_session(rng, cfg):
    """a command sequence: half the steps follow the productive MAIL-RCPT-DATA path so that deep
    states are reached, the other half are arbitrary verbs"""
    if rng.random() < 0.03:
        # one transaction with far more recipients than fit any fixed buffer (and a second MAIL halfway now and then)
        k = rng.choice([60, 150, 300])
        cmds = [gen_command(rng, cfg, "mail")] + [gen_command(rng, cfg, "rcpt") for _ in range(k)]
        if rng.random() < 0.3:
            cmds.insert(rng.randrange(1, len(cmds)), gen_command(rng, cfg, rng.choice(["mail", "rset", "helo"])))
        return cmds + [gen_command(rng, cfg, "data"), gen_command(rng, cfg, "quit")]
    n = rng.choice([3, 5, 8, 10, 12, 12, 16, 20])
    verbs = [v for v, _ in VERB_WEIGHTS]
    wts = [w for _, w in VERB_WEIGHTS]
    cmds = []
    st = 0
    for _ in range(n):
        if rng.random() < 0.5:
            verb = ("mail", "rcpt", rng.choice(["rcpt", "data", "data"]))[st]
        else:
            verb = rng.choices(verbs, wts)[0]
        if verb == "mail":
            st = 1
        elif verb == "rcpt":
            st = 2 if st else 0
        elif verb in ("data", "rset", "helo", "ehlo"):
            st = 0
        cmds.append(gen_command(rng, cfg, verb))
    if rng.random() < 0.85:
        cmds.append(gen_command(rng, cfg, "quit"))
    return cmds


# ------------------------------------------------------------------ one session against the real binary

def run_session(b, home, rec, cfg, cmds, groups, res, ident, attempt=0):
    """feed cmds (grouped writes; a group always ends at DATA), judge every reply with the model.
    Returns True if the session was judged (violations are recorded in res)."""
    smtpdrive.clear_dir(rec)
    seen = set()
    model = M.Model(cfg)
    s = smtpdrive.Session([home + "/bin/qmail-smtpd"], smtpd_env(b, home, rec, cfg), timeout=60)
    trace = []

    def wit(extra=None):
        w = {"case": ident, "config": {k: (None if v is None else ([core.hx(x) for x in v] if isinstance(v, list) else core.hx(v)))
                                       for k, v in cfg.describe().items()},
             "commands": [core.hx(c.wire[:160]) + (" ...(%d bytes)" % len(c.wire) if len(c.wire) > 160 else "") for c in cmds],
             "commands_hex": [c.wire.hex() if len(c.wire) <= 400 else c.wire[:100].hex() + "..." for c in cmds],
             "trace": trace[-30:], "stderr": core.hx(s.err[-400:])}
        if extra:
            w.update(extra)
        return w

    try:
        if not s.wait_replies(1) or s.replies[0][0] != 220:
            s.finish()
            if smtpdrive.sanitizer_hit(s.err, s.rc):
                res.violate("C20/sanitizer/qmail-smtpd/" + hrun.sanitizer_site(s.err.decode("latin1")),
                            "sanitizer report at start-up", wit())
                return True
            res.inconclusive.append("no 220 greeting: %r %r" % (s.out_all[:100], s.err[-200:]))
            return False
        nrep = 1
        pos = 0
        verdict = None
        for g in groups:
            grp = cmds[pos:pos + g]
            pos += g
            if not grp:
                break
            s.write(b"".join(c.wire for c in grp))
            s.wait_replies(nrep + len(grp))
            for c in grp:
                if nrep >= len(s.replies):
                    verdict = ("%s/no-reply(session-lost)" % c.verb, "no reply to %r" % c.line[:80])
                    break
                code, text = s.replies[nrep]
                nrep += 1
                cls = M.reply_class(code)
                exp = model.expected(c.parsed)
                trace.append("%s -> %d (model: %s)" % (core.hx(c.line[:70]), code, "|".join(sorted(set("%s:%s" % e for e in exp)))[:160]))
                _count(res, c, code, exp)
                mm = model.step(c.parsed, cls)
                if mm:
                    verdict = (mm.key(), str(mm))
                    break
                if c.verb == "data" and cls == "3":
                    s.write(BODY)
                    s.wait_replies(nrep + 1)
                    if nrep >= len(s.replies):
                        verdict = ("data/no-final-reply(session-lost)", "no reply after the message body")
                        break
                    code2, _ = s.replies[nrep]
                    nrep += 1
                    new = [r for r in smtpdrive.read_records(rec, seen)]
                    comp = [r for r in new if r.complete]
                    envs = model.envelopes()
                    if len(comp) > 1:
                        verdict = ("data/more-than-one-submission", "%d submissions for one DATA" % len(comp))
                        break
                    sender, rcpts = (comp[0].sender, comp[0].rcpts) if comp else (None, None)
                    rule = model.data_done(M.reply_class(code2), sender, rcpts)
                    trace.append("  body -> %d envelope F%s %s (model: %s)" % (
                        code2, core.hx(sender or b"-")[:60], [core.hx(x)[:60] for x in (rcpts or [])][:8],
                        [(core.hx(e[0])[:60], [core.hx(x)[:60] for x in e[1]][:8]) for e in envs][:2]))
                    res.counters.inc("envelopes_compared")
                    res.counters.inc("envelope_recipients_compared", len(rcpts or []))
                    if rule:
                        verdict = ("data/" + rule, "envelope handed to the queue: F%r %r; model: %r" % (
                            sender and sender[:100], rcpts and [x[:100] for x in rcpts][:10],
                            [(e[0][:100], [x[:100] for x in e[1]][:10]) for e in envs][:3]))
                        break
            if verdict or model.closed:
                break
        rc = s.finish()
    except smtpdrive.Timeout:
        if attempt == 0:
            return run_session(b, home, rec, cfg, cmds, groups, res, ident, attempt=1)
        res.inconclusive.append("C08 session %s: watchdog" % (ident,))
        return False
    res.evaluations += 1
    if smtpdrive.sanitizer_hit(s.err, rc):
        res.violate("C20/sanitizer/qmail-smtpd/" + hrun.sanitizer_site(s.err.decode("latin1")),
                    "sanitizer report or fatal signal in qmail-smtpd (rc=%s)" % rc, wit())
        return True
    if verdict:
        res.violate("C08/" + verdict[0], verdict[1], wit())
        return True
    if len(s.replies) > nrep:
        res.violate("C08/session/unsolicited-replies", "%d replies beyond the commands sent" % (len(s.replies) - nrep), wit())
        return True
    stray = [r for r in smtpdrive.read_records(rec, seen)]
    if stray:
        res.violate("C08/session/submission-without-data", "%d queue invocations not explained by a DATA command" % len(stray), wit())
        return True
    return True


def _count(res, c, code, exp):
    d = res.counters.setdefault("commands_by_verb", {})
    d[c.verb] = d.get(c.verb, 0) + 1
    d = res.counters.setdefault("reply_codes", {})
    d[str(code)] = d.get(str(code), 0) + 1
    res.counters.inc("commands")
    if c.verb in ("rcpt", "mail", "data"):
        d = res.counters.setdefault("decisions_by_model_reason", {})
        for w in set(w for _, w in exp):
            k = "%s:%s" % (c.verb, w)
            d[k] = d.get(k, 0) + 1
        if len(set(cl for cl, _ in exp)) > 1:
            res.counters.inc("steps_where_model_allowed_both_classes")
    d = res.counters.setdefault("argument_forms", {})
    for t in c.tags:
        d[t] = d.get(t, 0) + 1
    if c.eol == b"\n":
        res.counters.inc("lf_only_command_lines")


def make_groups(rng, cmds, mode):
    """sizes of the pipelined writes; a write never continues past DATA (RFC 2920)"""
    groups = []
    i = 0
    while i < len(cmds):
        want = 1 if mode == "lockstep" else rng.randint(1, 6) if mode == "groups" else len(cmds)
        g = 0
        while g < want and i + g < len(cmds):
            g += 1
            if cmds[i + g - 1].verb in ("data", "quit"):
                break
        groups.append(g)
        i += g
    return groups


# ------------------------------------------------------------------ workers

def new_home(b):
    home = build.mktemp("nqv-c08-")
    sandbox.make_home(b, home, controls={"me": "me.test"}, bins=("qmail-smtpd",), queue=False)
    rec = os.path.join(home, "rec")
    os.makedirs(rec)
    return home, rec


def random_worker(bdir, lo, hi, nsess, local_ips):
    """configurations lo..hi, nsess sessions each"""
    res = core.Result()
    b = build.Build("asan", bdir)
    home, rec = new_home(b)
    try:
        _random_configs(b, home, rec, lo, hi, nsess, local_ips, res)
    finally:
        shutil.rmtree(home, ignore_errors=True)   # pool workers do not run atexit handlers
    return res


def _random_configs(b, home, rec, lo, hi, nsess, local_ips, res):
    for ci in range(lo, hi):
        crng = core.case_rng(PROP, ci, "config")
        cfg = gen_config(crng, local_ips)
        bad = install_config(b, home, cfg)
        if bad:
            res.violate(bad[0], "sanitizer report in qmail-newmrh", {"stderr": core.hx(bad[1][-800:])})
            continue
        res.counters.inc("configurations")
        d = res.counters.setdefault("configurations_by_feature", {})
        for k, v in (("rcpthosts", cfg.rcpthosts), ("morercpthosts.cdb", cfg.morercpthosts), ("badmailfrom", cfg.badmailfrom),
                     ("localiphost", cfg.localiphost), ("RELAYCLIENT", cfg.relayclient)):
            if v is not None:
                d[k] = d.get(k, 0) + 1
        for si in range(nsess):
            rng = core.case_rng(PROP, "%d.%d" % (ci, si), "session")
            cmds = gen_session(rng, cfg)
            mode = rng.choice(["lockstep", "groups", "groups", "max"])
            groups = make_groups(rng, cmds, mode)
            before = res.counters.get("envelopes_compared", 0)
            dec0 = sum(res.counters.get("decisions_by_model_reason", {}).values())
            if res.counters.get("violations_raw", 0) >= 20 or len(res.inconclusive) >= 5:
                res.counters.inc("sessions_not_run_after_20_violations")
                continue
            if run_session(b, home, rec, cfg, cmds, groups, res, {"part": "random", "config": ci, "session": si}):
                res.counters.inc("sessions_" + mode)
                dec1 = sum(res.counters.get("decisions_by_model_reason", {}).values())
                if dec1 > dec0:
                    res.nontrivial(ci, [c.wire for c in cmds])
                if res.counters.get("envelopes_compared", 0) > before and len(res.samples) < 3:
                    res.sample({"RELAYCLIENT": None if cfg.relayclient is None else core.hx(cfg.relayclient),
                                "rcpthosts": None if cfg.rcpthosts is None else [core.hx(x) for x in cfg.rcpthosts],
                                "commands": [core.hx(c.wire[:80]) for c in cmds][:14]}, cap=3)
    return res


# bounded-exhaustive part: fixed configurations, fixed symbol pool
def ex_config(relay, local_ips):
    return M.Config(b"me.test", rcpthosts=[b"a.test", b".b.test"], morercpthosts=[b"more.test"],
                    badmailfrom=[b"bad@a.test"], localiphost=None, relayclient=relay, local_ips=local_ips)


EX_SMALL = [("helo", b"HELO client.test"), ("rset", b"RSET"), ("noop", b"NOOP"), ("unknown", b"XYZZY"),
            ("mail", b"MAIL FROM:<s@client.test>", b"s@client.test"), ("mail", b"MAIL FROM:<bad@a.test>", b"bad@a.test"),
            ("rcpt", b"RCPT TO:<u@a.test>", b"u@a.test"), ("rcpt", b"RCPT TO:<v@x.b.test>", b"v@x.b.test"),
            ("rcpt", b"RCPT TO:<w@other.net>", b"w@other.net"), ("data", b"DATA")]
EX_FULL = EX_SMALL + [("ehlo", b"EHLO client.test"), ("vrfy", b"VRFY u"), ("help", b"HELP"), ("quit", b"QUIT"),
                      ("mail", b"MAIL FROM:<>", b""), ("rcpt", b"RCPT TO:<t@more.test>", b"t@more.test")]


def ex_worker(bdir, which, relay, L, lo, hi, local_ips):
    res = core.Result()
    b = build.Build("asan", bdir)
    home, rec = new_home(b)
    try:
        cfg = ex_config(relay, local_ips)
        install_config(b, home, cfg)
        syms = EX_SMALL if which == "small" else EX_FULL
        k = len(syms)
        for idx in range(lo, hi):
            x = idx
            cmds = []
            for _ in range(L):
                sy = syms[x % k]
                x //= k
                cmds.append(GenCmd(sy[0], sy[1], b"\r\n", sy[2] if len(sy) > 2 else None))
            groups = make_groups(None, cmds, "max")
            if res.counters.get("violations_raw", 0) >= 20 or len(res.inconclusive) >= 5:
                res.counters.inc("sessions_not_run_after_20_violations", hi - idx)
                break
            if run_session(b, home, rec, cfg, cmds, groups, res,
                           {"part": "exhaustive", "pool": which, "relay": None if relay is None else relay.decode(),
                            "L": L, "index": idx}):
                res.counters.inc("exhaustive_sequences")
                res.nontrivial(which, relay, L, idx)
    finally:
        shutil.rmtree(home, ignore_errors=True)   # pool workers do not run atexit handlers
    return res


# ------------------------------------------------------------------ the length limit and the local-IP substitution

def length_worker(bdir, local_ips, variants):
    """The documents give no number for the address length limit, so the model tolerates a band; what the statement
    does fix is that local IP-literal domains are replaced *before* the acceptance checks.  Measured here: the largest
    accepted length of plain recipients (the daemon's own limit T) and the largest accepted length-after-substitution of
    recipients written with a local IP literal.  They must be the same number, replies must be monotone in the length,
    and T must lie inside the model's band."""
    res = core.Result()
    b = build.Build("asan", bdir)
    home, rec = new_home(b)
    lit_ip = b"127.0.0.1" if b"127.0.0.1" in local_ips else (sorted(local_ips)[0] if local_ips else None)
    try:
        for lih, relay in variants:
            if lit_ip is None:
                res.inconclusive.append("no local IP address known: the substitution cannot be exercised")
                break
            sub_host = lih if lih is not None else b"me.test"
            cfg = M.Config(b"me.test", rcpthosts=[b"a.test", sub_host], morercpthosts=None, badmailfrom=None, localiphost=lih,
                           relayclient=relay, local_ips=local_ips)
            install_config(b, home, cfg)
            lengths = list(range(M.LEN_MUST_ACCEPT - 2, M.LEN_MUST_REJECT + 3, 23)) + list(range(880, 915))
            lengths = sorted(set(lengths))
            plain = [(n, b"p" * (n - 7) + b"@a.test") for n in lengths]
            lit = [(n, b"q" * (n - 1 - len(sub_host)) + b"@[" + lit_ip + b"]") for n in lengths if n - 1 - len(sub_host) > 0]
            wire = b"MAIL FROM:<s@client.test>\r\n" + b"".join(b"RCPT TO:<" + a + b">\r\n" for _, a in plain + lit) + b"QUIT\r\n"
            sess = smtpdrive.Session([home + "/bin/qmail-smtpd"], smtpd_env(b, home, rec, cfg), timeout=120)
            try:
                sess.write(wire)
                sess.finish()
            except smtpdrive.Timeout:
                sess.abort()
                res.inconclusive.append("length probe session timed out")
                continue
            if smtpdrive.sanitizer_hit(sess.err, sess.rc):
                res.violate("C20/sanitizer/qmail-smtpd/" + hrun.sanitizer_site(sess.err.decode("latin1")), "sanitizer report in the length probe",
                            {"stderr": core.hx(sess.err[-1500:])})
                continue
            codes = [r[0] for r in sess.replies]
            need = 2 + len(plain) + len(lit) + 1
            if len(codes) != need or codes[0] != 220 or codes[1] != 250:
                res.inconclusive.append("length probe: %d replies for %d units (%r...)" % (len(codes), need, codes[:4]))
                continue
            res.evaluations += len(plain) + len(lit)
            got_p = dict(zip([n for n, _ in plain], codes[2:2 + len(plain)]))
            got_l = dict(zip([n for n, _ in lit], codes[2 + len(plain):2 + len(plain) + len(lit)]))
            wit = {"localiphost": None if lih is None else core.hx(lih), "RELAYCLIENT": None if relay is None else core.hx(relay),
                   "literal": core.hx(lit_ip), "plain_replies": {str(k): v for k, v in got_p.items() if 870 < k < 930},
                   "literal_replies_by_length_after_substitution": {str(k): v for k, v in got_l.items() if 870 < k < 930}}

            def threshold(got, what):
                acc = [n for n, c in got.items() if c == 250]
                ref = [n for n, c in got.items() if c != 250]
                if any(c is None or not (500 <= c < 600) for n, c in got.items() if c != 250):
                    res.violate("C08/length/refusal-not-permanent/" + what, "an over-long address was not refused with 5xx", wit)
                if acc and ref and max(acc) > min(ref):
                    res.violate("C08/length/not-monotone/" + what, "length %d accepted but %d refused" % (max(acc), min(ref)), wit)
                return max(acc) if acc else None
            tp = threshold(got_p, "plain")
            tl = threshold(got_l, "local-ip-literal")
            res.counters.setdefault("length_limit_observed", {})
            res.counters["length_limit_observed"]["%s/%s" % (tp, tl)] = res.counters["length_limit_observed"].get("%s/%s" % (tp, tl), 0) + 1
            if tp is None or not (M.LEN_MUST_ACCEPT <= tp < M.LEN_MUST_REJECT):
                res.violate("C08/length/limit-outside-band", "largest accepted plain recipient has %s bytes" % tp, wit)
            if tp is not None and tl != tp:
                res.violate("C08/length/limit-not-applied-after-local-ip-substitution",
                            "plain recipients are accepted up to %s bytes, recipients with a local IP literal up to %s bytes after the "
                            "substitution of %r" % (tp, tl, sub_host), wit)
            res.nontrivial("length", lih, relay)
    finally:
        shutil.rmtree(home, ignore_errors=True)
    return res


# ------------------------------------------------------------------ main

def plan(tier):
    """[(pool, relay, L)] of the bounded-exhaustive part, random configs, sessions per config"""
    if tier == "quick":
        ex = [("small", None, 4), ("small", b"@relay.test", 4), ("full", None, 3)]
        return ex, core.scaled(500), 10
    ex = [("small", None, 5), ("small", b"@relay.test", 5), ("small", b"", 4), ("full", None, 4), ("full", b"@relay.test", 4)]
    return ex, core.scaled(6000), 16


def main(tier):
    t0 = time.time()
    if not os.path.exists(QQREC):
        raise core.Inconclusive("bin/qq-rec missing: run the MANIFEST setup_cmd")
    local_ips = probe_local_ips()
    b = build.vbuild("asan")
    ex, nconf, nsess = plan(tier)
    jobs = []
    nseq = 0
    for which, relay, L in ex:
        n = len(EX_SMALL if which == "small" else EX_FULL) ** L
        nseq += n
        for lo, hi in core.chunks(n, max(1, min(core.JOBS * 4, n // 200))):
            jobs.append((ex_worker, (b.dir, which, relay, L, lo, hi, local_ips)))
    for lo, hi in core.chunks(nconf, core.JOBS * 4):
        jobs.append((random_worker, (b.dir, lo, hi, nsess, local_ips)))
    lvars = [(None, None), (b"lip.test", None), (b"a-rather-long-name-for-this-host.lip.example", None),
             (b"x" * 60 + b".lip.example", b"@relay.test"), (b"l.t", None), (b"lip.test", b"")]
    for k in range(0, len(lvars), 2):
        jobs.append((length_worker, (b.dir, local_ips, lvars[k:k + 2])))
    res = core.pmap(_dispatch, jobs, timeout=7200)
    rule = ("(3) the daemon's own address length limit measured with plain recipients and with recipients written with a local IP "
            "literal (length after substitution of localiphost/me; 6 configurations, every length 880..914 and a coarse grid over the "
            "model's band): same limit, monotone, permanent refusals. "
            "real qmail-smtpd (asan) + qq-rec. (1) bounded-exhaustive: every sequence of exactly L commands "
            "(shorter ones are prefixes, judged reply by reply) over a %d-symbol pool {HELO,RSET,NOOP,unknown,MAIL good/bad-sender,"
            "RCPT exact/wildcard/denied,DATA} and a %d-symbol pool (+EHLO,VRFY,HELP,QUIT,MAIL <>,RCPT via morercpthosts.cdb): %s = %d sequences; "
            "(2) %d random configurations (rcpthosts w/ comments+trailing blanks, morercpthosts.cdb by the tree's qmail-newmrh, "
            "badmailfrom, localiphost, RELAYCLIENT unset/empty/set) x %d random sessions of 3..20 commands, arguments from the RFC "
            "grammar (dot-string, RFC 821 backslash quoting, quoted-string, source routes, bracketless, space after colon, ESMTP "
            "parameters, null path, IP literals local/non-local, 600-780 and 1150-2500 byte addresses, mixed-case verbs, LF-only "
            "line ends, pipelined groups ending at DATA). Non-trivial = session in which the model made at least one "
            "MAIL/RCPT/DATA decision; distinct = distinct (configuration, wire) pairs."
            % (len(EX_SMALL), len(EX_FULL), ", ".join("%s/%s/L=%d" % (w, "unset" if r is None else "RELAYCLIENT=%r" % r.decode(), L)
                                                      for w, r, L in ex), nseq, nconf, nsess))
    extra = {"exhaustive": True, "exhaustive_scope": "command sequences: " + "; ".join(
        "pool=%s RELAYCLIENT=%s length<=%d" % (w, "unset" if r is None else repr(r.decode()), L) for w, r, L in ex),
        "local_ip_addresses_of_this_host": [x.decode() for x in local_ips]}
    return core.finish(PROP, tier, "exploration", res, rule, t0, extra=extra, assumptions=[
        "reference model nqv/refmodel/smtpd_model.py written from qmail-smtpd(8), qmail-control(5), RFC 5321/821; only reply "
        "classes (2xx / 3xx / 4xx-or-5xx) are compared, plus the exact envelope of every completed DATA",
        "freedoms the documents leave (model accepts either): address length between 801 and 1099 bytes (not generated); a refused "
        "MAIL may or may not discard an open transaction; badmailfrom local parts differing only in case; localiphost rewriting of "
        "*sender* addresses and of 0.0.0.0; VRFY/HELP positive or negative; MAIL/RCPT with ESMTP parameters may also be refused",
        "generated arguments stay inside the grammar parse_line() accepts (checked for every command: generator and parser must agree)",
        "local IP addresses = addresses of this host on which bind() succeeds"])


def _dispatch(fn, args):
    return fn(*args)


def replay(path):
    with open(path) as f:
        w = json.load(f)
    if "seed" in w:
        os.environ["VERIF_SEED"] = str(w["seed"])
    print("replaying %s key=%s" % (path, w.get("key")))
    local_ips = probe_local_ips()
    b = build.vbuild("asan")
    res = core.Result()
    for c in w.get("cases", [])[:3]:
        ident = (c.get("witness") or {}).get("case") or {}
        if ident.get("part") == "exhaustive":
            relay = ident.get("relay")
            res.merge(ex_worker(b.dir, ident["pool"], None if relay is None else relay.encode(), ident["L"],
                                ident["index"], ident["index"] + 1, local_ips))
        elif ident.get("part") == "random":
            home, rec = new_home(b)
            ci, si = ident["config"], ident["session"]
            cfg = gen_config(core.case_rng(PROP, ci, "config"), local_ips)
            install_config(b, home, cfg)
            rng = core.case_rng(PROP, "%d.%d" % (ci, si), "session")
            cmds = gen_session(rng, cfg)
            mode = rng.choice(["lockstep", "groups", "groups", "max"])
            run_session(b, home, rec, cfg, cmds, make_groups(rng, cmds, mode), res, ident)
    for v in res.violations:
        print("REPRODUCED key=%s why=%s" % (v["key"], v["why"]))
        print(json.dumps(v["witness"], indent=1, default=core._json_default)[:4000])
    if not res.violations:
        print("not reproduced on this tree (%d inconclusive)" % len(res.inconclusive))
    return 1 if res.violations else (2 if res.inconclusive else 0)
