"""C01 - queue acceptance is all-or-nothing and durable (DESIGN.md section 3, C01).
Real qmail-queue under the LD_PRELOAD shim: reference run, crash sweep (SIGKILL before every
mutating libc call) x three disk variants, single-fault sweep over every call site, ordering
assertions over the event log, envelope-grammar oracle."""
import os
import signal
import re
import shutil
import time

from .. import core, build, sandbox, shim

PROP = "C01"
SPLIT = 23
RECV_RE = re.compile(rb"^Received: \(qmail (\d+) invoked (by alias|from network|for bounce|by uid (\d+))\); "
                     rb"\d{1,2} [A-Z][a-z]{2} \d{4} \d{2}:\d{2}:\d{2} -0000\n")
OSSIFIED = 129600


# ---------------------------------------------------------------- envelope grammar model
def model_envelope(env):
    """-> (exit_code or set of allowed codes, sender, [recipients]) from the documented grammar
    F<sender>\\0 (T<rcpt>\\0)* \\0 ; address > 1000 bytes is refused (qmail-limits), the code's
    limit is 1002: 1001/1002 may go either way."""
    i = 0
    n = len(env)
    recs = []

    def addr(i):
        j = env.find(b"\0", i)
        if j < 0:
            # EOF inside the address: too long wins if enough bytes were supplied
            return ("eof", n - i, None)
        return ("ok", j - i, j + 1)
    if n == 0:
        return ({54}, None, None)
    if env[0:1] != b"F":
        return ({91}, None, None)
    kind, ln, nxt = addr(1)
    if kind == "eof":
        return ({11} if ln >= 1003 else {54}, None, None)
    if ln >= 1003:
        return ({11}, None, None)
    soft = 1001 <= ln <= 1002
    sender = env[1:1 + ln]
    i = nxt
    while True:
        if i >= n:
            return ({54} | ({11} if soft else set()), None, None)
        if env[i] == 0:
            return ({0} | ({11} if soft else set()), sender, recs)
        if env[i:i + 1] != b"T":
            return ({91} | ({11} if soft else set()), None, None)
        kind, ln, nxt = addr(i + 1)
        if kind == "eof":
            return (({11} if ln >= 1003 else {54}) | ({11} if soft else set()), None, None)
        if ln >= 1003:
            return ({11}, None, None)
        if 1001 <= ln <= 1002:
            soft = True
        recs.append(env[i + 1:i + 1 + ln])
        i = nxt


# ---------------------------------------------------------------- running one execution
class Runner:
    def __init__(self, bdir, variant="asan"):
        self.b = build.Build(variant, bdir)
        self.home = build.mktemp("nqv-c01-")
        sandbox.make_home(self.b, self.home, bins=("qmail-queue",))
        for r, ds, fs in os.walk(self.home + "/queue"):
            os.chmod(r, 0o777)
        os.chmod(self.home, 0o755)
        self.clock = shim.Clock(self.home + "/clock")
        self.log = self.home + "/log"

    def clean(self):
        q = self.home + "/queue"
        for d in ("pid", "intd", "todo", "bounce"):
            for f in os.listdir(os.path.join(q, d)):
                os.unlink(os.path.join(q, d, f))
        for d in ("mess", "info", "local", "remote"):
            for s in os.listdir(os.path.join(q, d)):
                for f in os.listdir(os.path.join(q, d, s)):
                    os.unlink(os.path.join(q, d, s, f))

    def run(self, msg, env, uid, plan=None, count="m", readchunk=None):
        self.clean()
        with open(self.log, "wb"):
            pass
        os.chmod(self.log, 0o666)
        e = shim.env(clock=self.clock, log=self.log, trace="mrao", plan=plan, count=count,
                     readchunk=readchunk, datacap=16)
        st = sandbox.inject(self.b, self.home, msg, env, env_extra=e, as_uid=uid)
        evs = shim.read_log(self.log)
        return st, evs

    def tree(self):
        q = self.home + "/queue"
        t = {"mess": {}, "intd": {}, "todo": {}, "pid": [], "other": []}
        for f in os.listdir(q + "/pid"):
            t["pid"].append(f)
        for d in ("intd", "todo"):
            for f in os.listdir(os.path.join(q, d)):
                p = os.path.join(q, d, f)
                with open(p, "rb") as fh:
                    t[d][f] = (os.stat(p).st_ino, fh.read())
        for s in os.listdir(q + "/mess"):
            for f in os.listdir(os.path.join(q, "mess", s)):
                p = os.path.join(q, "mess", s, f)
                with open(p, "rb") as fh:
                    t["mess"][f] = (os.stat(p).st_ino, fh.read(), s)
        for d in ("info", "local", "remote"):
            for s in os.listdir(os.path.join(q, d)):
                for f in os.listdir(os.path.join(q, d, s)):
                    t["other"].append("%s/%s/%s" % (d, s, f))
        for f in os.listdir(q + "/bounce"):
            t["other"].append("bounce/" + f)
        return t


def status_str(st):
    if os.WIFSIGNALED(st):
        return "sig%d" % os.WTERMSIG(st)
    return "exit%d" % os.WEXITSTATUS(st)


def wording(uid):
    if uid == sandbox.uid("a"):
        return b"by alias"
    if uid == sandbox.uid("d"):
        return b"from network"
    if uid == sandbox.uid("s"):
        return b"for bounce"
    return b"by uid %d" % uid


def judge(res, tree, dm, msg, sender, recs, uid, st, site, wit, rng):
    """invariants on the tree left behind, under every disk variant"""
    exited0 = os.WIFEXITED(st) and os.WEXITSTATUS(st) == 0
    nums = set(tree["mess"]) | set(tree["intd"]) | set(tree["todo"])
    if tree["other"]:
        res.violate("C01/foreign-files/" + site, "qmail-queue left files outside mess/intd/todo/pid: %r" % tree["other"][:3], wit)
    # leftover pattern per number
    for n in nums:
        pat = "".join(c if n in tree[k] else "-" for c, k in (("M", "mess"), ("I", "intd"), ("T", "todo")))
        res.counters.setdefault("leftover_patterns", {})
        res.counters["leftover_patterns"][pat] = res.counters["leftover_patterns"].get(pat, 0) + 1
        if pat not in ("M--", "MI-", "MIT"):
            res.violate("C01/undocumented-leftover/%s/%s" % (pat, site), "files of message %s are in pattern %s (not S2/S3/S4)" % (n, pat), wit)
        if n in tree["mess"]:
            ino, content, sub = tree["mess"][n]
            if str(ino) != n or int(n) % SPLIT != int(sub):
                res.violate("C01/name-not-inode/" + site, "mess/%s/%s has inode %d" % (sub, n, ino), wit)
    if len(tree["todo"]) > 1:
        res.violate("C01/two-todo/" + site, "one run produced %d todo entries" % len(tree["todo"]), wit)
    visible = False
    for variant in ("keep-all", "lose-all-unsynced", "lose-suffix"):
        for n, (tino, tcontent) in tree["todo"].items():
            visible = True
            tview = dm.view(tino, tcontent, variant, rng)
            ok_env = False
            m = re.match(rb"^u(\d+)\0p(\d+)\0", tview)
            if m and sender is not None:
                want = b"F" + sender + b"\0" + b"".join(b"T" + r + b"\0" for r in recs)
                ok_env = tview[m.end():] == want and int(m.group(1)) == uid
            if not ok_env:
                res.violate("C01/visible-envelope-incomplete/%s/%s" % (variant, site),
                            "todo/%s is visible to the daemon but its envelope is not the complete valid one" % n,
                            dict(wit, todo=core.hx(tview[:200])))
                continue
            if n not in tree["mess"]:
                continue
            mino, mcontent, _ = tree["mess"][n]
            mview = dm.view(mino, mcontent, variant, rng)
            r = RECV_RE.match(mview)
            if not r:
                res.violate("C01/visible-message-incomplete/%s/%s" % (variant, site),
                            "todo/%s visible but mess has no well-formed Received line" % n, dict(wit, mess=core.hx(mview[:120])))
                continue
            if r.group(2) != wording(uid) or r.group(1) != m.group(2):
                res.violate("C01/received-line-wrong/" + site, "Received line %r for uid %d pid %s" % (r.group(0), uid, m.group(2)), wit)
            if mview[r.end():] != msg:
                res.violate("C01/visible-message-incomplete/%s/%s" % (variant, site),
                            "todo/%s visible but mess is not Received + exactly the supplied bytes (%d vs %d bytes)" % (
                                n, len(mview) - r.end(), len(msg)), wit)
    if exited0 and not tree["todo"]:
        res.violate("C01/success-without-entry/" + site, "exit 0 but no todo entry", wit)
    return visible


def handoff(res, R, sender, recs, site, wit):
    """(6) give the tree qmail-queue left behind to the real qmail-send: what it preprocesses must be exactly the
    supplied envelope (sender in info/N, one record per recipient in order over local/N and remote/N)"""
    from .. import qsim
    todo = os.listdir(R.home + "/queue/todo")
    if len(todo) != 1 or sender is None or not recs:
        return          # a message without recipients is finished at once; nothing to compare
    n = todo[0]
    sim = qsim.Sim(R.b, home=R.home, reuse_home=True, gate_m=False, controls={"me": "local.test", "locals": ["local.test"],
                                                                            "concurrencylocal": 0, "concurrencyremote": 0})
    try:
        sim.clock.set(R.clock.now())
        sim.start_daemons()
        sim.run_until_quiescent()
        sub = str(int(n) % SPLIT)
        got = []
        for d in ("local", "remote"):
            p = os.path.join(R.home, "queue", d, sub, n)
            if os.path.exists(p):
                for r in open(p, "rb").read().split(b"\0")[:-1]:
                    got.append(r[1:])
        ip = os.path.join(R.home, "queue", "info", sub, n)
        info = open(ip, "rb").read() if os.path.exists(ip) else None
        res.counters.inc("handed_to_qmail_send")
        want = [r if b"@" in r else r + b"@local.test" for r in recs]
        if info is None or os.path.exists(os.path.join(R.home, "queue/todo", n)):
            res.violate("C01/daemon-did-not-accept-visible-entry/" + site, "todo/%s was visible but qmail-send did not preprocess it; log %r" % (n, sim.dlog[-200:]), wit)
        elif info != b"F" + sender + b"\0":
            res.violate("C01/daemon-sees-other-sender/" + site, "info/%s holds %r, supplied sender %r" % (n, info[:80], sender[:80]), wit)
        elif sorted(got) != sorted(want):
            res.violate("C01/daemon-sees-other-recipients/" + site, "channel records %r, supplied recipients %r" % (got[:5], recs[:5]), wit)
    except (qsim.DaemonExit, core.Inconclusive) as e:
        res.inconclusive.append("hand-off to qmail-send: %s" % str(e)[:200])
    finally:
        sim.teardown()
        for f in ("gate", "evlog", "clock.sim"):
            try:
                os.unlink(os.path.join(R.home, f))
            except OSError:
                pass


def check_order(res, evs, site, wit):
    """ordering assertions over the event log of one run (independent of the sweeps)"""
    alarm = [e for e in evs if e["c"] == "alarm"]
    creat = [e for e in evs if e["c"] == "open" and e.get("creat") and e.get("ret", -1) >= 0]
    if creat:
        if not alarm or alarm[0]["q"] > creat[0]["q"]:
            res.violate("C01/alarm-after-create/" + site, "no alarm() before the first file creation", wit)
        elif not (0 < alarm[0].get("sec", 0) < OSSIFIED):
            res.violate("C01/alarm-not-below-36h/" + site, "alarm(%s)" % alarm[0].get("sec"), wit)
    link_todo = [e for e in evs if e["c"] == "link" and e.get("path2", "").startswith("queue/todo/") and e.get("ret") == 0]
    link_mess = [e for e in evs if e["c"] == "link" and e.get("path2", "").startswith("queue/mess/") and e.get("ret") == 0]
    writes = [e for e in evs if e["c"] == "write" and e.get("ret", 0) > 0 and "ino" in e]
    if writes and link_mess and writes[0]["q"] < link_mess[0]["q"]:
        res.violate("C01/write-before-mess-link/" + site, "message bytes written before the file has its final name", wit)
    if link_todo:
        lt = link_todo[0]["q"]
        by_ino = {}
        for e in writes:
            by_ino.setdefault(e["ino"], []).append(e["q"])
        for ino, qs in by_ino.items():
            fs = [e["q"] for e in evs if e["c"] in ("fsync", "fdatasync") and e.get("ino") == ino and e.get("ret") == 0]
            if max(qs) > lt:
                res.violate("C01/write-after-todo-link/" + site, "file data written after the entry became visible", wit)
            elif not fs or not any(max(qs) < f < lt for f in fs):
                res.violate("C01/no-fsync-between-last-write-and-todo-link/" + site,
                            "inode %s: last write seq %d, fsyncs %r, link todo seq %d" % (ino, max(qs), fs, lt), wit)
        res.counters.inc("ordering_assertions_checked")


# ---------------------------------------------------------------- expected outcome of one injected fault
def expect_fault(ev, action):
    """-> (allowed exit codes or None for 'as without fault', may_be_visible)"""
    c, path = ev["c"], ev.get("path", "")
    short = action.startswith("short")
    eintr = action == "fail=EINTR"
    if c == "read":
        return (None if (short or eintr) else {54})
    if c == "write":
        if "lock/trigger" in path:
            return "any"
        return None if short else {53}
    if c in ("fsync", "fdatasync"):
        return {53}
    if c == "open":
        if path.startswith("queue/pid/"):
            return None            # next sequence number is tried
        if path.startswith("queue/intd/"):
            return {65}
        if "lock/trigger" in path:
            return "any"
        return "any"
    if c == "link":
        p2 = ev.get("path2", "")
        if p2.startswith("queue/mess/"):
            return {64}
        if p2.startswith("queue/todo/"):
            return {66}
    if c == "unlink" and path.startswith("queue/pid/"):
        return {63}
    return "any"       # close, ftruncate, cleanup's own calls: only the universal invariants apply


FAULTS = {
    "write": ["fail=ENOSPC", "fail=EIO", "short=1", "short=7"],
    "read": ["fail=EIO", "fail=EINTR", "short=1"],
    "fsync": ["fail=EIO"],
    "open": ["fail=ENOSPC", "fail=EMFILE", "fail=EEXIST"],
    "openr": ["fail=EMFILE", "fail=EIO"],
    "link": ["fail=EEXIST", "fail=ENOSPC", "fail=EIO"],
    "unlink": ["fail=EIO"],
    "close": ["fail=EIO"],
    "ftruncate": ["fail=EIO"],
}


# ---------------------------------------------------------------- inputs
def gen_inputs(tier):
    """list of (label, msg, env, uid_letter, readchunk)"""
    sizes = [0, 1, 255, 256, 257, 1023, 1024, 1025, 2047, 2048, 2049, 4095, 4096, 65535, 65537]
    chunks = [None, 1, 7, 256, 2048]
    out = []
    valid3 = b"Fsender@a.test\0Tr1@b.test\0Tr2@c.test\0Tr3@d.test\0\0"
    k = 0
    for s in sizes:
        msg = bytes((i * 7 + s) % 251 for i in range(s))
        if s >= 255:
            msg = msg[:100] + b"\nFrom x\n\0\xff" + msg[110:]
        ch = chunks[k % len(chunks)]
        if ch == 1 and s > 5000:
            ch = 7
        out.append(("size%d" % s, msg, valid3 if k % 2 else b"F\0Tonly@x.test\0\0", "aods"[k % 4], ch))
        k += 1
    if tier == "thorough":
        # every size under every read chunking
        for s in sizes:
            if s > 5000:
                continue
            msg = bytes((i * 11 + s) % 253 for i in range(s))
            for ch in chunks:
                out.append(("size%d-chunk%s" % (s, ch), msg, valid3, "aods"[k % 4], ch))
                k += 1
    body = b"Subject: t\n\nhello\n"
    # envelope lengths straddling the buffers of qmail-queue (256-byte output buffer, 2048/1024-byte input buffers)
    for target in ((255, 256, 257, 2048, 2049) if tier == "quick" else
                   (255, 256, 257, 511, 512, 513, 1023, 1024, 1025, 2047, 2048, 2049, 4095, 4096, 4097, 8193)):
        env = b"Fs@x\0"
        i = 0
        while len(env) + 12 < target - 1:
            env += b"Tr%d@y\0" % i
            i += 1
        env += b"T" + b"p" * (target - 1 - len(env) - 2) + b"\0\0"
        assert len(env) == target, (len(env), target)
        out.append(("envlen%d" % target, body, env, "o", [None, 1, 256][target % 3] if target < 3000 else None))
    # recipients 0..5
    for n in range(0, 6):
        env = b"Fs@x\0" + b"".join(b"Tr%d@y\0" % i for i in range(n)) + b"\0"
        out.append(("rcpts%d" % n, body, env, "o", None))
    # address lengths around the limit, sender and recipient position
    for ln in (0, 1, 1000, 1001, 1002, 1003, 1004, 2500):
        a = (b"a" * ln)
        out.append(("senderlen%d" % ln, body, b"F" + a + b"\0Tr@y\0\0", "o", None))
        out.append(("rcptlen%d" % ln, body, b"Fs@x\0Tok@y\0T" + a + b"\0Tz@y\0\0", "o", 256 if ln % 2 else None))
    # every proper prefix (EOF anywhere) and every single-byte letter corruption of a valid envelope
    base = b"Fs@x\0Tr1@y\0Tr2@y\0\0"
    for i in range(len(base)):
        out.append(("prefix%d" % i, body, base[:i], "o", None))
    for i in (0, 5, 11):
        for c in (b"X", b"t", b"f", b"\xff", b" "):
            out.append(("letter%d_%02x" % (i, c[0]), body, base[:i] + c + base[i + 1:], "o", None))
    out.append(("trailing-garbage", body, base + b"Tignored@z\0junk", "o", None))
    out.append(("nul-8bit", body, b"F\xff\xfe@x\0T\x80\x01@y\0\0", "o", None))
    out.append(("empty-env", body, b"", "o", None))
    out.append(("no-final-nul", body, b"Fs@x\0Tr@y\0", "o", None))
    if tier == "thorough":
        for i in range(core.scaled(1200)):
            rng = core.case_rng(PROP, i, "in")
            n = rng.choice([0, 1, 2, 3, 5, 9])
            env = b"F" + bytes(rng.randrange(1, 256) for _ in range(rng.choice([0, 3, 20, 999, 1002]))) + b"\0"
            for _ in range(n):
                env += b"T" + bytes(rng.randrange(1, 256) for _ in range(rng.choice([1, 5, 40, 1000, 1002]))) + b"\0"
            env += b"\0"
            if rng.random() < 0.3:
                cut = rng.randrange(len(env))
                env = env[:cut]
            elif rng.random() < 0.2:
                j = rng.randrange(len(env))
                env = env[:j] + bytes([rng.randrange(256)]) + env[j + 1:]
            msg = bytes(rng.randrange(256) for _ in range(rng.choice([0, 10, 255, 256, 1024, 5000, 70000])))
            out.append(("rand%d" % i, msg, env, rng.choice("aods"), rng.choice([None, 1, 7, 256, 2048]) if len(msg) < 6000 else None))
    return out


UIDS = {"a": lambda: sandbox.uid("a"), "d": lambda: sandbox.uid("d"), "s": lambda: sandbox.uid("s"), "o": lambda: 65534}


def worker(bdir, tier, lo, hi, sweep_every):
    res = core.Result()
    R = Runner(bdir)
    inputs = gen_inputs(tier)
    for idx in range(lo, hi):
        label, msg, env, ul, rc = inputs[idx]
        uid = UIDS[ul]()
        rng = core.case_rng(PROP, idx, "v")
        allowed, sender, recs = model_envelope(env)
        wit0 = {"input": label, "msg_len": len(msg), "envelope": core.hx(env[:120]), "envelope_len": len(env), "uid": uid, "readchunk": rc}
        # (1) reference run
        st, evs = R.run(msg, env, uid, readchunk=rc)
        res.evaluations += 1
        if not any(e.get("c") == "alarm" for e in evs) or not any(e.get("c") == "open" for e in evs):
            # the instrumentation did not observe this run (shim not loaded, e.g. unreadable for this uid):
            # nothing can be decided from it
            res.inconclusive.append("input %s: no events from the shim (uid %d); is %s readable for that user?" % (label, uid, shim.SHIM))
            continue
        tree = R.tree()
        dm = shim.DiskModel()
        for e in evs:
            dm.feed(e)
        ss = status_str(st)
        res.counters.setdefault("exit_status_seen", {})
        res.counters["exit_status_seen"][ss] = res.counters["exit_status_seen"].get(ss, 0) + 1
        code = os.WEXITSTATUS(st) if os.WIFEXITED(st) else -1
        cls = "valid" if allowed == {0} else "malformed"
        if code not in allowed:
            res.violate("C01/exit-code/%s/expected-%s" % (cls, "-".join(str(x) for x in sorted(allowed))),
                        "exit status %s for envelope class %s (documented: %s)" % (ss, label, sorted(allowed)), wit0)
        judge(res, tree, dm, msg, sender, recs, uid, st, "no-fault", wit0, rng)
        if tree["todo"] and (tier == "thorough" or idx % 5 == 0) and sender is not None and all(32 < c < 127 for r in recs + [sender] for c in r) \
                and all(b"@" in r and not r.endswith(b"@") and b"%" not in r for r in recs):
            handoff(res, R, sender, recs, "no-fault", wit0)
        if code != 0 and tree["todo"]:
            res.violate("C01/failure-but-visible/no-fault", "exit %s but a todo entry exists" % ss, wit0)
        check_order(res, evs, "no-fault", wit0)
        res.nontrivial("ref", label)
        if idx % 9 == 0:
            res.sample({"input": label, "exit": ss, "calls": ["%s %s" % (e["c"], e.get("path2", e.get("path", ""))) for e in evs if e["c"] != "read"][:14]}, cap=3)
        mcalls = [e for e in evs if e["c"] not in ("read", "alarm", "sleep") and "n2" in e]
        # (2) crash sweep: SIGKILL before every mutating call (and the state after the last one was judged above)
        for e in mcalls:
            k = e["n2"]
            wit = dict(wit0, crash_before_call=k, call="%s %s" % (e["c"], e.get("path2", e.get("path", ""))))
            st2, evs2 = R.run(msg, env, uid, plan="qmail-queue:%d:kill" % k, readchunk=rc)
            res.evaluations += 1
            fired = any(x.get("inj") == "kill" for x in evs2)
            if not fired or not os.WIFSIGNALED(st2):
                res.inconclusive.append("crash point %d of %s did not fire (%s)" % (k, label, status_str(st2)))
                continue
            res.counters.inc("crash_points_fired")
            t2 = R.tree()
            dm2 = shim.DiskModel()
            for x in evs2:
                dm2.feed(x)
            site = "crash-before-%s" % (e["c"] + ("-" + e.get("path2", e.get("path", "")).split("/")[1] if "/" in e.get("path2", e.get("path", "")) else ""))
            judge(res, t2, dm2, msg, sender, recs, uid, st2, site, wit, rng)
            if t2["todo"] and (tier == "thorough" or idx % 5 == 0) and sender is not None and all(32 < c < 127 for r in recs + [sender] for c in r) \
                    and all(b"@" in r and not r.endswith(b"@") and b"%" not in r for r in recs):
                handoff(res, R, sender, recs, site, wit)
            res.nontrivial("crash", label, k)
        # (2b) "is killed": a catchable signal arriving just before every mutating call (TERM for every input; INT, HUP,
        # ALRM - the program's own 24 h suicide -, PIPE and QUIT on a subset).  Whatever the handler or the default action
        # does, the tree must be judged exactly like after a crash: fully queued, or not visible at all.
        sigs = [signal.SIGTERM] + ([signal.SIGINT, signal.SIGHUP, signal.SIGALRM, signal.SIGPIPE, signal.SIGQUIT] if (tier == "thorough" or idx % 4 == 0) else [])
        for e in mcalls:
            k = e["n2"]
            for sg in sigs:
                wit = dict(wit0, signal=int(sg), before_call=k, call="%s %s" % (e["c"], e.get("path2", e.get("path", ""))))
                st5, evs5 = R.run(msg, env, uid, plan="qmail-queue:%d:sig=%d" % (k, int(sg)), readchunk=rc)
                res.evaluations += 1
                if not any(x.get("inj") == "sig" for x in evs5):
                    res.inconclusive.append("signal %d before call %d of %s did not fire" % (int(sg), k, label))
                    continue
                res.counters.inc("signal_points_fired")
                ss5 = status_str(st5)
                d5 = res.counters.setdefault("outcome_after_signal", {})
                d5["%s:%s" % (sg.name, ss5)] = d5.get("%s:%s" % (sg.name, ss5), 0) + 1
                t5 = R.tree()
                dm5 = shim.DiskModel()
                for x in evs5:
                    dm5.feed(x)
                where = (e["c"] + ("-" + e.get("path2", e.get("path", "")).split("/")[1] if "/" in e.get("path2", e.get("path", "")) else ""))
                site = "signal-%s-before-%s" % (sg.name, where)
                judge(res, t5, dm5, msg, sender, recs, uid, st5, site, wit, rng)
                res.nontrivial("signal", label, k, int(sg))
        # (3) single-fault sweep over every call site (reads included) on a subset of inputs
        if idx % sweep_every == 0 or cls == "malformed" and idx % (sweep_every * 2) == 1:
            st3, evs3 = R.run(msg, env, uid, count="mro", readchunk=rc)
            calls = [e for e in evs3 if "n2" in e and e["c"] not in ("alarm", "sleep")]
            # thin out long runs of identical reads/writes: first, second, last of each (call, path) run
            pick = []
            runs = {}
            for e in calls:
                runs.setdefault((e["c"], e.get("path", ""), e.get("fd")), []).append(e)
            for r_ in runs.values():
                pick.extend(r_[:2] + ([r_[len(r_) // 2]] if len(r_) > 4 else []) + (r_[-1:] if len(r_) > 2 else []))
            for e in sorted(pick, key=lambda x: x["n2"]):
                for action in FAULTS.get(e["c"], []):
                    k = e["n2"]
                    st4, evs4 = R.run(msg, env, uid, plan="qmail-queue:%d:%s" % (k, action), count="mro", readchunk=rc)
                    res.evaluations += 1
                    inj = [x for x in evs4 if x.get("inj") in ("fail", "short")]
                    if not inj:
                        res.inconclusive.append("fault %s at call %d of %s did not fire" % (action, k, label))
                        continue
                    res.counters.setdefault("faults_fired_by_site", {})
                    sitek = "%s:%s" % (e["c"], (e.get("path2") or e.get("path") or "fd%s" % e.get("fd", "?")).split("/")[1] if "/" in (e.get("path2") or e.get("path") or "") else e["c"] + ":fd%s" % e.get("fd", "?"))
                    res.counters["faults_fired_by_site"][sitek + ":" + action] = res.counters["faults_fired_by_site"].get(sitek + ":" + action, 0) + 1
                    t4 = R.tree()
                    dm4 = shim.DiskModel()
                    for x in evs4:
                        dm4.feed(x)
                    wit = dict(wit0, fault=action, at_call=k, call="%s %s" % (e["c"], e.get("path2", e.get("path", "fd%s" % e.get("fd")))))
                    site = "fault-%s-%s" % (e["c"], action.split("=")[0])
                    judge(res, t4, dm4, msg, sender, recs, uid, st4, site, wit, rng)
                    code4 = os.WEXITSTATUS(st4) if os.WIFEXITED(st4) else -1
                    ss4 = status_str(st4)
                    res.counters["exit_status_seen"][ss4] = res.counters["exit_status_seen"].get(ss4, 0) + 1
                    if code4 != 0 and t4["todo"]:
                        # failure reported although fully queued is tolerated by the statement only if complete; judge() checked completeness
                        res.counters.inc("failure_reported_but_fully_queued")
                    if code4 == -1:
                        res.violate("C01/died-by-signal/" + site, "qmail-queue died (%s) on an injected %s" % (ss4, action), wit)
                        continue
                    # judge by the call the fault actually hit: the length of the Received line depends on the number of
                    # digits of the pid, so the n-th call of this run need not be the n-th call of the reference run
                    hit = inj[0]
                    if hit.get("c") != e["c"]:
                        res.counters.inc("fault_hit_other_call_than_reference")
                    exp = expect_fault(hit, action) if action in FAULTS.get(hit.get("c"), []) else "any"
                    wit["call"] = "%s %s" % (hit.get("c"), hit.get("path2", hit.get("path", "fd%s" % hit.get("fd"))))
                    if exp == "any":
                        pass
                    elif exp is None:
                        if code4 not in allowed:
                            res.violate("C01/exit-code-after-recoverable-fault/" + site,
                                        "a recoverable %s changed the outcome to %s (expected %s)" % (action, ss4, sorted(allowed)), wit)
                    else:
                        # the fault must be reported with its documented code unless the envelope was refused first
                        if code4 not in exp and not (code4 in allowed and code4 != 0):
                            res.violate("C01/exit-code-after-fault/%s/expected-%s" % (site, "-".join(map(str, sorted(exp)))),
                                        "injected %s at %s gave %s" % (action, wit["call"], ss4), wit)
                    res.nontrivial("fault", label, k, action)
    R.clock.close()
    return res


def main(tier):
    t0 = time.time()
    b = build.vbuild("asan")
    inputs = gen_inputs(tier)
    n = len(inputs)
    sweep_every = 3 if tier == "quick" else 1
    # interleave inputs over workers so that the big messages spread out
    parts = [(b.dir, tier, lo, hi, sweep_every) for lo, hi in core.chunks(n, 48)]
    res = core.pmap(worker, parts, timeout=3000)
    if not res.counters.get("crash_points_fired") or not res.counters.get("faults_fired_by_site"):
        res.inconclusive.append("no crash point or fault fired at all: the instrumentation is not active")
        res.distinct = set()
    rule = ("inputs = message sizes straddling the 256/1024/2048-byte buffers x read chunkings (shim-forced), 0..5 recipients, "
            "address lengths 0..1004, every proper prefix and letter corruption of a valid envelope, 4 caller uids; per input: "
            "reference run, SIGKILL before every mutating libc call (x 3 disk variants judged on the real tree + recorded "
            "write/fsync log), a catchable signal (TERM; INT/HUP/ALRM/PIPE/QUIT on every 4th input) before every mutating call, single injected fault per call site on every %dth input. Non-trivial = a crash point that fired, "
            "an injected fault that fired, or a reference run; distinct by (input, call index, action)." % sweep_every)
    return core.finish(PROP, tier, "fault_enumeration", res, rule, t0, assumptions=[
        "crash = SIGKILL before a libc call (LD_PRELOAD shim), i.e. crash points at call granularity",
        "disk model: directory operations synchronous, file data since the last fsync of that file may be lost (conf-qmail)",
        "faults are injected at the libc boundary, one per run"])


def replay(path):
    import json
    with open(path) as f:
        print(f.read()[:3000])
    return main("quick")
