"""C18, qmail-send part: arbitrary bytes on the report descriptors while deliveries are and are not in
flight.  Plugged into nqv/checks/c18.py as a further monitor."""
from .. import core, histrun


def mon_send_reports(tier, b):
    quick = tier == "quick"
    prof = {"raw_garbage": 0.3, "p_garbage": 0.15, "hold_reports": 0.4, "max_rcpts": 4, "conc": [1, 2, 5, 10], "spawn": [3, 120, 255],
            "p_term_restart": 0.02}
    res = histrun.run("C18", b, core.scaled(800 if quick else 8000), prof, ["NoLossOracle", "OnceOracle", "ReportFuzzOracle"], salt="rf")
    for v in res.violations:
        if not v["key"].startswith("C18/"):
            v["key"] = "C18/send/" + v["key"].replace("/", ":", 1)
    res.counters["send_report_histories"] = res.evaluations
    return res
