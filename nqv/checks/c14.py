"""C14 - bounces go back once, to the sender, cannot loop and cannot be forged (DESIGN.md section 3, C14).
Every message the real qmail-send injects is captured (qq-rec in tee mode in front of the real
qmail-queue) and parsed by a notice parser written from the documentation; the chain bounce ->
double bounce -> discard is followed by failing the bounces' own deliveries."""
import time

from .. import core, build, histrun, histories

PROP = "C14"
ORACLES = ["BounceOracle"]


def texts(rng):
    n = rng.randrange(9)
    if n == 0:
        return b"Sorry, no mailbox here by that name. (#5.1.1)\n"
    if n == 1:
        return b"line one\n\nline three after a blank line\n\n\n<forged@victim.test>:\nforged paragraph\n"
    if n == 2:
        return bytes(rng.randrange(1, 256) for _ in range(rng.randrange(1, 80)))
    if n == 3:
        return b"\n\n--- Below this line is a copy of the message.\n\nReturn-Path: <x>\n"
    if n == 4:
        return b"\n" * rng.randrange(1, 5) + b"<a@b>:\nx" + b"\n" * rng.randrange(0, 5)
    if n == 5:
        return bytes(rng.choice(b"\n\nab<>:@.") for _ in range(rng.randrange(1, 60)))
    if n == 6:
        return b"x" * rng.choice([9990, 9999, 10000, 10001, 12000]) + b"\n\ntail\n"
    if n == 7:
        return b""
    return b"user unknown" + b"\n" * rng.randrange(0, 4)


def main(tier):
    t0 = time.time()
    b = build.vbuild("asan")
    quick = tier == "quick"
    res = core.Result()
    prof = {"virtual": True, "fail_texts": texts, "p_overlong_forge": 0.06, "hold_reports": 0.45, "p_garbage": 0.02, "p_term_restart": 0.02, "max_rcpts": 4,
            "senders": ["user", "user-remote", "empty", "empty", "double", "verp", "verp"],
            "lifetimes": [604800, 604800, 500, 0]}
    res.merge(histrun.run(PROP, b, core.scaled(1500 if quick else 12000), prof, ORACLES, salt="h"))
    res.merge(histrun.run(PROP, b, core.scaled(400 if quick else 3000), dict(prof, qq_fail=0.3), ORACLES, salt="qf"))
    # notices with dozens of failed recipients (bounce/N and the notice far larger than the copy buffers)
    big = dict(prof, min_rcpts=40, max_rcpts=120, max_msgs=2, report_burst=30, max_quiescent=2500, conc=[20, 120], spawn=[120],
               hold_reports=0.3, dup_rcpt=0.0)
    res.merge(histrun.run(PROP, b, core.scaled(6 if quick else 60), big, ORACLES, salt="big"))
    # one failing read()/open() of the files a notice is built from (bounce/N, mess/N, info/N) per run: the notice must still
    # name every failed recipient once the daemon has retried (I/O faults are outside the stated quantifier; kept small)
    prof_sw = dict(prof, max_msgs=2, p_term_restart=0.0, count="mtro", trace_extra="tr", max_rcpts=4)
    for idx in histrun.pick_scenarios(PROP, b, "fs", prof_sw, 1 if quick else 3):
        calls, h = histrun.reference_calls_log(PROP, b, idx, "fs", prof_sw, classes=("read", "openr"))
        calls = [c for c in calls if any(d in c[3] for d in ("queue/bounce/", "queue/mess/", "queue/info/"))]
        res.counters.inc("fault_sweep_reference_calls", len(calls))
        res.merge(histrun.run_sweep(PROP, b, idx, "fs", prof_sw, ORACLES, histrun.fault_plans(calls, every=1)))
    rule = ("seeded histories on real qmail-send + qmail-queue in which recipients fail permanently (or temporarily past the queue "
            "lifetime) with failure texts from arbitrary bytes (blank lines, leading newlines, forged <x@y>: paragraphs, a forged "
            "'Below this line' marker, 8-bit, texts around REPORTMAX), senders ordinary / empty / #@[] / owner-@host-@[], random "
            "bouncefrom/bouncehost/doublebounceto/doublebouncehost/virtualdomains, newlines inside recipient addresses, failing "
            "injections of the notice itself; bounces of bounces are failed again to reach double bounce and discard. Every message "
            "the daemon injects is captured and parsed: envelope sender ''/#@[], recipient = original sender (VERP base) / "
            "doublebounceto, exactly one paragraph per failed recipient with head <address-without-virtual-prefix>: and the report "
            "text conserved byte for byte (newlines may become one substitute byte), original message appended, nothing generated "
            "from a failing double bounce, bounce/N removed only after the notice was queued. Non-trivial = history with a command; "
            "distinct by boundary-event sequence.")
    return core.finish(PROP, tier, "exploration", res, rule, t0, assumptions=[
        "the notice parser (nqv/refmodel/bounce.py) splits paragraphs at runs of blank lines and ends the notice at the first blank "
        "line followed by '--- Below this line is'", "crash histories are excluded (a crash between note and mark legitimately duplicates a paragraph)"])


def replay(path):
    with open(path) as f:
        print(f.read()[:4000])
    return main("quick")
