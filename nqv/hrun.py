"""Run in-process harness binaries (harness/nqvh.h output protocol) in parallel and fold
their records into a core.Result."""
import os
import subprocess

from . import core


def parse(out, res, label=""):
    for line in out.splitlines():
        if not line:
            continue
        t = line.split(" ")
        if t[0] == "V" and len(t) >= 5:
            key, why = t[1], t[2]
            i = bytes.fromhex(t[3]) if t[3] != "-" else b""
            o = bytes.fromhex(t[4]) if t[4] != "-" else b""
            res.violate(key, why, {"input": core.hx(i), "input_hex": t[3], "observed": core.hx(o),
                                   "harness_args": label})
        elif t[0] == "K" and len(t) >= 3:
            d = res.counters.setdefault("violations_by_key", {})
            d[t[1]] = d.get(t[1], 0) + int(t[2])
        elif t[0] == "S" and len(t) >= 3:
            if t[1] == "distinct_nontrivial_inputs":
                res.distinct_extra += int(t[2])
            elif t[1] == "cases":
                res.evaluations += int(t[2])
                res.counters.inc(t[1], int(t[2]))
            else:
                res.counters.inc(t[1], int(t[2]))
        elif t[0] == "X" and len(t) >= 2:
            b = bytes.fromhex(t[1]) if t[1] != "-" else b""
            res.sample(core.hx(b), cap=4)
        elif t[0] == "D" and len(t) >= 2:      # distinct hash announced by the harness
            res.distinct.add(t[1])


def run_one(binary, args, env, timeout, stdin=None):
    """worker: run one harness process, return a Result"""
    res = core.Result()
    label = " ".join(str(a) for a in args)
    rc, out, err = core.run_with_watchdog([binary] + [str(a) for a in args], timeout, env=env,
                                          stdin=stdin)
    if rc is None:
        # once more before calling it a hang
        rc, out, err = core.run_with_watchdog([binary] + [str(a) for a in args], timeout, env=env,
                                              stdin=stdin)
        if rc is None:
            res.inconclusive.append("harness timeout: %s %s" % (os.path.basename(binary), label))
            return res
    text = out.decode("latin1")
    parse(text, res, label)
    if rc != 0:
        e = err.decode("latin1", "replace")
        if "Sanitizer" in e or rc < 0 or "runtime error" in e:
            site = sanitizer_site(e)
            res.violate("C20/sanitizer/%s/%s" % (os.path.basename(binary).replace("nqv_", ""), site),
                        "sanitizer report or fatal signal in harness (rc=%s)" % rc,
                        {"harness_args": label, "stderr_tail": e[-2500:]})
        else:
            res.inconclusive.append("harness rc=%s: %s %s: %s" % (rc, os.path.basename(binary), label, e[-300:]))
    return res


def sanitizer_site(err):
    """stable key part from a sanitizer report: error kind + first frame inside the tree"""
    import re
    kind = "unknown"
    m = re.search(r"ERROR: AddressSanitizer: ([a-zA-Z-]+)", err)
    if m:
        kind = m.group(1)
    else:
        m = re.search(r"runtime error: ([a-z -]+)", err)
        if m:
            kind = "ubsan-" + m.group(1).strip().replace(" ", "-")[:40]
        elif "SEGV" in err:
            kind = "SEGV"
    site = "?"
    for m in re.finditer(r"#\d+ 0x[0-9a-f]+ in (\S+) (\S+?):(\d+)", err):
        fn, f = m.group(1), os.path.basename(m.group(2))
        if fn.startswith("__") or "sanitizer" in f or "asan" in f or f.startswith("nqv") or f.startswith("h_") or f.startswith("fuzz_"):
            continue
        site = "%s@%s" % (fn, f)
        break
    if site == "?":
        m = re.search(r"([a-zA-Z0-9_.-]+\.c):\d+:\d+: runtime error", err)
        if m:
            site = m.group(1)
    return "%s/%s" % (kind, site)


def run_many(binary, arglists, env, timeout=600, jobs=None):
    return core.pmap(run_one, [(binary, a, env, timeout) for a in arglists], jobs=jobs, timeout=timeout * 2 + 60)
