"""Pipe driver for the real qmail-smtpd binary (whole-binary monitors of C05 and C08).

A Session owns one daemon process in its own process group.  Input can be written
  * all at once (fully pipelined),
  * in exact chunks: after every chunk the driver waits until the daemon has *read* it
    (FIONREAD on the write end of the pipe is 0), so every chunk boundary is a read()
    boundary inside the daemon as long as the chunk is not larger than its input buffer,
  * in lock step: read the replies of one group of commands before sending the next.
Every wait has a deadline; expiry kills the whole process group and raises Timeout (the
caller re-runs the case once and then counts it inconclusive, never as a violation).

Also: parsing of SMTP replies (multi-line replies count as one) and of the records that
the qq-rec stand-in leaves under $NQV_REC."""
import fcntl
import os
import re
import select
import signal
import struct
import subprocess
import termios
import time


class Timeout(Exception):
    pass


def _pending(fd):
    return struct.unpack("i", fcntl.ioctl(fd, termios.FIONREAD, b"\0\0\0\0"))[0]


class Session:
    def __init__(self, argv, env, timeout=40.0):
        self.deadline = time.time() + timeout
        self.p = subprocess.Popen(argv, stdin=subprocess.PIPE, stdout=subprocess.PIPE,
                                  stderr=subprocess.PIPE, env=env, start_new_session=True, bufsize=0)
        self.wfd = self.p.stdin.fileno()
        self.rfd = self.p.stdout.fileno()
        self.efd = self.p.stderr.fileno()
        os.set_blocking(self.wfd, False)
        self.obuf = b""          # unparsed daemon output
        self.out_all = b""       # everything the daemon wrote
        self.err = b""
        self.replies = []        # (code:int, text:bytes) in order
        self.eof = False
        self.stdin_open = True
        self.broken_pipe = False
        self.stalled = False
        self.rc = None

    # ---------------------------------------------------------------- low level
    def _kill(self):
        try:
            os.killpg(self.p.pid, signal.SIGKILL)
        except (ProcessLookupError, PermissionError):
            pass
        try:
            self.p.wait(timeout=5)
        except Exception:
            pass
        for f in (self.p.stdin, self.p.stdout, self.p.stderr):
            try:
                f.close()
            except Exception:
                pass

    def _check_deadline(self):
        if time.time() > self.deadline:
            self._kill()
            raise Timeout()

    def _pump(self, wait):
        """read whatever the daemon has written (stdout, stderr); returns True if something arrived"""
        fds = [fd for fd, done in ((self.rfd, self.eof), (self.efd, False)) if not done]
        try:
            r, _, _ = select.select(fds, [], [], wait)
        except (OSError, ValueError):
            return False
        got = False
        for fd in r:
            try:
                d = os.read(fd, 65536)
            except OSError:
                d = b""
            if fd == self.rfd:
                if not d:
                    self.eof = True
                else:
                    self.obuf += d
                    self.out_all += d
                    self._parse()
                    got = True
            else:
                if d:
                    self.err += d
                    got = True
        return got

    def _parse(self):
        while True:
            # one reply = zero or more "ddd-" lines followed by a "ddd " (or bare "ddd") line
            pos = 0
            lines = []
            complete = False
            while True:
                j = self.obuf.find(b"\n", pos)
                if j < 0:
                    break
                line = self.obuf[pos:j + 1]
                pos = j + 1
                lines.append(line)
                if not (len(line) >= 4 and line[:3].isdigit() and line[3:4] == b"-"):
                    complete = True
                    break
            if not complete:
                return
            self.obuf = self.obuf[pos:]
            last = lines[-1]
            code = int(last[:3]) if last[:3].isdigit() else -1
            self.replies.append((code, b"".join(lines)))

    # ---------------------------------------------------------------- feeding
    def write(self, data, sync=False):
        """write all of data; with sync, return only when the daemon has consumed it"""
        if not self.stdin_open or self.broken_pipe:
            return False
        mv = memoryview(data)
        while len(mv):
            self._check_deadline()
            try:
                _, w, _ = select.select([], [self.wfd], [], 0.05)
            except (OSError, ValueError):
                self.broken_pipe = True
                return False
            if not w:
                self._pump(0)
                if self.p.poll() is not None:
                    self.broken_pipe = True
                    return False
                continue
            try:
                n = os.write(self.wfd, mv[:32768])
            except BlockingIOError:
                continue
            except OSError:
                self.broken_pipe = True
                return False
            mv = mv[n:]
        if sync:
            spins = 0
            while True:
                try:
                    if _pending(self.wfd) == 0:
                        break
                except OSError:
                    break
                spins += 1
                if spins > 20:
                    # the daemon may be busy (waiting for its queue child) or gone
                    self._pump(0.0005)
                    if self.p.poll() is not None:
                        self.broken_pipe = True
                        return False
                    self._check_deadline()
                else:
                    os.sched_yield()
        return True

    def wait_replies(self, n, patience=None):
        """block until at least n replies have been parsed, or the daemon closed its output, or
        (with patience) nothing arrived for that many seconds: then self.stalled is set and the
        caller should stop waiting in lock step (write the rest, close, judge what came back)"""
        last = time.time()
        while len(self.replies) < n and not self.eof:
            self._check_deadline()
            if self._pump(0.05):
                last = time.time()
            elif patience is not None and time.time() - last > patience:
                self.stalled = True
                return False
        return len(self.replies) >= n

    def finish(self):
        """close the daemon's input, collect everything to EOF (stderr EOF implies that the
        queue stand-in children are gone too), reap; returns the wait status as Popen does"""
        if self.stdin_open:
            try:
                self.p.stdin.close()
            except Exception:
                pass
            self.stdin_open = False
        err_eof = False
        while not (self.eof and err_eof):
            self._check_deadline()
            fds = ([] if self.eof else [self.rfd]) + ([] if err_eof else [self.efd])
            r, _, _ = select.select(fds, [], [], 0.05)
            for fd in r:
                try:
                    d = os.read(fd, 65536)
                except OSError:
                    d = b""
                if fd == self.rfd:
                    if d:
                        self.obuf += d
                        self.out_all += d
                        self._parse()
                    else:
                        self.eof = True
                else:
                    if d:
                        self.err += d
                    else:
                        err_eof = True
        while True:
            try:
                self.rc = self.p.wait(timeout=0.2)
                break
            except subprocess.TimeoutExpired:
                self._check_deadline()
        self.p.stdout.close()
        self.p.stderr.close()
        return self.rc

    def abort(self):
        self._kill()


def sanitizer_hit(err, rc):
    return (b"Sanitizer" in err) or (b"runtime error" in err) or (rc is not None and rc < 0)


# -------------------------------------------------------------------- qq-rec records

ENV_COMPLETE = re.compile(rb"\AF([^\0]*)\0((?:T[^\0]*\0)*)\0\Z", re.S)


class Record:
    __slots__ = ("base", "msg", "env", "complete", "sender", "rcpts")

    def __init__(self, base, msg, env):
        self.base = base
        self.msg = msg
        self.env = env
        m = ENV_COMPLETE.match(env)
        self.complete = bool(m)
        self.sender = m.group(1) if m else None
        self.rcpts = [x[1:] for x in m.group(2).split(b"\0")[:-1]] if m else None


def read_records(recdir, seen=None):
    """records in chronological order (qq-rec names them by a monotonic clock); a record is a
    *completed submission* only if its envelope stream is F<sender>NUL (T<rcpt>NUL)* NUL.
    `seen` (a set of base names) makes the call incremental."""
    out = []
    try:
        names = sorted(n for n in os.listdir(recdir) if n.endswith(".msg"))
    except FileNotFoundError:
        return out
    for n in names:
        base = n[:-4]
        if seen is not None:
            if base in seen:
                continue
            seen.add(base)
        try:
            with open(os.path.join(recdir, base + ".msg"), "rb") as f:
                msg = f.read()
        except OSError:
            msg = b""
        try:
            with open(os.path.join(recdir, base + ".env"), "rb") as f:
                env = f.read()
        except OSError:
            env = b""
        out.append(Record(base, msg, env))
    return out


def clear_dir(d):
    for n in os.listdir(d):
        try:
            os.unlink(os.path.join(d, n))
        except OSError:
            pass


def skeleton(received):
    """shape of the daemon's own Received field with the clock-dependent parts blanked"""
    s = re.sub(rb"\d+", b"#", received)
    return re.sub(rb"# [A-Z][a-z][a-z] #", b"# Mon #", s)
