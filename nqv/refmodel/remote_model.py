"""Reference model for C09: which delivery verdicts a remote-delivery client / the remote
spawner may report, given what the SMTP server did.

Written from qmail-remote(8) (RESULTS section), qmail-rspawn(8), RFC 5321 section 3.3/4.2
(reply classes, multi-line replies) and the statement of property C09 - not from the C.

Vocabulary
  verdict      'K' success, 'Z' temporary failure, 'D' permanent failure
  script       what the server does in each phase of one SMTP transaction
  phase        'greet', 'helo', 'mail', 'rcpt0'..'rcptN-1', 'data', 'dot'
  action       Action(kind, code, form); kind 'reply' = a complete reply with that code, every
               other kind is a *loss*: the connection dies or stalls in that phase
                 eof / timeout              instead of the reply
                 partial_eof / partial_timeout   after an incomplete reply
                 wfail / wtimeout / wfaildot     while the client writes its command (for the
                                                 dot phase: the message / the final dot)
  fold         qmail-remote(8): recipient report h => permanent, s => temporary, r => whatever
               the message report says; a recipient without a report takes the message report.

The statement only says when a verdict is *refuted*; wherever it is silent every verdict is
allowed (DESIGN.md Appendix B).  For recipient i, with "chain" = replies to greeting, HELO,
MAIL, RCPT_i, DATA, final dot that the server actually delivered completely:
  K is allowed  iff  greeting == 220, HELO == 250, MAIL < 400, RCPT_i < 400, DATA < 400 and
                     the reply after the final dot < 400, all delivered;
  D is allowed  iff  a 5xx was delivered to MAIL, RCPT_i, DATA or the final dot;
  Z is refuted  only when such a 5xx was delivered and nothing temporary happened (no 4xx to
                     MAIL/RCPT_i/DATA/dot, greeting/HELO as required, no loss anywhere).
A connection lost after the server received the complete final dot and before its reply was
complete must give a temporary message report that says "Possible duplicate".
"""
from collections import namedtuple

Action = namedtuple("Action", "kind code form")

KINDS = ("reply", "eof", "timeout", "partial_eof", "partial_timeout", "wfail", "wtimeout", "wfaildot")
WRITE_LOSS = ("wfail", "wtimeout", "wfaildot")
ACCEPT = {"greet": 220, "helo": 250, "mail": 250, "rcpt": 250, "data": 354, "dot": 250}


def phases(n):
    return ["greet", "helo", "mail"] + ["rcpt%d" % i for i in range(n)] + ["data", "dot"]


def phase_kind(ph):
    return "rcpt" if ph.startswith("rcpt") else ph


def default_action(ph):
    return Action("reply", ACCEPT[phase_kind(ph)], 0)


# replies whose "code" does not start with a digit: no reply class can be read from them, so whatever the client
# makes of them it is not an acceptance (codes GARBAGE_BASE + k stand for GARBAGE[k])
GARBAGE_BASE = 9990
GARBAGE = [b" 55", b"-ER", b"!!!", b"/50", b"+OK", b"a50", b"\xff50", b":50", b"   "]


def is_garbage(code):
    return code is not None and code >= GARBAGE_BASE


def code_class(code):
    if is_garbage(code):
        return "garbage"
    return "%dxx" % (code // 100)


def action_class(a):
    """class of an action for evidence / keys"""
    if a.kind == "reply":
        return code_class(a.code)
    return {"eof": "eof", "timeout": "timeout", "partial_eof": "partial", "partial_timeout": "partial",
            "wfail": "wfail", "wtimeout": "wfail", "wfaildot": "wfail"}[a.kind]


# ------------------------------------------------------------------ documented client flow

class Flow:
    """What a client following RFC 5321 3.3 / qmail-remote(8) experiences under a script:
    delivered[phase] = code of the complete reply it received there; lost = a loss happened;
    dot_received = the server got the complete message terminator."""

    def __init__(self, script, n):
        self.n = n
        self.delivered = {}
        self.lost = False
        self.lost_at = None
        self.dot_received = False
        self.reached = []
        self._run(script, n)

    def _act(self, script, ph):
        self.reached.append(ph)
        return script.get(ph) or default_action(ph)

    def _step(self, script, ph):
        """the client sends the command of phase ph and waits for the reply"""
        a = self._act(script, ph)
        if a.kind == "reply":
            self.delivered[ph] = a.code
            return a.code
        self.lost = True
        self.lost_at = ph
        if ph == "dot" and a.kind not in WRITE_LOSS:
            self.dot_received = True
        return None

    def _stop(self, script, nextph):
        """the client ends the session (QUIT) while the server is at nextph: a write failure
        scripted there hits the QUIT"""
        if nextph is not None:
            a = self._act(script, nextph)
            if a.kind in ("wfail", "wtimeout"):      # wfaildot only hits the final dot itself
                self.lost = True
                self.lost_at = nextph

    def _run(self, script, n):
        ph = phases(n)
        c = self._step(script, "greet")
        if c is None:
            return
        if c != 220:
            return self._stop(script, "helo")
        c = self._step(script, "helo")
        if c is None:
            return
        if c != 250:
            return self._stop(script, "mail")
        c = self._step(script, "mail")
        if c is None:
            return
        if c >= 400:
            return self._stop(script, "rcpt0")
        some = False
        for i in range(n):
            c = self._step(script, "rcpt%d" % i)
            if c is None:
                return
            if c < 400:
                some = True
        if not some:
            return self._stop(script, "data")
        c = self._step(script, "data")
        if c is None:
            return
        if c >= 400:
            return self._stop(script, "dot")
        c = self._step(script, "dot")
        if c is None:
            return
        self.dot_received = True


def allowed_from(delivered, lost, n):
    """allowed verdict sets per recipient from delivered replies (dict phase->code) + loss flag"""
    out = []
    g, h = delivered.get("greet"), delivered.get("helo")
    for i in range(n):
        chain = [delivered.get("mail"), delivered.get("rcpt%d" % i), delivered.get("data"), delivered.get("dot")]
        ok = g == 220 and h == 250 and all(c is not None and c < 400 for c in chain)
        has5 = any(c is not None and c >= 500 for c in chain)
        temp = (any(c is not None and 400 <= c < 500 for c in chain) or (g is not None and g != 220)
                or (h is not None and h != 250) or lost)
        s = set()
        if any(is_garbage(c) for c in chain + [g, h]):
            out.append({"D", "Z"})          # never success; the documents do not say which failure
            continue
        if ok:
            s.add("K")
        if has5:
            s.add("D")
        if not has5 or temp:
            s.add("Z")
        out.append(s)
    return out


def site_of(delivered, lost_at, i):
    """stable name of the first non-accepting point in recipient i's chain"""
    for ph, want in (("greet", 220), ("helo", 250), ("mail", None), ("rcpt%d" % i, None), ("data", None), ("dot", None)):
        k = phase_kind(ph)
        c = delivered.get(ph)
        if c is None:
            return "%s-%s" % (k, "lost" if lost_at == ph else "unreached")
        if (want is not None and c != want) or c >= 400:
            return "%s-%s" % (k, code_class(c))
    return "accepted"


def expectations(script, n):
    """-> (allowed sets per recipient, duplicate flag required, Flow)"""
    f = Flow(script, n)
    dup = f.dot_received and f.lost and "dot" not in f.delivered
    return allowed_from(f.delivered, f.lost, n), dup, f


# ------------------------------------------------------------------ report stream

class Reports:
    def __init__(self, out):
        self.raw = out
        self.rr = []            # recipient report letters in order
        self.mr = None          # message report letter
        self.mtext = b""
        self.wellformed = True
        self.problem = None
        parts = out.split(b"\0")
        if parts[-1] != b"":
            self.wellformed, self.problem = False, "unterminated-report"
        for p in parts[:-1]:
            c = p[:1]
            if self.mr is None and c in (b"r", b"h", b"s"):
                self.rr.append(c.decode())
            elif self.mr is None and c in (b"K", b"Z", b"D"):
                self.mr, self.mtext = c.decode(), p
            else:
                self.wellformed = False
                self.problem = self.problem or ("report-after-message-report" if self.mr else "unknown-report-letter")
        if self.mr is None:
            self.wellformed = False
            self.problem = self.problem or "no-message-report"

    def fold(self, n):
        out = []
        for i in range(n):
            r = self.rr[i] if i < len(self.rr) else "r"
            out.append({"h": "D", "s": "Z"}.get(r, self.mr))
        return out


RULE = {"K": "success-unjustified", "D": "permanent-without-5xx", "Z": "5xx-not-permanent"}


def judge_remote(n, allowed, dup_required, sites, out, rc):
    """-> list of (rule, site, why) problems for one observed qmail-remote run"""
    probs = []
    last = sites[-1] if sites else "?"
    if rc != 0:
        probs.append(("nonzero-exit", last, "qmail-remote(8): always exits zero; got %r" % (rc,)))
    r = Reports(out)
    if not r.wellformed:
        probs.append(("malformed-output", r.problem, "output is not 'recipient reports, then one message report', each NUL-terminated"))
        return probs, r, None
    if len(r.rr) > n:
        probs.append(("more-recipient-reports-than-recipients", last, "%d reports for %d recipients" % (len(r.rr), n)))
    folds = r.fold(n)
    for i in range(n):
        if folds[i] not in allowed[i]:
            probs.append((RULE[folds[i]], sites[i], "recipient %d folded verdict %s, allowed %s" % (
                i, folds[i], "".join(sorted(allowed[i])))))
    if dup_required and not (r.mr == "Z" and b"Possible duplicate" in r.mtext):
        probs.append(("no-possible-duplicate", "dot-lost", "connection lost after the final dot, message report %r" % (r.mtext[:80],)))
    return probs, r, folds


# ------------------------------------------------------------------ the spawner's report

def prefix_fold(out):
    """Fold of a qmail-remote output for its single recipient, read liberally: the first
    report decides h/s; otherwise the first NUL-terminated report that starts with K/Z/D is
    the message report.  None = no verdict can be read (unparseable)."""
    parts = out.split(b"\0")[:-1]          # only NUL-terminated reports count
    if not parts:
        return None
    if parts[0][:1] == b"h":
        return "D"
    if parts[0][:1] == b"s":
        return "Z"
    for p in parts:
        if p[:1] in (b"K", b"Z", b"D"):
            return p[:1].decode()
    return None


def rspawn_allowed(wstat, out):
    """verdicts qmail-rspawn may relay for a child with wait status wstat and output out.
    Strength order K > D > Z: never stronger than the fold; a crash is temporary; a non-zero
    exit or an unparseable output is never success."""
    if wstat & 127:
        return {"Z"}
    if (wstat >> 8) != 0:
        return {"Z", "D"}
    f = prefix_fold(out)
    if f == "K":
        return {"K", "D", "Z"}
    if f == "Z":
        return {"Z"}
    return {"Z", "D"}


def rspawn_site(wstat, out):
    if wstat & 127:
        return "crash"
    if wstat >> 8:
        return "exit-nonzero"
    f = prefix_fold(out)
    return "fold-%s" % (f or "unparseable")


# ------------------------------------------------------------------ script text form
# "n;w;m;k.c.f,k.c.f,..."  (shared with harness/h_remote_smtp.c: spec of one case)

def parse_spec(spec):
    n, w, m, acts = spec.split(";")
    n = int(n)
    ph = phases(n)
    script = {}
    for p, a in zip(ph, acts.split(",")):
        k, c, f = a.split(".")
        script[p] = Action(KINDS[int(k)], int(c), int(f))
    return n, int(w), int(m), script


def show_script(script, n, upto=None):
    out = []
    for ph in phases(n):
        a = script.get(ph) or default_action(ph)
        t = ("%d" % a.code + ("/f%d" % a.form if a.form else "")) if a.kind == "reply" else (
            a.kind + ("/f%d" % a.form if a.form else ""))
        out.append("%s=%s" % (ph, t))
        if upto is not None and ph == upto:
            break
    return " ".join(out)
