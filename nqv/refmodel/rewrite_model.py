"""Reference model of qmail-send's recipient classification / rewriting and of the
per-recipient (VERP) sender expansion.  Written from the documents, not from the C:

  qmail-send(8)  CONTROL FILES: envnoathost, locals, percenthack, virtualdomains, "HUP rereads
                 locals and virtualdomains" (and nothing else)
  addresses(5)   "The domain part is everything after the final @", domain compared without
                 regard to case, "pre@host-@[] -> prerecip=domain@host for deliveries to recip@domain"
  qmail-control(5) defaults (envnoathost, locals <- me), comments and trailing blanks in control files

Domain of the model (property C10): control files in which no key is listed twice (the documents
do not say which entry wins), keys and values free of NUL/LF/':' beyond the documented separator.
Where the documents leave the outcome open the model answers None and the case is not compared:
  * percent hack on user%fqdn@domain where "fqdn" would contain '@' (an fqdn is a domain name;
    whether such a local part is "of the form user%fqdn" is not said).
"""

LOCAL, REMOTE = 1, 2


def lower(b):
    return bytes((c + 32 if 65 <= c <= 90 else c) for c in b)


class Config:
    """Parsed control files as qmail-send is documented to see them.
    locals/percenthack: iterable of names or None (file absent); vdoms: dict key->prepend or None;
    envnoathost: bytes or None (file absent -> me)."""

    def __init__(self, me, locals_=None, vdoms=None, percenthack=None, envnoathost=None):
        self.me = me
        self.locals = {lower(x) for x in ([me] if locals_ is None else locals_)}
        self.vdoms = {lower(k): v for k, v in (vdoms or {}).items()}
        self.percenthack = {lower(x) for x in (percenthack or ())}
        self.envnoathost = me if envnoathost is None else envnoathost

    def after_hup(self, locals_, vdoms):
        """HUP: locals and virtualdomains are reread, everything else stays as at start-up."""
        c = Config.__new__(Config)
        c.me = self.me
        c.locals = {lower(x) for x in ([self.me] if locals_ is None else locals_)}
        c.vdoms = {lower(k): v for k, v in (vdoms or {}).items()}
        c.percenthack = self.percenthack
        c.envnoathost = self.envnoathost
        return c


def rewrite(addr, cfg):
    """-> (channel, rewritten address) or None when the documents do not determine the result.
    Also returns, as third element, the set of rule names that fired (for coverage counting)."""
    fired = set()
    a = addr
    # addresses(5): "an envelope recipient address without an @ is interpreted as being at envnoathost"
    if b"@" not in a:
        a = a + b"@" + cfg.envnoathost
        fired.add("noat")
    # qmail-send(8): percenthack is handled before locals; user may contain %, so repeatedly
    while True:
        at = a.rfind(b"@")
        local, dom = a[:at], a[at + 1:]
        if lower(dom) not in cfg.percenthack:
            break
        p = local.rfind(b"%")
        if p < 0:
            break
        user, fqdn = local[:p], local[p + 1:]
        if b"@" in fqdn:
            # The new "domain" contains an @ of its own.  Whether the hack applies AGAIN is read two ways
            # (everything after the new @, or after the final @); a name with an @ is never listed, so the
            # first reading stops here.  If the second reading stops as well the result is determined
            # (addresses(5): "the domain part is everything after the final @"); otherwise it is left open.
            if lower(fqdn[fqdn.rfind(b"@") + 1:]) in cfg.percenthack:
                return None
            a = user + b"@" + fqdn
            fired.add("pct-inner-at")
            break
        a = user + b"@" + fqdn
        fired.add("pct2" if "pct" in fired else "pct")
    at = a.rfind(b"@")
    dom = a[at + 1:]
    # locals wins over virtualdomains
    if lower(dom) in cfg.locals:
        fired.add("locals")
        return LOCAL, a, fired
    # most specific first: user@domain, domain, .suffix wildcards from longest to shortest, catch-all
    cands = [("vuser", a), ("vdomain", dom)]
    for i in range(len(dom)):
        if dom[i:i + 1] == b".":
            cands.append(("vwild", dom[i:]))
    cands.append(("vcatchall", b""))
    nmatch = sum(1 for _, k in cands if lower(k) in cfg.vdoms)
    for name, k in cands:
        pre = cfg.vdoms.get(lower(k))
        if pre is None:
            continue
        fired.add(name)
        if nmatch > 1:
            fired.add("several-rules-match")
        if pre == b"":
            # "an empty prepend means that domain is not a virtual domain"
            fired.add("exception")
            return REMOTE, a, fired
        return LOCAL, pre + b"-" + a, fired
    fired.add("remote")
    return REMOTE, a, fired


def senderadd(sender, recip):
    """addresses(5): pre@host-@[] becomes prerecip=domain@host for deliveries to recip@domain.
    None when recip has no @ (cannot happen after rewriting; outside the documents)."""
    if not sender.endswith(b"-@[]"):
        return sender
    body = sender[:-4]
    at = body.rfind(b"@")
    if at < 0:
        return sender              # not of the form pre@host-@[]
    if b"@" not in recip:
        return None
    pre, host = body[:at], body[at + 1:]
    r = recip.rfind(b"@")
    return pre + recip[:r] + b"=" + recip[r + 1:] + b"@" + host


# ----------------------------------------------------------------- workload generators

POOL = [b"a.test", b"b.a.test", b"c.b.a.test", b"x.org", b"mail.x.org", b"fax", b"quiz.jazz.org", b"abcdefghijklm.nopqrstuvwxyz.test"]
PREPENDS = [b"alias-v", b"joe", b"u-x", b"Virt", b"fax-relay", b"j"]
USERS = [b"user", b"User", b"joe-x", b"liz", b"info", b"a.b", b"U", b".joe", b"", b"x y", b"we\"ird", b"\xe9t\xe9", b"tab\tbed"]


def flipcase(rng, b, p=0.3):
    return bytes((c ^ 32 if (65 <= c <= 90 or 97 <= c <= 122) and rng.random() < p else c) for c in b)


def gen_names(rng):
    """the domain names a configuration is built from: the pool plus derived near-misses"""
    names = list(POOL)
    for d in rng.sample(POOL, 3):
        names.append(rng.choice([b"sub.", b"x.", b"deep.er."]) + d)
    return names


def gen_maps(rng, names):
    """(locals or None, vdoms dict or None): no key listed twice, case-insensitively"""
    locs = None if rng.random() < 0.1 else rng.sample(names, rng.randint(0, 3))
    vd = None
    if rng.random() < 0.9:
        vd = {}
        for _ in range(rng.randint(0, 7)):
            d = rng.choice(names)
            kind = rng.choice("udwwcU")
            if kind == "u":
                key = rng.choice(USERS[:8]) + b"@" + d          # ".joe@dom" is a virtual user, not a wildcard
            elif kind == "U":
                key = rng.choice([b"user%a.test", b"a@b", b"u%x.org"]) + b"@" + d   # rewritten / odd full addresses
            elif kind == "d":
                key = d
            elif kind == "w":
                parts = d.split(b".")
                k = rng.randint(0, len(parts) - 1)
                key = b"." + b".".join(parts[k:])            # .a.test, .test, also .fax (domain itself does not match)
            else:
                key = b""
            if lower(key) in {lower(x) for x in vd}:
                continue
            vd[key] = b"" if rng.random() < 0.2 else rng.choice(PREPENDS)
    return locs, vd


def edit_maps(rng, maps, names):
    """a small edit of (locals, vdoms), the kind an administrator makes before a HUP: one entry renamed to a
    name of the same length (first or later entry), a value changed, an entry appended, deleted, two swapped.
    -> (locals, vdoms, label)"""
    locs, vd = maps
    locs = None if locs is None else list(locs)
    items = None if vd is None else list(vd.items())

    def rename(d, taken):
        for _ in range(40):
            i = rng.randrange(len(d)) if d else 0
            if d and chr(d[i]).isalpha():
                e = d[:i] + bytes([rng.choice(b"abcdefghijklmnopqrstuvwxyz")]) + d[i + 1:]
                if lower(e) != lower(d) and lower(e) not in taken:
                    return e
        return None
    ops = []
    if locs:
        ops += ["loc-rename-first", "loc-delete"] + (["loc-rename-later", "loc-rename-later", "loc-swap"] if len(locs) > 1 else [])
    if locs is not None:
        ops += ["loc-append"]
    if items:
        ops += ["vd-rename-first", "vd-value", "vd-delete"] + (["vd-rename-later", "vd-rename-later", "vd-value-later", "vd-swap"] if len(items) > 1 else [])
    if items is not None:
        ops += ["vd-append"]
    if not ops:
        l2, v2 = gen_maps(rng, names)
        return l2, v2, "fresh"
    op = rng.choice(ops)
    if op.startswith("loc-"):
        taken = {lower(x) for x in locs}
        if op == "loc-rename-first" or op == "loc-rename-later":
            k = 0 if op == "loc-rename-first" else rng.randrange(1, len(locs))
            e = rename(locs[k], taken)
            if e is not None:
                locs[k] = e
        elif op == "loc-delete":
            del locs[rng.randrange(len(locs))]
        elif op == "loc-swap":
            i, j = rng.sample(range(len(locs)), 2)
            locs[i], locs[j] = locs[j], locs[i]
        else:
            cand = [n for n in names if lower(n) not in taken]
            if cand:
                locs.append(rng.choice(cand))
    else:
        taken = {lower(k) for k, _ in items}
        if op in ("vd-rename-first", "vd-rename-later"):
            k = 0 if op == "vd-rename-first" else rng.randrange(1, len(items))
            e = rename(items[k][0], taken)
            if e is not None:
                items[k] = (e, items[k][1])
        elif op in ("vd-value", "vd-value-later"):
            k = 0 if op == "vd-value" else rng.randrange(1, len(items))
            same = [v for v in PREPENDS if len(v) == len(items[k][1]) and v != items[k][1]]
            items[k] = (items[k][0], rng.choice(same) if same and rng.random() < 0.7 else rng.choice(PREPENDS))
        elif op == "vd-delete":
            del items[rng.randrange(len(items))]
        elif op == "vd-swap":
            i, j = rng.sample(range(len(items)), 2)
            items[i], items[j] = items[j], items[i]
        else:
            cand = [n for n in names if lower(n) not in taken]
            if cand:
                items.append((rng.choice(cand), rng.choice(PREPENDS)))
    return locs, (None if items is None else dict(items)), op


def gen_config(rng, me=b"me.test"):
    """-> dict with the raw settings (None = file absent)"""
    names = gen_names(rng)
    locs, vd = gen_maps(rng, names + [me])
    pct = None if rng.random() < 0.25 else rng.sample(names + [me], rng.randint(0, 3))
    env = None if rng.random() < 0.3 else rng.choice(names + [me, b"NoDots", b"UP.Case.Test"])
    return {"me": me, "names": names, "locals": locs, "vdoms": vd, "percenthack": pct, "envnoathost": env}


def _lines(rng, items):
    """one control-file line per item, with the documented freedoms: case (where matching ignores
    it), trailing blanks, comment lines, empty lines"""
    out = []
    for it in items:
        if rng.random() < 0.12:
            out.append(rng.choice([b"# comment", b"#" + it, b"", b"#"]))
        out.append(it + rng.choice([b"", b"", b"", b" ", b"\t", b" \t "]))
    if rng.random() < 0.1:
        out.append(b"# trailing comment")
    body = b"\n".join(out)
    if out and rng.random() < 0.9:
        body += b"\n"                                        # last line may lack its newline
    return body


def control_files(rng, raw):
    """-> {name: bytes} for the control directory (absent settings are simply not present)"""
    files = {"me": raw["me"] + b"\n"}
    if raw["locals"] is not None:
        files["locals"] = _lines(rng, [flipcase(rng, x) for x in raw["locals"]])
    if raw["percenthack"] is not None:
        files["percenthack"] = _lines(rng, [flipcase(rng, x) for x in raw["percenthack"]])
    if raw["envnoathost"] is not None:
        files["envnoathost"] = raw["envnoathost"] + rng.choice([b"\n", b" \n", b"\t\n", b""])
    if raw["vdoms"] is not None:
        files["virtualdomains"] = _lines(rng, [flipcase(rng, k) + b":" + v for k, v in raw["vdoms"].items()])
    return files


def to_config(raw):
    return Config(raw["me"], raw["locals"], raw["vdoms"], raw["percenthack"], raw["envnoathost"])


def gen_addresses(rng, raw, n, extra_maps=()):
    """recipient addresses built from the configured names plus near-misses"""
    names = list(raw["names"]) + [raw["me"]]
    vkeys = []
    for vd in [raw["vdoms"]] + [m[1] for m in extra_maps]:
        if vd:
            vkeys += [k for k in vd if b"@" in k]
    for m in extra_maps:                       # names that exist only in a later (HUP) stage
        for d in list(m[0] or []) + [k.rsplit(b"@", 1)[-1].lstrip(b".") for k in (m[1] or {})]:
            if d and d not in names:
                names.append(d)
    doms = names + [b"other.net", b"", b"test", b"a.test.", b".a.test", b"a..test", b"fax.fax", b"xfax", b"[10.0.0.1]"]
    pcts = list(raw["percenthack"] or [])

    def pdom():
        """final domain of a %-address: often one where the percent hack is configured"""
        return rng.choice(pcts) if pcts and rng.random() < 0.6 else rng.choice(names)
    out = []
    while len(out) < n:
        d = rng.choice(doms)
        r = rng.random()
        if r < 0.25:
            d = rng.choice([b"sub.", b"x.y.", b"a", b".", b"deep.er."]) + d       # extra labels in front
        elif r < 0.30:
            d = d + rng.choice([b".x", b"x", b"."])                              # extra label behind
        u = rng.choice(USERS)
        form = rng.randint(0, 11)
        if form <= 2:
            a = u + b"@" + d
        elif form == 3:
            a = u                                                                # no @
        elif form == 4:
            a = u + b"@"                                                         # trailing @
        elif form == 5:
            a = u + b"@" + rng.choice(names) + b"@" + d                          # two @
        elif form == 6:
            a = u + b"%" + d + b"@" + pdom()                                     # one %
        elif form == 7:
            chain = [pdom() if rng.random() < 0.5 else rng.choice(doms) for _ in range(rng.randint(2, 4))]   # % chain
            a = u + b"".join(b"%" + x for x in chain) + b"@" + pdom()
        elif form == 8:
            a = u + rng.choice([b"%", b"%%", b"%@", b"%" + d + b"%"]) + rng.choice(names) + rng.choice([b"", b"@" + pdom()])
        elif form == 9 and vkeys:
            a = rng.choice(vkeys)                                                # a configured virtual user
            if rng.random() < 0.3:
                a = rng.choice([b"x", b"-"]) + a
        elif form == 10:
            a = u + b"%" + rng.choice(names) + b"%" + pdom() + b"@" + rng.choice(names) + b"@" + pdom()
        else:
            a = u + rng.choice([b"%", b""]) + rng.choice(names)                  # no @, maybe %: default host first
        if rng.random() < 0.4:
            a = flipcase(rng, a)
        if b"\0" in a:
            continue
        out.append(a)
    return out


def changed_addresses(rng, before, after):
    """addresses aimed at what differs between two (locals, vdoms) stages: a name listed only before or only
    after, a key whose value changed"""
    out = []
    l0, l1 = set(map(lower, before[0] or [])), set(map(lower, after[0] or []))
    v0, v1 = before[1] or {}, after[1] or {}
    k0 = {lower(k): v for k, v in v0.items()}
    k1 = {lower(k): v for k, v in v1.items()}
    doms = list(l0 ^ l1)
    for k in set(k0) | set(k1):
        if k0.get(k) != k1.get(k):
            doms.append(k)
    for d in doms:
        if b"@" in d:
            out.append(d)
            continue
        d = d.lstrip(b".") if d.startswith(b".") and rng.random() < 0.5 else (b"sub" + d if d.startswith(b".") else d)
        if d:
            out.append(rng.choice(USERS[:6]) + b"@" + d)
    return [a for a in out if b"\0" not in a]


def gen_verp(rng, raw, n):
    """(sender, recipient) pairs around the documented VERP form"""
    names = list(raw["names"])
    out = []
    for _ in range(n):
        host = rng.choice(names)
        pre = rng.choice([b"list-owner-", b"owner-", b"", b"a@b-", b"x-@y-", b"list-"])
        form = rng.randint(0, 7)
        if form <= 3:
            s = pre + b"@" + host + b"-@[]"
        elif form == 4:
            s = pre + host + b"-@[]"                 # no @ in front of the suffix (unless pre has one)
        elif form == 5:
            s = pre + b"@" + host + rng.choice([b"-@[", b"@[]", b"-@[]x", b"-@[] ", b"-@[]-@[]"])
        elif form == 6:
            s = rng.choice([b"", b"-@[]", b"@-@[]", b"#@[]", b"x-@[]"])
        else:
            s = pre + b"@" + host
        r = rng.choice(USERS) + rng.choice([b"@", b"@x@", b"=y@"]) + rng.choice(names + [b""])
        if b"\0" in s or b"\0" in r:
            continue
        out.append((s, r))
    return out
