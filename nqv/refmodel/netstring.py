"""Netstrings, QMTP and QMQP as the protocol documents define them (netstrings.txt, qmtp.txt,
qmqp.html on cr.yp.to; qmail-qmtpd(8), qmail-qmqpd(8)) - written from the documents, not from
the daemons' parsers.

A netstring is  LEN ":" DATA ","  where LEN is a non-empty string of ASCII decimal digits that
states the number of bytes in DATA.  The netstring document forbids superfluous leading zeros;
they do not make the length ambiguous, so this model only *flags* them (lenient) and lets the
oracle accept either treatment.  The same goes for an EMPTY LEN (":,"), which can only be read
as "0:," and leaves no doubt about where frames begin and end: flagged lenient, read as the
empty string.  Everything else is malformed: a non-digit in LEN, a terminator other than ",",
data running past the enclosing frame.  Running out of input
is `truncated` (the client disconnected).

QMTP: the client sends packages; a package is three netstrings: the message (first byte LF:
lines end in LF; first byte CR: lines end in CR LF and the server stores CR LF as LF), the
envelope sender, and the recipients - itself a concatenation of netstrings, one per address.
The server answers each package with one netstring per recipient, in order, whose first byte
is K (accepted: the server took responsibility), Z (temporary) or D (permanent).

QMQP: the client sends ONE netstring that is the concatenation of the message netstring, the
sender netstring and one netstring per recipient, and receives one netstring K/Z/D."""

LENIENT_LEADING_ZERO = "leading-zero"
LENIENT_EMPTY_LENGTH = "empty-length"


class Malformed(Exception):
    def __init__(self, reason, pos):
        Exception.__init__(self, "%s at %d" % (reason, pos))
        self.reason = reason
        self.pos = pos


def enc(b):
    return b"%d:" % len(b) + b + b","


def parse(buf, pos, end=None, flags=None):
    """Strict netstring at buf[pos:end].  Returns (data, newpos).  Raises Malformed; reason
    'truncated' means the input (not the enclosing frame) ended first."""
    hard_end = len(buf)
    if end is None:
        end = hard_end
    i = pos
    while True:
        if i >= end:
            raise Malformed("truncated" if end == hard_end else "overrun", i)
        c = buf[i]
        if c == 0x3a:
            break
        if c < 0x30 or c > 0x39:
            raise Malformed("nondigit-length", i)
        i += 1
    digits = buf[pos:i]
    if i == pos:
        if flags is not None:
            flags.add(LENIENT_EMPTY_LENGTH)
        digits = b"0"
    elif len(digits) > 1 and digits[:1] == b"0" and flags is not None:
        flags.add(LENIENT_LEADING_ZERO)
    n = int(digits)
    s = i + 1
    if s + n + 1 > end:
        # data or terminator beyond the frame / the input
        raise Malformed("truncated" if end == hard_end else "overrun", min(end, s + n))
    if buf[s + n] != 0x2c:
        raise Malformed("bad-terminator", s + n)
    return buf[s:s + n], s + n + 1


def parse_list(buf, flags=None):
    """a byte string that must be exactly a concatenation of netstrings"""
    out = []
    pos = 0
    while pos < len(buf):
        try:
            d, pos = parse(buf, pos, flags=flags)
        except Malformed as e:
            # inside a complete enclosing frame nothing is 'truncated': it overruns the frame
            raise Malformed("overrun" if e.reason == "truncated" else e.reason, e.pos)
        out.append(d)
    return out


def parse_replies(out):
    """server output: a concatenation of netstrings; returns (list, clean) where clean is False
    when trailing bytes do not form a netstring"""
    res = []
    pos = 0
    while pos < len(out):
        try:
            d, pos = parse(out, pos)
        except Malformed:
            return res, False
        res.append(d)
    return res, True


def dos_decode(b):
    """QMTP message in CR LF convention -> stored form: CR LF becomes LF, any other CR stays"""
    return b.replace(b"\r\n", b"\n")


class Package:
    """one QMTP package or the QMQP package as the documents read it"""
    __slots__ = ("ok", "reason", "field", "body", "sender", "rcpts", "flags", "end", "dos")

    def __init__(self):
        self.ok = False
        self.reason = None      # why the package is malformed / incomplete
        self.field = None       # ... and in which field: message, sender, recipients (the list frame), recipient
        self.body = None
        self.sender = None
        self.rcpts = None
        self.flags = set()
        self.end = None
        self.dos = False


def qmtp_packages(wire):
    """Read the whole client stream.  Returns the list of Packages; every package but the last
    is well-formed; the last one may be malformed or truncated (ok False, reason set) - the
    server must answer nothing for it and nothing after it."""
    out = []
    pos = 0
    while pos < len(wire):
        p = Package()
        out.append(p)
        try:
            p.field = "message"
            msg, q = parse(wire, pos, flags=p.flags)
            if len(msg) == 0:
                raise Malformed("empty", pos)
            if msg[0] == 10:
                p.body = msg[1:]
            elif msg[0] == 13:
                p.dos = True
                p.body = dos_decode(msg[1:])
            else:
                raise Malformed("bad-type-byte", pos)
            p.field = "sender"
            p.sender, q = parse(wire, q, flags=p.flags)
            p.field = "recipients"
            rl, q = parse(wire, q, flags=p.flags)
            p.field = "recipient"
            p.rcpts = parse_list(rl, flags=p.flags)
            p.field = None
            p.ok = True
            p.end = q
            pos = q
        except Malformed as e:
            p.reason = e.reason
            break
    return out


def qmqp_package(wire):
    """the single QMQP package; bytes after it are not part of the protocol and are ignored"""
    p = Package()
    try:
        p.field = "package"
        blob, q = parse(wire, 0, flags=p.flags)
        # which inner string is broken: message, sender or a recipient
        parts = []
        pos = 0
        while pos < len(blob):
            p.field = ("message", "sender")[len(parts)] if len(parts) < 2 else "recipient"
            try:
                d, pos = parse(blob, pos, flags=p.flags)
            except Malformed as e:
                raise Malformed("overrun" if e.reason == "truncated" else e.reason, e.pos)
            parts.append(d)
        if len(parts) < 2:
            p.field = ("message", "sender")[len(parts)]
            raise Malformed("missing", 0)
        p.body, p.sender, p.rcpts = parts[0], parts[1], parts[2:]
        p.field = None
        p.ok = True
        p.end = q
    except Malformed as e:
        p.reason = e.reason
    return p
