"""Reference model: which user controls a local address (C11).

Written from qmail-users(5), qmail-getpw(8), qmail-lspawn(8) and qmail-newu(8); not transcribed
from the C.  Everything works on bytes.

Domain (what the documents define):
  * users/assign lines "=local:user:uid:gid:homedir:dash:ext:" and "+loc:user:uid:gid:homedir:dash:pre:",
    terminated by a line consisting of a single dot, no NUL bytes.  Lines that start with anything
    else are outside qmail-users(5) and are not modelled.
  * uid / gid fields are decimal numbers below 2**32.  Anything else is "undefined id": the only
    thing the property then demands is that no delivery runs as root.
  * passwd rules: qmail-getpw(8) section RULES.

A lookup returns a Target or None.  `expectation()` turns a Target into what qmail-lspawn must do.
"""
from collections import namedtuple

BREAK = b"-"            # conf-break of the tree under test (qmail-getpw(8): user BREAK anything)
USERLEN = 32            # "assumes that all account names are shorter than 32 characters"

Target = namedtuple("Target", "user uid gid home dash ext via")   # uid/gid: the decimal *fields* (bytes)
Entry = namedtuple("Entry", "kind loc user uid gid home dash ext lineno")
Account = namedtuple("Account", "name uid gid home")


def lower(b):
    """ASCII-only lower-casing (addresses are byte strings, not text)."""
    return bytes((c + 32) if 65 <= c <= 90 else c for c in b)


# ------------------------------------------------------------------ users/assign

class AssignError(Exception):
    pass


def parse_assign(text):
    """qmail-users(5) STRUCTURE.  Returns the list of entries in file order.
    Raises AssignError when the file is not a valid table (qmail-newu must then refuse it and
    leave users/cdb alone)."""
    entries = []
    pos = 0
    lineno = 0
    while True:
        nl = text.find(b"\n", pos)
        if nl < 0:
            # unterminated last line: the terminating dot line is missing (a partial line
            # that starts with a dot still ends the table)
            if text[pos:pos + 1] == b".":
                return entries
            raise AssignError("no terminating dot line")
        line = text[pos:nl]
        pos = nl + 1
        lineno += 1
        if line[:1] == b".":
            return entries
        if b"\0" in line:
            raise AssignError("NUL in line %d" % lineno)
        if line[:1] not in (b"=", b"+"):
            raise AssignError("line %d outside qmail-users(5)" % lineno)
        f = line[1:].split(b":")
        # local:user:uid:gid:homedir:dash:ext:  -> at least 7 colons in the line
        if len(f) < 8:
            raise AssignError("line %d has too few fields" % lineno)
        entries.append(Entry(line[:1], f[0], f[1], f[2], f[3], f[4], f[5], f[6], lineno))


def assign_lookup(entries, local):
    """SIMPLE ASSIGNMENTS / WILDCARD ASSIGNMENTS: a simple assignment overrides any wildcard,
    a more specific (longer) wildcard overrides a less specific one, the first of several
    assignments for the same address wins, addresses are compared without regard to case; the
    wildcard's `pre` is extended by the part of the address after `loc` (as written by the sender)."""
    l = lower(local)
    for e in entries:
        if e.kind == b"=" and lower(e.loc) == l:
            return Target(e.user, e.uid, e.gid, e.home, e.dash, e.ext, "assign-exact")
    best = None
    for e in entries:
        if e.kind != b"+":
            continue
        k = lower(e.loc)
        if l[:len(k)] == k:
            if best is None or len(k) > len(best.loc):
                best = e
    if best is not None:
        return Target(best.user, best.uid, best.gid, best.home, best.dash,
                      best.ext + local[len(best.loc):], "assign-wild")
    return None


def chosen_entry(entries, local):
    """the entry the table lookup selects (for classification of findings), or None"""
    l = lower(local)
    for e in entries:
        if e.kind == b"=" and lower(e.loc) == l:
            return e
    best = None
    for e in entries:
        if e.kind == b"+" and l[:len(e.loc)] == lower(e.loc):
            if best is None or len(e.loc) > len(best.loc):
                best = e
    return best


# ------------------------------------------------------------------ passwd rules

def is_user(acct, home_owner):
    """qmail-getpw(8) RULES (1)-(3).  home_owner(path) -> uid owning the directory as seen by
    qmail-getpw, or None if it does not exist / is not visible."""
    if acct is None or acct.uid == 0:
        return False
    o = home_owner(acct.home)
    return o is not None and o == acct.uid


def getpw_lookup(accounts, home_owner, local, alias):
    """accounts: dict name(bytes) -> Account.  Account names containing uppercase letters can
    never be selected because the candidate is lower-cased before the look-up.  Longest
    user-BREAK-extension split wins; otherwise the alias user with dash '-' and ext = local.
    Returns None when the alias account itself is missing (a lookup error)."""
    n = len(local)
    for cut in range(n, -1, -1):
        if cut >= USERLEN:
            continue
        if cut != n and local[cut:cut + 1] != BREAK:
            continue
        a = accounts.get(lower(local[:cut]))
        if a is not None and is_user(a, home_owner):
            if cut == n:
                return Target(a.name, b"%d" % a.uid, b"%d" % a.gid, a.home, b"", b"", "getpw-user")
            return Target(a.name, b"%d" % a.uid, b"%d" % a.gid, a.home, b"-", local[cut + 1:], "getpw-ext")
    a = accounts.get(alias)
    if a is None:
        return None
    return Target(a.name, b"%d" % a.uid, b"%d" % a.gid, a.home, b"-", local, "getpw-alias")


def lookup(entries, accounts, home_owner, local, alias):
    """qmail-lspawn(8): the qmail-users mechanism first, qmail-getpw if the address is not listed.
    entries None = there is no users/cdb at all."""
    if entries is not None:
        t = assign_lookup(entries, local)
        if t is not None:
            return t
    return getpw_lookup(accounts, home_owner, local, alias)


# ------------------------------------------------------------------ what must happen

def idfield(b):
    """decimal id field -> int, or None when the field is outside the documented domain"""
    if not b or any(c < 48 or c > 57 for c in b) or len(b) > 12:
        return None
    v = int(b)
    if v >= 2 ** 32:
        return None
    return v


def expectation(t):
    """('defer',) | ('deliver', uid, gid) | ('undefined-id',)
    undefined-id: the table's id fields are not decimal numbers < 2**32; the only requirement is
    'never as root' (and no K/D without a delivery)."""
    if t is None:
        return ("defer",)
    u, g = idfield(t.uid), idfield(t.gid)
    if u is None or g is None:
        return ("undefined-id",)
    if u == 0:
        return ("defer",)
    if u == 2 ** 32 - 1 or g == 2 ** 32 - 1:
        return ("undefined-id",)        # (uid_t)-1 is not a user id
    return ("deliver", u, g)


# ------------------------------------------------------------------ independent cdb reader

class CdbBad(Exception):
    """structural damage: a pointer or a length leaves the file, or a read comes up short.
    cls is a stable class name of the damage (used in violation keys)."""

    def __init__(self, msg, cls="outside-file"):
        Exception.__init__(self, msg)
        self.cls = cls


def cdb_hash(key):
    h = 5381
    for c in key:
        h = ((h * 33) & 0xffffffff) ^ c
    return h


class CdbReader:
    """Minimal reader of the constant-database format (cdb(5)-style: 256 (pos,len) pairs, records
    klen,dlen,key,data, open-addressing tables of (hash,pos) with pos 0 = empty)."""

    def __init__(self, data):
        self.b = data

    def _rd(self, off, n, what="outside-file"):
        # No 32-bit arithmetic is imitated here: an offset or length that does not fit the file is
        # damage, however large it is.
        if off < 0 or off + n > len(self.b):
            cls = what
            if n >= 2 ** 31:
                cls = "length-over-2G"
            elif off >= 2 ** 32:
                cls = "offset-over-4G"
            raise CdbBad("read [%d,%d) outside %d bytes" % (off, off + n, len(self.b)), cls)
        return self.b[off:off + n]

    def _u32(self, off):
        return int.from_bytes(self._rd(off, 4), "little")

    def find(self, key):
        """-> (data_offset, dlen) of the first record stored under key, or None"""
        h = cdb_hash(key)
        slot = 8 * (h & 255)
        tpos, tlen = self._u32(slot), self._u32(slot + 4)
        if tlen == 0:
            return None
        i = (h >> 8) % tlen
        for _ in range(tlen):
            off = tpos + 8 * i
            sh, sp = self._u32(off), self._u32(off + 4)
            if sp == 0:
                return None
            if sh == h:
                klen, dlen = self._u32(sp), self._u32(sp + 4)
                if klen == len(key):
                    # the stored key is compared in pieces of 32 bytes; a piece that is not
                    # completely inside the file is damage, a differing piece ends the comparison
                    same = True
                    p = sp + 8
                    for c in range(0, klen, 32):
                        piece = self._rd(p + c, min(32, klen - c))
                        if piece != key[c:c + 32]:
                            same = False
                            break
                    if same:
                        return (sp + 8 + klen, dlen)
            i += 1
            if i == tlen:
                i = 0
        return None

    def get(self, key):
        r = self.find(key)
        if r is None:
            return None
        off, dlen = r
        return self._rd(off, dlen, "value-outside-file")

    def records(self):
        """sequential scan of the record area (only meaningful for an undamaged file)"""
        end = min(self._u32(8 * i) for i in range(256))
        out = []
        p = 2048
        while p < end:
            klen, dlen = self._u32(p), self._u32(p + 4)
            out.append((self._rd(p + 8, klen), self._rd(p + 8 + klen, dlen)))
            p += 8 + klen + dlen
        if p != end:
            raise CdbBad("record area does not end at the first table", "record-area")
        return out


def cdb_lookup(data, local):
    """What the bytes of a users/cdb say about `local` (on-disk format of qmail-newu(8):
    '!'+address+NUL -> simple assignment, '!'+loc -> wildcard, '' -> the set of last characters of
    all wildcard locs).  -> Target | None (not listed); raises CdbBad."""
    r = CdbReader(data)
    wild = r.get(b"")
    if wild is None:
        raise CdbBad("no break-character record", "no-break-record")
    l = lower(local)
    v = r.get(b"!" + l + b"\0")
    rest = b""
    if v is None:
        for cut in range(len(l), -1, -1):
            if cut == 0 or l[cut - 1] in wild:
                v = r.get(b"!" + l[:cut])
                if v is not None:
                    rest = local[cut:]
                    break
    if v is None:
        return None
    f = (v + rest + b"\0").split(b"\0")
    # user NUL uid NUL gid NUL home NUL dash NUL ext NUL: six terminated fields
    if len(f) < 7:
        raise CdbBad("value has fewer than six fields", "short-value")
    return Target(f[0], f[1], f[2], f[3], f[4], f[5], "cdb-bytes")
