"""Parser for the failure notices qmail-send generates, written from qmail-send(8) / the
property statement, not from the code: header, blank line, an introduction paragraph, one
paragraph per failed recipient (first line "<recipient>:"), then the line
"--- Below this line is ..." followed by the original message."""
import re

MARK = b"\n--- Below this line is "


def parse_notice(msg):
    """-> dict(header, intro, paras=[bytes], marker, original, return_path) or None"""
    if b"\n\n" not in msg:
        return None
    header, body = msg.split(b"\n\n", 1)
    # the notice region ends at the first blank line followed by the marker line
    i = body.find(b"\n" + MARK[1:]) if body.startswith(MARK[1:]) else -1
    j = body.find(b"\n" + MARK)
    if j < 0:
        return {"header": header, "intro": None, "paras": [], "marker": None, "original": b"", "return_path": None,
                "region": body}
    region = body[:j + 1]          # ends with "\n"
    rest = body[j + 2:]            # starts with "--- Below this line is"
    line, _, after = rest.partition(b"\n")
    marker = line
    original = after[1:] if after.startswith(b"\n") else after
    rp = None
    m = re.match(rb"Return-Path: <(.*)>\n", original)
    if m:
        rp = m.group(1)
    # paragraphs are separated by one or more blank lines (a failure text that ends in a blank
    # line leaves two of them; that is an empty separator, not a paragraph)
    paras = [x for x in re.split(rb"\n{2,}", region.strip(b"\n")) if x] if region.strip(b"\n") else []
    intro = paras[0] if paras else None
    return {"header": header, "intro": intro, "paras": paras[1:], "marker": marker, "original": original,
            "return_path": rp, "region": region}


def para_recipient(p):
    """first line of a paragraph must be <addr>: ; returns addr or None"""
    first = p.split(b"\n", 1)[0]
    if first.startswith(b"<") and first.endswith(b">:"):
        return first[1:-2]
    return None


def header_field(header, name):
    for line in header.split(b"\n"):
        if line.lower().startswith(name.lower() + b":"):
            return line[len(name) + 1:].strip()
    return None
