"""Reference model of a POP3 session: RFC 1939 as qualified by qmail-pop3d(8) and
qmail-popup(8).  Written from those documents (and maildir(5)), not from the C.

Domain of the model (anything else is "unspecified" and must not be generated):
  * command lines `VERB`, `VERB arg`, `VERB arg arg`, single spaces, CR LF terminated, verb in any case;
  * a message-number argument is either a string of ASCII digits (any length, leading zeros
    allowed; it names that number *mathematically*) or a token that does not start with a digit
    (non-numeric).  "digits followed by junk", trailing blanks and surplus arguments are unspecified;
  * TOP's line count is a digit string naming a number below 2^64 (it names that number mathematically;
    counts of 2^64 and more are outside the domain), or absent /
    non-numeric (unspecified by RFC 1939: the server may refuse or send the whole message);
  * the maildir holds regular files in new/ and cur/ whose mtime lies in the past and whose names do
    not start with '.'; the unique id of a file is its name up to the first ':' (maildir(5)).

Documented qualifications:
  * qmail-pop3d(8): "appends an extra blank line to every message"; "supports UIDL, TOP, and LAST";
    refuses to run as root (exit 1).
  * properties.jsonl C19: STAT's message count is outside the comparison (sizes are compared);
    listed sizes are the sizes of the files.
  * a message whose last line has no LF is sent with that line terminated (POP3 cannot say otherwise).
  * the order of the messages is whatever the first complete listing shows (ties in mtime are
    unspecified); it must then stay fixed for the session.
"""

U64 = 1 << 64
TOP_DOMAIN_MAX = (1 << 64) - 1


def is_digits(b):
    return len(b) > 0 and all(48 <= c <= 57 for c in b)


def split_lines(data):
    """the lines of a stored message, without their LF; a final partial line counts as a line"""
    if data == b"":
        return []
    parts = data.split(b"\n")
    if data.endswith(b"\n"):
        parts.pop()
    return parts


def wire(lines):
    """multi-line response body: lines CR LF terminated and dot-stuffed, then the documented extra
    blank line, then the terminator"""
    out = []
    for l in lines:
        if l[:1] == b".":
            out.append(b".")
        out.append(l)
        out.append(b"\r\n")
    out.append(b"\r\n.\r\n")
    return b"".join(out)


def retr_payload(data):
    return wire(split_lines(data))


def top_lines(data, n):
    """header, the separating blank line, and the first n lines of the body"""
    out = []
    body = 0
    inhdr = True
    for l in split_lines(data):
        if inhdr:
            out.append(l)
            if l == b"":
                inhdr = False
        else:
            if body >= n:
                break
            out.append(l)
            body += 1
    return out


def top_payload(data, n):
    return wire(top_lines(data, n))


def uid_of(filename):
    """unique id of a maildir file name"""
    return filename.split(b":", 1)[0]


def classify_number(tok):
    """('missing',) | ('number', value) | ('nonnumeric',) | ('unspecified',)"""
    if tok == b"":
        return ("missing",)
    if is_digits(tok):
        return ("number", int(tok))
    if 48 <= tok[0] <= 57:
        return ("unspecified",)
    return ("nonnumeric",)


class OutsideDomain(Exception):
    """the command is outside the domain of the model: the generator must not produce it"""


class Expect:
    """What RFC 1939 (as qualified) allows as the reply to one command.
    kind:
      ok        one line starting with +OK
      err       one line starting with -ERR            (cls = why the command must be refused)
      okline    +OK followed by exactly `text`
      stat      +OK <count> <size>  -- only `size` is compared
      last      +OK <number>        -- the number is not compared (LAST is not in RFC 1939)
      listing   +OK line, then exactly the lines `lines`, then "."
      payload   +OK line, then exactly the bytes `payload`
      err_or_payload   unspecified form: -ERR, or +OK and exactly `payload`
      vanished_retr    the file was removed behind the server's back: -ERR, or +OK and any multi-line body
      vanished_dele    -ERR or +OK (the caller reports which through Session.note_accepted)
      quit      +OK ; with marked files that vanished any number of -ERR lines may precede / replace it
    """

    def __init__(self, kind, verb, cls=None, **kw):
        self.kind = kind
        self.verb = verb
        self.cls = cls
        self.text = kw.get("text")
        self.size = kw.get("size")
        self.lines = kw.get("lines")
        self.optional = kw.get("optional", frozenset())   # uids whose listing line is optional / free
        self.payload = kw.get("payload")
        self.index = kw.get("index")
        self.lenient = kw.get("lenient", False)


class Message:
    def __init__(self, subdir, name, data, mtime):
        self.subdir = subdir          # b"new" / b"cur"
        self.name = name              # file name (bytes)
        self.uid = uid_of(name)
        self.data = data
        self.mtime = mtime


class Session:
    """TRANSACTION and UPDATE state of RFC 1939 over a fixed set of stored messages."""

    SINGLE = (b"STAT", b"NOOP", b"RSET", b"LAST", b"DELE", b"QUIT")

    def __init__(self, messages):
        self.by_uid = {}
        for m in messages:
            self.by_uid[m.uid] = m
        self.order = None             # list of uids: message number k is order[k-1]
        self.deleted = set()          # indexes marked by DELE
        self.vanished = set()         # indexes whose file the environment removed mid-session
        self.updated = False          # QUIT processed in TRANSACTION state => UPDATE state entered

    # ---- numbering -------------------------------------------------------------------------
    def expected_uids(self):
        return sorted(self.by_uid)

    def fix_numbering(self, uids):
        """uids = the ids of the first complete UIDL listing, in order.  Returns a list of
        problems (empty when the listing is a one-to-one enumeration of the stored messages)."""
        problems = []
        if len(set(uids)) != len(uids):
            problems.append("duplicate-id")
        if set(uids) - set(self.by_uid):
            problems.append("unknown-id")
        if set(self.by_uid) - set(uids):
            problems.append("message-not-listed")
        if not problems:
            self.order = list(uids)
        return problems

    def n(self):
        return len(self.order)

    def msg(self, idx):
        return self.by_uid[self.order[idx]]

    def vanish(self, idx):
        self.vanished.add(idx)

    # ---- message numbers -------------------------------------------------------------------
    def resolve(self, tok):
        """('ok', index) or ('refuse', class)"""
        c = classify_number(tok)
        if c[0] == "missing":
            return ("refuse", "missing")
        if c[0] == "nonnumeric":
            return ("refuse", "nonnumeric")
        if c[0] == "unspecified":
            raise OutsideDomain("digits followed by junk: %r" % tok)
        v = c[1]
        if v == 0:
            return ("refuse", "zero")
        if v > self.n():
            return ("refuse", "overflow" if v >= U64 else "toobig")
        if v - 1 in self.deleted:
            return ("refuse", "deleted")
        return ("ok", v - 1)

    # ---- one command -----------------------------------------------------------------------
    def _listing(self, verb):
        lines, optional = [], set()
        for i in range(self.n()):
            if i in self.deleted:
                continue
            m = self.msg(i)
            if verb == b"UIDL":
                lines.append((i, b"%d %s" % (i + 1, m.uid)))
            else:
                lines.append((i, b"%d %d" % (i + 1, len(m.data))))
            if i in self.vanished:
                optional.add(i)
        return lines, optional

    def command(self, verb, args):
        """verb: upper-case bytes; args: list of argument tokens.  Returns an Expect and advances
        the model state on the assumption that the server answers as expected."""
        if self.order is None:
            raise OutsideDomain("numbering not fixed yet")
        if verb == b"QUIT":
            self.updated = True
            lenient = bool(self.deleted & self.vanished)
            return Expect("quit", verb, lenient=lenient)
        if verb == b"NOOP":
            return Expect("ok", verb)
        if verb == b"RSET":
            self.deleted.clear()
            return Expect("ok", verb)
        if verb == b"LAST":
            return Expect("last", verb)
        if verb == b"STAT":
            size = sum(len(self.msg(i).data) for i in range(self.n()) if i not in self.deleted)
            return Expect("stat", verb, size=size, lenient=bool(self.vanished - self.deleted))
        if verb in (b"LIST", b"UIDL"):
            if not args:
                lines, optional = self._listing(verb)
                return Expect("listing", verb, lines=lines, optional=frozenset(optional))
            if len(args) > 1:
                raise OutsideDomain("surplus argument")
            r = self.resolve(args[0])
            if r[0] == "refuse":
                return Expect("err", verb, r[1])
            i = r[1]
            m = self.msg(i)
            text = b"%d %s" % (i + 1, m.uid) if verb == b"UIDL" else b"%d %d" % (i + 1, len(m.data))
            return Expect("okline", verb, text=text, index=i, lenient=i in self.vanished)
        if verb == b"DELE":
            if len(args) > 1:
                raise OutsideDomain("surplus argument")
            r = self.resolve(args[0] if args else b"")
            if r[0] == "refuse":
                return Expect("err", verb, r[1])
            if r[1] in self.vanished:
                return Expect("vanished_dele", verb, index=r[1])
            self.deleted.add(r[1])
            return Expect("ok", verb, index=r[1])
        if verb == b"RETR":
            if len(args) > 1:
                raise OutsideDomain("surplus argument")
            r = self.resolve(args[0] if args else b"")
            if r[0] == "refuse":
                return Expect("err", verb, r[1])
            if r[1] in self.vanished:
                return Expect("vanished_retr", verb, index=r[1])
            return Expect("payload", verb, payload=retr_payload(self.msg(r[1]).data), index=r[1])
        if verb == b"TOP":
            if len(args) > 2:
                raise OutsideDomain("surplus argument")
            r = self.resolve(args[0] if args else b"")
            if r[0] == "refuse":
                return Expect("err", verb, r[1])
            if r[1] in self.vanished:
                return Expect("vanished_retr", verb, index=r[1])
            data = self.msg(r[1]).data
            if len(args) < 2 or not is_digits(args[1]):
                if len(args) == 2 and 48 <= args[1][0] <= 57:
                    raise OutsideDomain("digits followed by junk")
                # RFC 1939 requires the count; a server may refuse or treat it as unlimited
                return Expect("err_or_payload", verb, payload=retr_payload(data), index=r[1])
            n = int(args[1])
            if n > TOP_DOMAIN_MAX:
                raise OutsideDomain("TOP line count of 2^64 or more")
            return Expect("payload", verb, payload=top_payload(data, n), index=r[1])
        # anything else (including USER/PASS/APOP, which belong to the AUTHORIZATION state)
        return Expect("err", verb, "unknown-command")

    def note_accepted(self, expect, accepted):
        """for replies the specification leaves open: tell the model what the server chose"""
        if expect.kind == "vanished_dele" and accepted:
            self.deleted.add(expect.index)

    # ---- final state -------------------------------------------------------------------------
    def final(self):
        """(must_remain {uid: data}, must_be_gone set(uid)) after the connection has ended.
        Messages are removed only in the UPDATE state, i.e. after QUIT, and only if marked."""
        remain, gone = {}, set()
        for i, u in enumerate(self.order if self.order is not None else self.expected_uids()):
            if i in self.vanished:
                continue
            if self.updated and i in self.deleted:
                gone.add(u)
            else:
                remain[u] = self.by_uid[u].data
        return remain, gone


# ------------------------------------------------------------------------------ AUTHORIZATION state

class Popup:
    """qmail-popup(8): reads USER/PASS or APOP, runs the checker with descriptor 3 carrying
    user NUL password NUL timestamp NUL.  Before authentication only USER, PASS, APOP, NOOP and
    QUIT are honoured (RFC 1939 section 4 + properties.jsonl C19)."""

    def __init__(self, hostname):
        self.hostname = hostname
        self.user = None
        self.challenge = None

    def greeting(self, line):
        """the greeting must be +OK and carry the APOP timestamp <...@hostname> (RFC 1939 section 7)"""
        if not line.startswith(b"+OK"):
            return "not-ok"
        a = line.rfind(b"<")
        b = line.rfind(b">")
        if a < 0 or b < a:
            return "no-timestamp"
        ts = line[a:b + 1]
        if not ts.endswith(b"@" + self.hostname + b">") or len(ts) <= len(self.hostname) + 3:
            return "timestamp-not-derived-from-hostname"
        self.challenge = ts
        return None

    def command(self, verb, arg):
        """arg: everything after the first space (bytes, may contain spaces).
        Returns ('ok',) ('err', why) ('quit',), ('auth', user, password) or ('auth_or_err', user, password)"""
        if verb == b"NOOP":
            return ("ok",)
        if verb == b"QUIT":
            return ("quit",)
        if verb == b"USER":
            if arg == b"":
                return ("err", "empty-user")
            self.user = arg
            return ("ok",)
        if verb == b"PASS":
            if self.user is None:
                return ("err", "pass-before-user")
            if arg == b"":
                return ("err", "empty-pass")
            return ("auth", self.user, arg)
        if verb == b"APOP":
            t = arg.split(b" ", 1)
            if len(t) < 2 or t[0] == b"" or t[1] == b"":
                return ("err", "apop-syntax")
            if b" " in t[1]:
                # more blanks than RFC 1939's "APOP name digest": a server may refuse the line; if it does run the
                # checker, the credentials are the name and everything after the first blank, verbatim
                if t[1].strip(b" ") == b"":
                    raise OutsideDomain("APOP with a blank digest")
                return ("auth_or_err", t[0], t[1])
            return ("auth", t[0], t[1])
        return ("err", "not-authenticated")

    def fd3(self, user, password):
        return user + b"\0" + password + b"\0" + self.challenge + b"\0"
