"""Reference model of qmail-local's interpretation of .qmail files (C13).

Written from dot-qmail(5), qmail-command(8) and qmail-local(8) (plus the facts recorded in
DESIGN.md Appendix B where the manuals are silent); not transcribed from the C.  Bytes everywhere.

The model answers, for one invocation
    qmail-local [-n] user homedir local dash ext domain sender defaultdelivery  < message
what must happen:

  Plan.pre        set of exit codes acceptable because a condition that forbids any delivery holds
                  (home writable by others / sticky, control file writable by others, message already
                  carries this Delivered-To, no control file for an extension address).  The manuals
                  do not order these checks, so when several hold any of their codes is accepted - but
                  no instruction may have been carried out.
  Plan.steps      the instructions in the order they must be carried out, each with its outcome
  Plan.forwards   recipients handed to qmail-queue after every other instruction succeeded
  Plan.exit       final exit code (0, 100, 111) when Plan.pre is empty
  Plan.dash_n     the instruction list `qmail-local -n` describes

Domain (inputs the manuals define; the generator stays inside):
  dash is "" (then ext is "") or "-"; lines start with # | & . / + or a letter/digit; no NUL or CR
  in .qmail; programs exit by themselves with a code (no signals); group-writable (but not
  other-writable) homes and files are left to the build's conf-patrn: `either`.
"""
from collections import namedtuple

HARD_CODES = (100, 64, 65, 70, 76, 77, 78, 112)        # qmail-command(8) EXIT CODES

Step = namedtuple("Step", "kind arg outcome")           # kind: program|mbox|maildir; outcome: ok|stop99|hard|soft
Plan = namedtuple("Plan", "pre pre_n why either_writable control default_env steps forwards newsender exit dash_n "
                          "dash_n_exit dtline rpline_exact ufline_prefix notes")


def lower(b):
    return bytes((c + 32) if 65 <= c <= 90 else c for c in b)


def safe_ext(ext):
    """dot-qmail(5) WARNING: dots become colons, upper case becomes lower case"""
    return lower(ext).replace(b".", b":")


def candidates(dash, ext):
    """control-file names in search order, each with the value of $DEFAULT if it is chosen
    (None = unset).  dot-qmail(5) EXTENSION ADDRESSES: .qmail-ext, then -default files for
    successively shorter prefixes of ext ending at a dash, finally .qmail-default."""
    s = safe_ext(ext)
    out = []
    d = None
    if s.endswith(b"default"):
        d = ext[len(ext) - 7:]        # "the portion corresponding to the default part of the file name"
    out.append((b".qmail" + dash + s, d))
    if dash:
        for i in range(len(s), -1, -1):
            if i == 0 or s[i - 1:i] == b"-":
                out.append((b".qmail" + dash + s[:i] + b"default", ext[i:]))
    return out


class Home:
    """what the model needs to know about the home directory.
    mode: permission bits of the directory; files: path (bytes, relative) -> (kind, mode, content)
    with kind 'f' regular file, 'd' directory."""

    def __init__(self, mode, files):
        self.mode = mode
        self.files = files

    def regular(self, name):
        f = self.files.get(name)
        if f is None or f[0] != "f":
            return None
        return f

    def exists(self, name):
        return name in self.files


def one_line(b):
    return b.replace(b"\n", b"_")


def parse_lines(text):
    """-> list of (kind, arg) with kind in comment|blank|program|forward|mbox|maildir|list|plus.
    dot-qmail(5): trailing spaces and tabs are ignored; a forward line may omit the ampersand."""
    if not text.endswith(b"\n"):
        text += b"\n"
    out = []
    for raw in text.split(b"\n")[:-1]:
        l = raw.rstrip(b" \t")
        if l == b"":
            out.append(("blank", l))
        elif l[:1] == b"#":
            out.append(("comment", l))
        elif l[:1] == b"|":
            out.append(("program", l[1:]))
        elif l[:1] == b"&":
            out.append(("forward", l[1:]))
        elif l[:1] in (b".", b"/"):
            out.append(("maildir" if l.endswith(b"/") else "mbox", l))
        elif l[:1] == b"+":
            out.append(("list" if l == b"+list" else "plus", l))
        else:
            out.append(("forward", l))
    return out


def plan(home, user, local, dash, ext, host, sender, defaultdelivery, message, program_exit, file_ok,
         queue_result=0):
    """program_exit(cmd) -> exit code the command will return; file_ok(kind, path) -> True if that
    mbox/maildir delivery can succeed (False: a temporary failure, e.g. the directory is missing);
    queue_result: 0 accepted, 100 / 111 = qmail-queue refuses permanently / temporarily."""
    pre, pre_n, why = set(), set(), []
    either = False
    # --- SAFE QMAIL EDITING: sticky or other-writable home defers
    if home.mode & 0o002:
        pre.add(111)
        pre_n.add(111)
        why.append("home-writable")
    elif home.mode & 0o020:
        either = True
    if home.mode & 0o1000:
        pre.add(111)                        # (with -n a sticky home only draws a warning)
        why.append("home-sticky")
    # --- qmail-local(8): exactly the same Delivered-To already in the header -> bounce
    dtline = b"Delivered-To: " + one_line(local + b"@" + host) + b"\n"
    for line in message.split(b"\n"):
        if line == b"":
            break                           # end of the header
        if line + b"\n" == dtline:
            pre.add(100)
            why.append("looping")
            break
    # --- control file
    control = None
    default_env = None
    fwdonly = False
    for name, dflt in candidates(dash, ext):
        f = home.regular(name)
        if f is not None:
            control, default_env = name, dflt
            if f[1] & 0o002:
                pre.add(111)
                pre_n.add(111)
                why.append("qmail-writable")
            elif f[1] & 0o020:
                either = True
            fwdonly = bool(f[1] & 0o100)
            break
    if control is None and dash:
        pre.add(100)
        pre_n.add(100)
        why.append("no-mailbox")
    text = home.files[control][2] if control is not None else b""
    if not text:
        text = defaultdelivery              # empty or missing: the administrator's default
        fwdonly = False
    lines = parse_lines(text)
    # --- envelope sender of forwarded copies
    newsender = sender
    if sender not in (b"", b"#@[]"):
        base = b".qmail" + dash + safe_ext(ext)
        if home.exists(base + b"-owner"):
            if home.exists(base + b"-owner-default"):
                newsender = local + b"-owner-@" + host + b"-@[]"
            else:
                newsender = local + b"-owner@" + host
    # --- -n description
    dash_n, dash_n_exit = [], 0
    fo = fwdonly
    nf = nw = np = 0
    for idx, (kind, arg) in enumerate(lines):
        if kind == "blank" and idx == 0:
            dash_n_exit = 111
            break
        if kind in ("mbox", "maildir", "program"):
            if kind == "program":
                np += 1
            else:
                nf += 1
            if fo:
                dash_n_exit = 111
                break
            dash_n.append((kind, arg))
        elif kind == "forward":
            nw += 1
            dash_n.append((kind, arg))
        elif kind == "list":
            fo = True
    if dash_n_exit == 0:
        dash_n.append(("did", b"%d+%d+%d" % (nf, nw, np)))
    # --- real execution
    steps, forwards, code = [], [], 0
    notes = set()
    fo = fwdonly
    for idx, (kind, arg) in enumerate(lines):
        if kind == "blank" and idx == 0:
            code = 111
            notes.add("first-line-blank")
            break
        if kind in ("mbox", "maildir", "program") and fo:
            code = 111                      # executable .qmail / +list: no file or program deliveries
            notes.add("forward-only-violated")
            break
        if kind == "program":
            x = program_exit(arg)
            if x == 0:
                steps.append(Step(kind, arg, "ok"))
            elif x == 99:
                steps.append(Step(kind, arg, "stop99"))
                if forwards:
                    notes.add("exit99-keeps-earlier-forwards")
                if any(k == "forward" for k, _ in lines[idx + 1:]):
                    notes.add("exit99-drops-later-forwards")
                if any(k in ("program", "mbox", "maildir") for k, _ in lines[idx + 1:]):
                    notes.add("exit99-drops-later-deliveries")
                break                       # ignore all succeeding lines, keep previous forwards
            elif x in HARD_CODES:
                steps.append(Step(kind, arg, "hard"))
                code = 100
                break
            else:
                steps.append(Step(kind, arg, "soft"))
                code = 111
                break
        elif kind in ("mbox", "maildir"):
            if file_ok(kind, arg):
                steps.append(Step(kind, arg, "ok"))
            else:
                steps.append(Step(kind, arg, "soft"))
                code = 111
                break
        elif kind == "forward":
            forwards.append(arg)
        elif kind == "list":
            fo = True
    if code != 0:
        if any(k == "forward" for k, _ in lines):
            notes.add("failure-cancels-forwards")
        forwards = []                       # "any error in another type of delivery will prevent all forwarding"
    elif forwards and queue_result:
        code = queue_result
    # --- header lines
    import re
    plain = sender in (b"", b"#@[]") or re.fullmatch(rb"[A-Za-z0-9_=+-]+(\.[A-Za-z0-9_=+-]+)*@[A-Za-z0-9-]+(\.[A-Za-z0-9-]+)*",
                                                      sender) is not None
    rpline_exact = (b"Return-Path: <" + sender + b">\n") if plain else None
    uf = b"From " + (bytes(45 if c in b" \t\n" else c for c in sender) if sender else b"MAILER-DAEMON") + b" "
    return Plan(pre, pre_n, why, either, control, default_env, steps, forwards, newsender, code, dash_n, dash_n_exit,
                dtline, rpline_exact, uf, notes)


def env_expect(user, homedir, local, dash, ext, host, sender, plan_):
    """qmail-command(8) ENVIRONMENT VARIABLES.  Values the manual defines; a key mapped to None
    must be unset; keys that are absent here are not judged (HOSTn / EXTn when HOST / EXT has
    fewer dots / dashes than the variable asks for)."""
    e = {b"SENDER": sender, b"NEWSENDER": plan_.newsender, b"RECIPIENT": local + b"@" + host, b"USER": user,
         b"HOME": homedir, b"HOST": host, b"LOCAL": local, b"EXT": ext, b"DTLINE": plan_.dtline,
         b"DEFAULT": plan_.default_env}
    parts = host.split(b".")
    for n, name in ((1, b"HOST2"), (2, b"HOST3"), (3, b"HOST4")):
        if len(parts) > n:
            e[name] = b".".join(parts[:len(parts) - n])
    parts = ext.split(b"-")
    for n, name in ((1, b"EXT2"), (2, b"EXT3"), (3, b"EXT4")):
        if len(parts) > n:
            e[name] = b"-".join(parts[n:])
    if plan_.rpline_exact is not None:
        e[b"RPLINE"] = plan_.rpline_exact
    return e
