"""Reference SMTP DATA codec (RFC 5321 4.5.2), written from the RFC.  Python twin of
harness/smtpcodec.h, used by the whole-binary monitors (C05, C06, C07)."""


def ref_decode(s, keepdot=False):
    """-> ('ok', decoded, consumed, ambiguous) | ('bare-lf', None, pos, amb) | ('no-terminator', None, len, amb)
    The stream start counts as 'after CR LF'."""
    ls = 0
    out = []
    amb = False
    n = len(s)
    while True:
        j = s.find(b"\n", ls)
        if j < 0:
            return ("no-terminator", None, n, amb)
        if not (j > ls and s[j - 1] == 13):
            return ("bare-lf", None, j, amb)
        line = s[ls:j - 1]
        if line == b".":
            return ("ok", b"".join(out), j + 1, amb)
        if line[:1] == b".":
            family = len(line) >= 2 and line[1] == 13
            if family:
                amb = True
            if not (family and keepdot):
                line = line[1:]
        out.append(line + b"\n")
        ls = j + 1


def ref_encode(msg):
    """a conforming sender for a message whose lines end in LF (final LF required)"""
    out = []
    for line in msg.split(b"\n")[:-1]:
        if line[:1] == b".":
            line = b"." + line
        out.append(line + b"\r\n")
    return b"".join(out) + b".\r\n"


def _strip(b):
    return b.replace(b"\r", b"").replace(b"\n", b"")


def _lf_offsets(b):
    offs = set()
    c = 0
    for ch in b:
        if ch == 10:
            offs.add(c)
        elif ch != 13:
            c += 1
    return offs


def c06_grade(msg, dec):
    """graded comparison original vs reconstruction; returns None or a rule name"""
    if b"\r" not in msg:
        return None if dec == msg else "crfree-not-identical"
    bare = False
    i = msg.find(b"\r")
    while i >= 0:
        if i + 1 >= len(msg) or msg[i + 1] != 10:
            bare = True
            break
        i = msg.find(b"\r", i + 1)
    if not bare:
        return None if dec == msg.replace(b"\r\n", b"\n") else "crlf-input-mismatch"
    if _strip(msg) != _strip(dec):
        return "barecr-content-not-conserved"
    if not _lf_offsets(msg) <= _lf_offsets(dec):
        return "barecr-line-boundary-lost"
    return None


def gen_message(rng, maxlen=6000):
    """hostile message generator: dots at line starts, CRs everywhere, buffer-boundary sizes"""
    cls = rng.randrange(6)
    if cls == 0:
        n = rng.randrange(0, 40)
    elif cls == 1:
        n = rng.randrange(1000, 1060)
    elif cls == 2:
        n = rng.randrange(2030, 2070)
    else:
        n = rng.randrange(0, maxlen)
    w = rng.randrange(3)
    out = bytearray()
    words = [b".", b"..", b"\r", b"\r\n", b"\r.", b"\r.\n", b"\n.", b"\n.\n", b"\n.\r\n", b"\r\r\n", b"\r\n.\r\n",
             b"QUIT\r\n", b"MAIL FROM:<x@y>\r\n", b"From ", b"line\n"]
    while len(out) < n:
        r = rng.random()
        if r < 0.25:
            out += rng.choice(words)
        elif w == 0:
            out += bytes([rng.choice(b"\r\n.a")])
        elif w == 1:
            out += bytes([rng.randrange(256)])
        else:
            out += bytes([rng.choice(b"abcdefghij klmnop\n")])
    out = bytes(out[:n])
    if out and rng.random() < 0.8 and not out.endswith(b"\n"):
        out = out[:-1] + b"\n"
    return out
