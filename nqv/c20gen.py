"""Input generators for C20 (no input corrupts memory): structured seed corpora for the
libFuzzer targets, extreme inputs, a byte-level mutator for the whole-binary smoke runs, a
cdb writer and DNS answer builders.  Everything is a pure function of a random.Random."""
import struct

# ---------------------------------------------------------------------------------- basics

def ns(b):
    return b"%d:" % len(b) + b + b","


TOK = [b"(", b")", b'"', b"\\", b"<", b">", b"@", b",", b";", b":", b"[", b"]", b".", b"\r", b"\n", b"\n ",
       b"\0", b"\xff", b" ", b"%", b"((((((((((", b'"' * 3, b"\\" * 5, b"A" * 300, b"a@b", b"1" * 25,
       b"4294967296", b"2147483648", b"18446744073709551616", b"-1", b"0", b":", b",", b"\r\n", b"\r\n.\r\n",
       b"199999999", b"200000001", b"999:", b"1000:", b"1003:", b"A" * 899, b"A" * 1000]


def mutate(rnd, s):
    """byte-level mutation of a valid session (insert hostile tokens, flip, delete, repeat, truncate)"""
    s = bytearray(s)
    for _ in range(rnd.randint(1, 6)):
        k = rnd.randint(0, 6)
        if k == 0 and s:
            s[rnd.randrange(len(s))] = rnd.randrange(256)
        elif k == 1:
            p = rnd.randint(0, len(s))
            s[p:p] = rnd.choice(TOK)
        elif k == 2 and s:
            p = rnd.randrange(len(s))
            del s[p:p + rnd.randint(1, 8)]
        elif k == 3 and s:
            p = rnd.randrange(len(s))
            q = rnd.randint(p, min(len(s), p + 40))
            s[p:p] = s[p:q] * rnd.randint(1, 30)
        elif k == 4:
            s = s[:rnd.randint(0, len(s))]
        elif k == 5 and s:
            p = rnd.randrange(len(s))
            s[p:p + 1] = rnd.choice(TOK)
        else:
            p = rnd.randint(0, len(s))
            s[p:p] = rnd.choice(TOK) * rnd.randint(1, 2000)
    return bytes(s)


def truncations(s, step=1):
    return [s[:i] for i in range(0, len(s) + 1, step)]


# ---------------------------------------------------------------------------------- sessions

def addr(rnd):
    loc = rnd.choice([b"u", b"user", b"\"q x\"", b"a.b", b"x+y", b"\"a\\\"b\"", b"u" * rnd.choice([1, 63, 64, 200, 880, 895]),
                      b"@r1,@r2:u", b"", b"a\\@b"])
    dom = rnd.choice([b"me.test", b"sub.a.test", b"[127.0.0.1]", b"[1.2.3.4]", b"x.test", b"ME.TEST", b"", b"a" * 300 + b".test"])
    return loc + (b"@" + dom if dom or rnd.random() < 0.5 else b"")


def smtp_session(rnd):
    nl = rnd.choice([b"\r\n", b"\r\n", b"\r\n", b"\n"])
    out = [rnd.choice([b"EHLO c", b"HELO c.test", b"ehlo [1.2.3.4]", b"HELO"])]
    for _ in range(rnd.randint(1, 3)):
        out.append(rnd.choice([b"MAIL FROM:<%s>", b"mail from: %s", b"MAIL FROM:<%s> SIZE=100 BODY=8BITMIME"]) % addr(rnd))
        for _ in range(rnd.randint(0, 4)):
            out.append(rnd.choice([b"RCPT TO:<%s>", b"rcpt to:%s", b"RCPT TO: <%s>"]) % addr(rnd))
        if rnd.random() < 0.8:
            out.append(b"DATA")
            body = [b"Received: by x", b"Subject: s", b"", b".dot", b"..two", b"body"]
            if rnd.random() < 0.3:
                body += [b"Received: x"] * rnd.choice([3, 99, 101])
            if rnd.random() < 0.3:
                body.append(b"x" * rnd.choice([998, 1000, 1024, 5000]))
            if rnd.random() < 0.2:
                body.append(b"bare\rcr")
            out += body
            out.append(b".")
        out.append(rnd.choice([b"RSET", b"NOOP", b"VRFY x", b"HELP", b"XYZZY", b"NOOP " + b"a" * 600]))
    out.append(b"QUIT")
    return nl.join(out) + nl


def qmtp_session(rnd):
    out = b""
    for _ in range(rnd.randint(1, 3)):
        lf = rnd.choice([b"\n", b"\r"])
        body = lf + (b"Subject: s\r\n\r\nb\r\n\r" if lf == b"\r" else b"Subject: s\n\nbody\n")
        rc = b"".join(ns(addr(rnd)) for _ in range(rnd.randint(1, 4)))
        out += ns(body) + ns(addr(rnd)) + ns(rc)
    return out


def qmqp_session(rnd):
    inner = ns(b"Subject: s\n\nbody\n" * rnd.randint(1, 5)) + ns(addr(rnd))
    for _ in range(rnd.randint(0, 4)):
        inner += ns(addr(rnd))
    return ns(inner)


def pop3_session(rnd):
    cmds = [b"STAT", b"LIST", b"LIST 1", b"UIDL", b"UIDL 2", b"TOP 1 1", b"TOP 2", b"RETR 1", b"RETR 3", b"DELE 1", b"DELE 3",
            b"RSET", b"LAST", b"NOOP", b"LIST 0", b"LIST 4", b"DELE 18446744073709551617", b"TOP 1 99999999999999999999",
            b"RETR 0000000001", b"retr 2", b"XYZ", b"TOP", b"LIST  2", b"DELE -1", b"RETR 4294967297"]
    out = [rnd.choice(cmds) for _ in range(rnd.randint(1, 10))]
    if rnd.random() < 0.7:
        out.append(b"QUIT")
    return b"\r\n".join(out) + b"\r\n"


def popup_session(rnd):
    k = rnd.random()
    if k < 0.4:
        s = [b"USER " + rnd.choice([b"joe", b"", b"a" * 200, b"j o e"]), b"PASS " + rnd.choice([b"secret", b"", b"p" * 300])]
    elif k < 0.7:
        s = [b"APOP " + rnd.choice([b"joe 0123456789abcdef0123456789abcdef", b"joe", b"joe  x", b" x"])]
    else:
        s = [rnd.choice([b"NOOP", b"QUIT", b"PASS x", b"STAT", b"USER"]) for _ in range(rnd.randint(1, 4))]
    return b"\r\n".join(s) + b"\r\n"


HDR_FIELDS = [b"From", b"To", b"Cc", b"Bcc", b"Sender", b"Reply-To", b"Resent-To", b"Resent-From", b"Resent-Cc", b"Resent-Bcc",
              b"Return-Path", b"Date", b"Message-ID", b"Subject", b"Mail-Followup-To", b"Apparently-To", b"Errors-To",
              b"Return-Receipt-To", b"Content-Length", b"Notice-Requested-Upon-Delivery-To", b"Received", b"X-Odd"]
ADDR_FORMS = [b"a@b.test", b"\"A B\" <a@b.test>", b"Grp: a@b, c@d;", b"(c) \"q\"@h (c (nested) c)", b"<@r1,@r2:u@h>",
              b"z@[1.2.3.4]", b"a", b"a+", b"a.b.c", b"<>", b"x@y, , z@w", b"\"unterminated", b"(unterminated", b"a@b@c",
              b"<a@b", b"a@[1.2", b"\\", b";", b"::", b"a@b (c)\n d@e", b"\"a\\\nb\"@c", b"a\n\tb@c", b"very." * 50 + b"long@h.test"]


def message(rnd):
    out = []
    for _ in range(rnd.randint(1, 8)):
        f = rnd.choice(HDR_FIELDS)
        v = b", ".join(rnd.choice(ADDR_FORMS) for _ in range(rnd.randint(1, 4)))
        out.append(f + rnd.choice([b": ", b":", b" : ", b":\n "]) + v)
    if rnd.random() < 0.1:
        out.insert(0, b"From someone Thu Jan  1 00:00:00 1970")
    return b"\n".join(out) + b"\n\nbody\n"


def smtp_replies(rnd):
    def rep(code, multi=0):
        t = b""
        for i in range(multi):
            t += b"%d-line %d\r\n" % (code, i)
        return t + b"%d %s\r\n" % (code, rnd.choice([b"ok", b"", b"x" * 600, b"text with \0 nul", b"\xff\xfe"]))
    seq = [rep(rnd.choice([220, 220, 220, 421, 554]), rnd.choice([0, 0, 2])), rep(rnd.choice([250, 250, 500])),
           rep(rnd.choice([250, 250, 451, 550]))]
    for _ in range(4):
        seq.append(rep(rnd.choice([250, 251, 450, 550, 552]), rnd.choice([0, 0, 1, 30])))
    seq += [rep(rnd.choice([354, 354, 451, 554])), rep(rnd.choice([250, 250, 451, 554]))]
    return b"".join(seq)


def reports(rnd, chan_slots):
    out = b""
    for _ in range(rnd.randint(1, 6)):
        dn = rnd.choice([rnd.randrange(chan_slots), rnd.randrange(chan_slots), chan_slots, 255, 0])
        kind = rnd.choice([b"K", b"Z", b"D", b"D", b"X", b""])
        text = rnd.choice([b"did 1+0+0\n", b"Remote host said: 550 no\n", b"a\n\nb\n\n\nc", b"%s %n %%", b"x" * 300,
                           b"Sorry, no mailbox here by that name. (#5.1.1)\n", b"\xff\x01\x7f", b""])
        out += bytes([dn]) + kind + text + b"\0"
    return out


def remote_output(rnd):
    """what qmail-remote prints: recipient reports (r / h / s + text + NUL) then a message report (K / Z / D + text + NUL)"""
    out = b""
    for _ in range(rnd.randint(0, 4)):
        out += rnd.choice([b"r", b"h10.0.0.1 does not like recipient.\nRemote host said: 550 no\n", b"s10.0.0.1 does not like recipient.\n", b"x", b""]) + b"\0"
    out += rnd.choice([b"K10.0.0.1 accepted message.\nRemote host said: 250 ok\n", b"ZConnected but greeting failed.\n", b"DGiving up.\n", b"K", b"Q?", b""])
    if rnd.random() < 0.7:
        out += b"\0"
    if rnd.random() < 0.2:
        out += rnd.choice([b"Ktrailing", b"\0\0", b"D\0Z\0"])
    return out


def local_output(rnd):
    return rnd.choice([b"did 1+0+0\n", b"", b"Sorry, no mailbox here by that name. (#5.1.1)\n", b"text\0after nul", b"x" * 900, b"\xff\n\n"])


def control_file(rnd):
    lines = []
    for _ in range(rnd.randint(0, 8)):
        lines.append(rnd.choice([b"a.test", b".b.test", b"# comment", b"", b"vd.test:prefix", b":smart.test:26", b"x:y:z", b" lead",
                                 b"trail \t ", b"42", b"  77  ", b"99999999999999999999", b"=joe:joe:1000:1000:/home/joe:::",
                                 b"UPPER.Test", b"x" * 300, b"nul\0inside", b":"]))
    return b"\n".join(lines) + rnd.choice([b"\n", b"", b"\n\n"])


def dotqmail(rnd):
    lines = []
    for _ in range(rnd.choice([0, 1, 2, 3, 4, 5, 6, 6, 30])):
        lines.append(rnd.choice([b"#c", b"./Mailbox", b"./Maildir/", b"&a@b.test", b"a@b.test", b"|true", b"|exit 99", b"|exit 100",
                                 b"|exit 111", b"&", b"& a@b", b"+list", b"+x", b".", b"/", b"./" + b"x" * 300, b"&" + b"a" * 1100 + b"@b",
                                 b"|" + b"x" * 2000, b"  ", b"\t", b"&<a@b>", b"&a@b, c@d", b"a b", b"\0", b"&\xff@\xfe", b"./M \t ",
                                 b" a@b.test", b"\ta@b.test", b" &a@b.test", b"  x  ", b" |true", b" ./Mailbox", b"&a@b.test \t", b"./Maildir/ \t"]))
    return b"\n".join(lines) + rnd.choice([b"\n", b"", b"\n\n"])


def envelope(rnd):
    """qmail-queue envelope: F<sender>\\0 (T<recipient>\\0)* \\0"""
    def a():
        return rnd.choice([b"a@b.test", b"a@b.test", b"r@x.test", b"", b"u", b"x" * rnd.choice([100, 996, 997, 998, 999, 1000, 1001, 1002, 1003, 1004, 5000]) + b"@h",
                           b"#@[]", b"a\nb@c", b"\xff@\xfe"])
    k = rnd.random()
    e = b"F" + a() + b"\0"
    for _ in range(rnd.choice([0, 1, 1, 2, 5, 50])):
        e += rnd.choice([b"T"] * 14 + [b"X", b""]) + a() + b"\0"
    e += b"\0"
    if k < 0.15:
        e = e[:rnd.randint(0, len(e))]
    elif k < 0.25:
        e = e[:-1]
    elif k < 0.30:
        e = b"T" + e[1:]
    elif k < 0.35:
        e = e + b"Ttrailing@x\0"
    return e


# ---------------------------------------------------------------------------------- cdb

def cdb_hash(k):
    h = 5381
    for c in k:
        h = ((h + (h << 5)) & 0xffffffff) ^ c
    return h


def cdb_make(pairs):
    """constant database (cdb(3)) from [(key, value)]; duplicates are kept in order"""
    recs = b""
    pos = 2048
    tables = [[] for _ in range(256)]
    for k, v in pairs:
        h = cdb_hash(k)
        tables[h & 255].append((h, pos))
        r = struct.pack("<II", len(k), len(v)) + k + v
        recs += r
        pos += len(r)
    head = b""
    tabs = b""
    for t in tables:
        n = len(t) * 2
        head += struct.pack("<II", pos, n)
        slots = [(0, 0)] * n
        for h, p in t:
            i = (h >> 8) % n
            while slots[i][1]:
                i = (i + 1) % n
            slots[i] = (h, p)
        for h, p in slots:
            tabs += struct.pack("<II", h, p)
        pos += 8 * n
    return head + recs + tabs


def cdb_corrupt(rnd, b):
    if rnd.random() < 0.35:
        return cdb_corrupt_directed(rnd, b)
    b = bytearray(b)
    k = rnd.random()
    if k < 0.25:
        b = b[:rnd.randint(0, len(b))]
    elif k < 0.65:
        for _ in range(rnd.randint(1, 4)):
            if b:
                b[rnd.randrange(len(b))] = rnd.randrange(256)
    elif k < 0.9:
        p = rnd.randrange(0, min(2048, max(4, len(b) - 4)), 4)
        b[p:p + 4] = rnd.choice([b"\xff\xff\xff\xff", b"\0\0\0\0", b"\xff\xff\xff\x7f", struct.pack("<I", max(0, len(b) - 1)),
                                 struct.pack("<I", len(b)), struct.pack("<I", 2048)])
    else:
        if len(b) > 2056:
            p = rnd.randrange(2048, len(b) - 8)
            b[p:p + 4] = rnd.choice([b"\xff\xff\xff\xff", b"\xf0\xff\xff\xff", b"\0\0\0\x80"])
    return bytes(b)


def interesting_length(rnd, L=0):
    """32-bit values at which a length computation done in int, unsigned int or size_t changes its mind"""
    k = rnd.random()
    if k < 0.35:
        return (1 << 32) - rnd.randint(1, 64)
    if k < 0.55:
        return ((1 << 31) + rnd.randint(-40, 40)) & 0xffffffff
    if k < 0.7:
        return max(0, L + rnd.randint(-16, 16))
    return rnd.choice([0, 1, 0xffffffff, 0x7fffffff, 0x80000000, 0xfffffff0, 0xffff, 0x10000, 0xffffff])


def cdb_corrupt_directed(rnd, b):
    """damage the header (key length / data length) of one record, or one hash-table slot, with an interesting length"""
    b = bytearray(b)
    L = len(b)
    if L < 2048 + 8:
        return bytes(b)
    end_records = min(struct.unpack_from("<I", b, 8 * i)[0] for i in range(256))
    recs = []
    p = 2048
    while p + 8 <= min(end_records, L):
        kl, dl = struct.unpack_from("<II", b, p)
        recs.append(p)
        p += 8 + kl + dl
        if len(recs) > 4096:
            break
    if recs and rnd.random() < 0.8:
        p = rnd.choice(recs)
        f = 4 if rnd.random() < 0.7 else 0
        struct.pack_into("<I", b, p + f, interesting_length(rnd, L) & 0xffffffff)
    else:
        p = 4 * rnd.randrange(0, 512)
        struct.pack_into("<I", b, p, interesting_length(rnd, L) & 0xffffffff)
    return bytes(b)


CDB_KEYS = [b"!joe\0", b"!joe-", b"!", b"=joe", b"a.test", b".b.test", b"", b"k" * 40, b"k" * 31, b"k" * 32, b"k" * 33]


def cdb_seed(rnd):
    pairs = [(k, rnd.choice([b"", b"v", b"joe\0" b"1000\0" b"1000\0/home/joe\0-\0ext\0", b"V" * 300])) for k in CDB_KEYS]
    if rnd.random() < 0.5:
        pairs.append((CDB_KEYS[0], b"dup"))
    rnd.shuffle(pairs)
    return cdb_make(pairs)


def cdb_fuzz_input(rnd, db):
    keys = rnd.sample(CDB_KEYS, rnd.randint(1, 7))
    if rnd.random() < 0.3:
        keys[0] = b"absent"
    return bytes([len(keys)]) + b"".join(bytes([len(k)]) + k for k in keys) + db


# ---------------------------------------------------------------------------------- DNS

T_A, T_CNAME, T_PTR, T_MX, T_TXT = 1, 5, 12, 15, 16


def p16(v):
    return struct.pack(">H", v & 0xffff)


def dname(n):
    out = b""
    for l in n.split(b"."):
        if l:
            out += bytes([len(l)]) + l
    return out + b"\0"


def rr(n, t, rdata, rdlen=None, raw_name=None):
    return (raw_name if raw_name is not None else dname(n)) + p16(t) + p16(1) + b"\0\0\1\0" + \
        p16(len(rdata) if rdlen is None else rdlen) + rdata


def dhdr(qd, an, tc=0):
    return p16(0x1234) + bytes([0x81 | (2 if tc else 0), 0x80]) + p16(qd) + p16(an) + p16(0) + p16(0)


def dq(n, t):
    return dname(n) + p16(t) + p16(1)


def dresp(pkt, declared=None, fillpos=None, tail=b""):
    """one scripted answer: declared length D, content length C, fill position F, content.
    The harness builds the packet as content[:F] + zero filler (D - C bytes) + content[F:] (content cut to D if longer)."""
    content = pkt + tail
    d = len(content) if declared is None else declared
    f = len(pkt) if fillpos is None else fillpos
    return p16(d) + p16(len(content)) + p16(f) + content


def dfail(soft):
    return p16(0) + p16(1 if soft else 0) + p16(0)


def dcase(op, host, resps):
    host = host[:255]
    return bytes([op, len(host)]) + host + b"".join(resps)


def sized_answer(total, qname, qtype, final_type, final_rdata, final_rdlen):
    """an answer of exactly `total` bytes: question, a TXT filler record (its rdata is the harness's filler),
    then a final record whose rdlength field says final_rdlen but which carries only final_rdata: the packet
    ends there.  Returned as one scripted answer."""
    h = dhdr(1, 2) + dq(qname, qtype)
    tail = b"\0" + p16(final_type) + p16(1) + b"\0\0\1\0" + p16(final_rdlen) + final_rdata
    fill = total - len(h) - len(tail) - 11
    if fill < 0 or fill > 65535:
        raise ValueError("size")
    head = h + b"\0" + p16(T_TXT) + p16(1) + b"\0\0\1\0" + p16(fill)
    return dresp(head, declared=total, tail=tail)


def dns_boundary_cases():
    """response lengths 511/512/513/65535 with the last record cut after 0..rdlength bytes (deterministic set).
    A length >= 513 fills the first (513-byte) buffer, dns.c asks again with the 64 KB buffer: the answer is scripted twice."""
    out = []
    for total in (511, 512, 513, 65535):
        twice = 2 if total >= 513 else 1
        for remain in range(0, 5):
            r = sized_answer(total, b"host.test", T_A, T_A, b"\x09" * min(remain, 4), 4)
            out.append(("a-%d-remain%d" % (total, remain), dcase(0, b"host.test", [r] * twice)))
        for remain in range(0, 4):
            r = sized_answer(total, b"d.test", T_MX, T_MX, (b"\0\x0a" + b"\0")[:remain], 3)
            out.append(("mx-%d-remain%d" % (total, remain), dcase(1, b"d.test", [r] * twice + [dfail(0)])))
        for remain in (0, 1, 5):
            r = sized_answer(total, b"4.3.2.1.in-addr.arpa", T_PTR, T_PTR, dname(b"ptr.test")[:remain], 10)
            out.append(("ptr-%d-remain%d" % (total, remain), dcase(2, b"", [r] * twice)))
        # truncated-bit answer first, then the sized one
        r = sized_answer(total, b"host.test", T_A, T_A, b"\x09\x09\x09\x09", 4)
        out.append(("tc-%d" % total, dcase(0, b"host.test", [dresp(dhdr(1, 0, tc=1) + dq(b"host.test", T_A)), r])))
    return out


def dns_random_case(rnd):
    host = rnd.choice([b"d.test", b"host.test", b"1.2.3.4", b"[1.2.3.4]", b"", b"a" * 200 + b".test", b"x..y", b"\xff.test"])
    op = rnd.choice([0, 1, 1, 1, 2, 4, 5])
    resps = []
    if (op & 3) in (1, 3):
        n = rnd.randint(0, 5)
        recs = b""
        for i in range(n):
            t = rnd.choice([T_MX, T_MX, T_MX, T_CNAME, T_A, 99])
            if t == T_MX:
                tgt = rnd.choice([dname(b"mx%d.d.test" % i), b"\xc0\x0c", b"\xc0\xff", b"\x3f" + b"a" * 10, dname(b"m" * 63 + b"." + b"n" * 63 + b"." + b"o" * 63 + b"." + b"p" * 60)])
                recs += rr(b"d.test", T_MX, p16(rnd.choice([0, 10, 10, 65535])) + tgt, rdlen=rnd.choice([None, None, None, 0, 2, 3, 65535]))
            elif t == T_A:
                recs += rr(b"d.test", T_A, bytes([10, 0, 0, i]))
            else:
                recs += rr(b"d.test", t, dname(b"c.test"))
        pkt = dhdr(1, rnd.choice([n, n, n + 1, 65535, 0])) + dq(b"d.test", T_MX) + recs
        resps.append(rnd.choice([dresp(pkt), dresp(pkt), dresp(pkt, len(pkt) - rnd.randint(1, 6)), dfail(1), dfail(0)]))
        for i in range(n + 1):
            a = dhdr(1, 2) + dq(b"mx.d.test", T_A) + rr(b"mx.d.test", T_CNAME, dname(b"c.test")) + \
                rr(b"c.test", T_A, bytes([10, 0, i, 1])[:rnd.choice([4, 4, 4, 3, 0])], rdlen=rnd.choice([None, None, 4, 4, 16, 0]))
            resps.append(rnd.choice([dresp(a), dresp(a), dresp(a, len(a) - rnd.randint(1, 5)), dfail(1), dfail(0)]))
    elif (op & 3) == 2:
        pkt = dhdr(1, 2) + dq(b"4.3.2.1.in-addr.arpa", T_PTR) + rr(b"4.3.2.1.in-addr.arpa", T_CNAME, dname(b"x.test")) + \
            rr(b"x.test", T_PTR, rnd.choice([dname(b"ptr.host.test"), b"\xc0\x0c", b"\xc0\x00", b"\x40abc", dname(b"a" * 63 + b"." + b"b" * 63 + b"." + b"c" * 63 + b"." + b"d" * 63)]))
        resps.append(rnd.choice([dresp(pkt), dresp(pkt, len(pkt) - rnd.randint(1, 12)), dfail(1)]))
    else:
        pkt = dhdr(rnd.choice([1, 1, 0, 2, 65535]), rnd.choice([1, 2, 3])) + dq(host or b"h.test", T_A) + \
            rr(b"h.test", T_A, bytes([10, 0, 0, 1])) + rr(b"h.test", T_A, bytes([10, 0, 0, 2]), rdlen=rnd.choice([None, 4, 5, 65535]))
        resps.append(rnd.choice([dresp(pkt), dresp(pkt), dresp(pkt, len(pkt) - rnd.randint(1, 5)), dresp(pkt, 513), dfail(1)]))
        resps.append(dresp(pkt))
    return dcase(op, host, resps)


# ---------------------------------------------------------------------------------- extremes

def extremes(target):
    """deterministic extreme inputs per target (run once each, outside the mutation loop)"""
    E = []
    if target == "smtpd":
        E += [b"MAIL FROM:<" + b"a" * 1000000 + b">\r\n", b"NOOP " + b"x" * 1048576 + b"\r\nQUIT\r\n",
              b"MAIL FROM:<a@b>\r\nRCPT TO:<" + b"\\" * 100000 + b"@me.test>\r\n",
              b"MAIL FROM:<a@b>\r\n" + b"RCPT TO:<u@me.test>\r\n" * 20000 + b"DATA\r\n.\r\n",
              b"MAIL FROM:<a@b>\r\nRCPT TO:<u@me.test>\r\nDATA\r\n" + b"Received: x\r\n" * 150 + b"\r\n.\r\n",
              b"MAIL FROM:<a@b>\r\nRCPT TO:<u@me.test>\r\nDATA\r\n" + b"x" * 2000000 + b"\r\n.\r\n",
              b"MAIL FROM:<" + b'"' * 99999 + b">\r\n", b"HELO " + b"h" * 70000 + b"\r\n", b"\r\n" * 100000]
        for s in (b"EHLO c\r\nMAIL FROM:<a@b.test>\r\nRCPT TO:<u@me.test>\r\nDATA\r\nSubject: s\r\n\r\n.dot\r\nbody\r\n.\r\nQUIT\r\n",):
            E += truncations(s)
    elif target == "qmtpd":
        good = ns(b"\nSubject: s\n\nbody\n") + ns(b"a@b.test") + ns(ns(b"u@me.test") + ns(b"v@sub.a.test"))
        E += truncations(good)
        for n in (b"2147483647", b"2147483648", b"2147483649", b"4294967295", b"4294967296", b"4294967297", b"200000000",
                  b"200000001", b"1999999999", b"2000000009", b"18446744073709551615", b"18446744073709551616", b"9" * 40):
            E += [n + b":\nabc", ns(b"\nhi\n") + n + b":abc", ns(b"\nhi\n") + ns(b"a@b") + n + b":3:a@b,,",
                  ns(b"\nhi\n") + ns(b"a@b") + b"30:" + n + b":a@b,,"]
        E += [ns(b"\n" + b"x" * 1000000) + ns(b"a@b") + ns(ns(b"u@me.test")),
              ns(b"\nhi\n") + ns(b"s" * 999) + ns(ns(b"r" * 999)), ns(b"\nhi\n") + ns(b"s" * 1000) + ns(ns(b"r" * 1000)),
              ns(b"\nhi\n") + ns(b"a@b") + ns(ns(b"u@me.test") * 20000)]
    elif target == "qmqpd":
        good = ns(ns(b"Subject: s\n\nbody\n") + ns(b"a@b.test") + ns(b"u@me.test") + ns(b"v@x.test"))
        E += truncations(good)
        for n in (b"2147483647", b"2147483648", b"2147483649", b"4294967295", b"4294967296", b"200000000", b"200000001",
                  b"2000000009", b"18446744073709551616", b"9" * 40):
            E += [n + b":1:x,", b"999:" + n + b":abc", b"999:1:x," + n + b":abc", b"999:1:x,3:a@b," + n + b":abc"]
        E += [ns(ns(b"x" * 1000000) + ns(b"a@b") + ns(b"u@x")), ns(ns(b"m") + ns(b"s" * 999) + ns(b"r" * 999)),
              ns(ns(b"m") + ns(b"s" * 1000) + ns(b"r" * 1000)), ns(ns(b"m") + ns(b"a@b") + ns(b"u@x") * 20000)]
    elif target == "pop3d":
        E += [b"RETR " + b"9" * 100000 + b"\r\n", b"TOP 1 " + b"9" * 50000 + b"\r\n", b"LIST " + b"0" * 100000 + b"1\r\n",
              b"X" * 1000000 + b"\r\n", b"DELE 1\r\n" * 20000, b"\r\n" * 50000]
        E += truncations(b"STAT\r\nLIST\r\nUIDL 1\r\nTOP 1 1\r\nRETR 2\r\nDELE 3\r\nRSET\r\nQUIT\r\n")
    elif target == "popup":
        E += [b"USER " + b"u" * 1000000 + b"\r\nPASS x\r\n", b"USER u\r\nPASS " + b"p" * 60000 + b"\r\n", b"APOP " + b"a" * 30000 + b" " + b"d" * 30000 + b"\r\n"]
        E += truncations(b"USER joe\r\nPASS secret\r\n") + truncations(b"APOP joe 0123456789abcdef\r\n")
    elif target == "inject822":
        E += [b"To: " + b"a@b, " * 100000 + b"c@d\n\n", b"To: " + b"(" * 10000 + b")" * 10000 + b" a@b\n\n", b"To: " + b"(" * 10000 + b"\n\n",
              b"To: \"" + b"\\\"" * 50000 + b"\"@h\n\n", b"To: " + b"a." * 100000 + b"b@c\n\n", b"To: " + b"<" * 50000 + b"\n\n",
              b"To: " + b"x" * 1048576 + b"\n\n", b"To: a@b\n" + b" folded\n" * 50000 + b"\n", b"To: " + b"g: " * 20000 + b";" * 20000 + b"\n\n",
              b"To: " + b"@a," * 30000 + b":u@h\n\n", b"To: a@[" + b"1" * 100000 + b"]\n\n", b"To: " + b"a@b " * 50000 + b"\n\n",
              b"Subject: " + b"s" * 1000000 + b"\n\n", b"X" * 100000 + b": v\n\n", (b"H%d: v\n" * 1) * 1 + b"".join(b"H%d: v\n" % i for i in range(20000)) + b"\n"]
        E += truncations(b"From: \"A B\" <a@b.test>\nTo: x@y.test, Grp: a@b, c@d;, (c) \"q\"@h (c)\nCc: <@r1,@r2:u@h>\nBcc: z@[1.2.3.4]\n\nbody\n")
    elif target == "remote-smtp":
        E += [b"220 " + b"x" * 1000000 + b"\r\n", b"220-" + b"x" * 6000 + b"\r\n" * 3 + b"220 ok\r\n250 ok\r\n250 ok\r\n250 ok\r\n354 go\r\n250 " + b"y" * 100000 + b"\r\n",
              b"220 ok\r\n250 ok\r\n250 ok\r\n" + (b"550-" + b"z" * 4990 + b"\r\n") * 50 + b"550 no\r\n",
              b"220 ok\r\n250 ok\r\n250 ok\r\n550 " + b"\0" * 5100 + b"\r\n", b"2", b"22", b"220", b"220-", b"220-\n", b"\xff\xff\xff \r\n",
              (b"250-x\r\n" * 100000)]
        E += truncations(b"220 hi\r\n250 ok\r\n250 ok\r\n250 ok\r\n354 go\r\n250 queued\r\n")
    elif target == "send-reports":
        E += [b"\0K" + b"x" * 9990 + b"\0", b"\0D" + b"x" * 9998 + b"\0", b"\0D" + b"x" * 9999 + b"\0", b"\0D" + b"x" * 10000 + b"\0",
              b"\0D" + b"x" * 10001 + b"\0", b"\1Z" + b"y" * 9997 + b"\0", b"\1Z" + b"y" * 9998 + b"\0", b"\1Z" + b"y" * 9999 + b"\0",
              b"\1Z" + b"y" * 20000 + b"\0", b"\0D" + b"\n" * 12000 + b"\0", b"\0D" + b"x" * 1000000 + b"\0", b"\0\0\0\0\0", b"\0K\0" * 30,
              b"".join(bytes([i]) + b"Dfail\0" for i in range(256))]
    elif target == "cdb":
        import random
        r = random.Random(7)
        db = cdb_seed(r)
        keys = bytes([3]) + b"".join(bytes([len(k)]) + k for k in (CDB_KEYS[0], CDB_KEYS[7], b"absent"))
        E += [keys + db[:i] for i in range(0, len(db) + 1, 8)]                 # truncation at every 8-byte boundary
        E += [keys + db[:i] + bytes([db[i] ^ 0xff]) + db[i + 1:] for i in range(0, 2048, 4)]   # every header word damaged
    elif target == "rspawn-report":
        E += [b"", b"r", b"K", b"rK", b"r\0", b"r\0K", b"r\0Kok", b"r\0Kok\0", b"h\0Z", b"s\0D\0", b"r\0r\0r\0K", b"\0", b"\0\0", b"\0K", b"x" * 100000,
              b"r\0" * 30000 + b"Kok\0", b"K" + b"y" * 100000 + b"\0"]
        E += truncations(b"r\0h10.0.0.1 does not like recipient.\nRemote host said: 550 no\n\0K10.0.0.1 accepted message.\n\0")
    elif target == "lspawn-report":
        E += [b"", b"\0", b"x", b"x\0y", b"z" * 100000]
    elif target == "control":
        E += [b"x" * 1000000, b"\n" * 100000, b"a:b\n" * 50000, b"#" * 100000 + b"\n", b" \t" * 50000, b"9" * 100000, b"\0" * 10000]
    return E
