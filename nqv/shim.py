"""Python side of csrc/nqshim.c: clock file, environment, event-log reader, and the
"what the disk forgets" views (DESIGN.md 2.3.4) computed from a recorded event log."""
import json
import mmap
import os
import struct

from . import core

def _world_readable(path):
    """can a process of an arbitrary uid load this file? (every directory o+x, the file o+r)"""
    try:
        if not os.stat(path).st_mode & 0o004:
            return False
        d = os.path.dirname(path)
        while True:
            if not os.stat(d).st_mode & 0o001:
                return False
            if d == "/":
                return True
            d = os.path.dirname(d)
    except OSError:
        return False


def _bindir():
    """directory of the helper binaries (preload object, qq-rec, ql-rec, pw-rec); copied to a world-readable
    scratch directory when the checkout is not (a snapshot below /root, say): the programs under test, and the
    helpers they start, run under several non-root uids"""
    d = os.environ.get("NQV_BIN_DIR")
    if d and os.path.isdir(d):
        return d
    d = os.path.join(core.VERIF, "bin")
    if os.path.isdir(d) and not all(_world_readable(os.path.join(d, f)) for f in os.listdir(d)):
        import shutil
        from . import build
        q = build.mktemp("nqv-bin-")
        os.chmod(q, 0o755)
        for f in os.listdir(d):
            shutil.copy(os.path.join(d, f), os.path.join(q, f))
            os.chmod(os.path.join(q, f), 0o755)
        os.environ["NQV_BIN_DIR"] = d = q
    return d


def tool(name):
    return os.path.join(_bindir(), name)


SHIM = tool("nqshim.so")
T0 = 1700000000


class Clock:
    def __init__(self, path, start=T0):
        self.path = path
        with open(path, "wb") as f:
            f.write(struct.pack("<qQ", start, 0) + b"\0" * 4080)
        os.chmod(path, 0o666)
        self.f = open(path, "r+b")
        self.mm = mmap.mmap(self.f.fileno(), 4096)

    def now(self):
        return struct.unpack("<q", self.mm[:8])[0]

    def set(self, v):
        self.mm[:8] = struct.pack("<q", int(v))

    def advance(self, d):
        self.set(self.now() + int(d))

    def seq(self):
        return struct.unpack("<Q", self.mm[8:16])[0]

    def close(self):
        try:
            self.mm.close()
            self.f.close()
        except Exception:
            pass


def env(clock=None, log=None, trace=None, plan=None, count=None, role=None, passwd=None,
        gate=None, gatecls=None, gateprog=None, readchunk=None, datacap=None):
    e = {"LD_PRELOAD": SHIM}
    if clock:
        e["NQV_CLOCK"] = clock if isinstance(clock, str) else clock.path
    if log:
        e["NQV_LOG"] = log
    if trace:
        e["NQV_TRACE"] = trace
    if plan:
        e["NQV_PLAN"] = plan
    if count:
        e["NQV_COUNT"] = count
    if role:
        e["NQV_ROLE"] = role
    if passwd:
        e["NQV_PASSWD"] = passwd
    if gate:
        e["NQV_GATE"] = gate
        e["NQV_GATECLS"] = gatecls or "m"
        e["NQV_GATEPROG"] = gateprog or "*"
    if readchunk:
        e["NQV_READCHUNK"] = str(readchunk)
    if datacap is not None:
        e["NQV_DATACAP"] = str(datacap)
    return e


def read_log(path):
    evs = []
    if not os.path.exists(path):
        return evs
    with open(path, "rb") as f:
        for line in f:
            try:
                evs.append(json.loads(line))
            except ValueError:
                pass        # a line cut by SIGKILL
    evs.sort(key=lambda e: e.get("q", 0))
    return evs


class DiskModel:
    """Per-inode bookkeeping of bytes written since the last completed fsync, from the
    event log.  Directory operations are synchronous, single-byte overwrites atomic."""

    def __init__(self):
        self.synced = {}      # ino -> synced length
        self.length = {}      # ino -> current length according to the log
        self.overw = {}       # ino -> list of (off, oldbytes) since last fsync

    def feed(self, ev):
        c = ev.get("c")
        if ev.get("inj") in ("kill", "fail"):
            return
        ino = ev.get("ino")
        if c == "open" and ev.get("ret", -1) >= 0 and (ev.get("creat") or ev.get("trunc")):
            if ino is not None and ev.get("size", 0) == 0:
                # a new (or truncated) file: inode numbers are reused, forget the previous owner
                self.synced.pop(ino, None)
                self.length.pop(ino, None)
                self.overw.pop(ino, None)
            return
        if ino is None:
            return
        if c == "write" and ev.get("ret", -1) > 0:
            off, n = ev.get("off", 0), ev["ret"]
            self.synced.setdefault(ino, 0)
            cur = self.length.get(ino, ev.get("size", 0))
            if off < cur and "old" in ev:
                self.overw.setdefault(ino, []).append((off, bytes.fromhex(ev["old"])))
            self.length[ino] = max(cur, off + n)
        elif c in ("fsync", "fdatasync") and ev.get("ret", -1) == 0:
            self.synced[ino] = self.length.get(ino, ev.get("size", 0))
            self.overw.pop(ino, None)
        elif c == "ftruncate" and ev.get("ret", -1) == 0:
            self.length[ino] = ev.get("len", 0)
            self.synced[ino] = min(self.synced.get(ino, 0), ev.get("len", 0))

    def view(self, ino, content, variant, rng=None):
        """content of the file as the disk may return it after a crash"""
        if variant == "keep-all" or ino not in self.synced:
            return content
        s = self.synced.get(ino, 0)
        if variant == "lose-all-unsynced":
            out = bytearray(content[:s])
            for off, old in self.overw.get(ino, []):
                if off + len(old) <= len(out):
                    out[off:off + len(old)] = old
            return bytes(out)
        if variant == "lose-suffix":
            extra = max(0, len(content) - s)
            k = rng.randrange(0, extra) if (rng and extra > 0) else 0
            return content[:s + k]
        return content
