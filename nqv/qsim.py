"""qsim - the queue system as a discrete-event simulation (DESIGN.md 2.6).

Real qmail-send + real qmail-clean + real qmail-queue run in a sandbox home under the
LD_PRELOAD shim.  The controller (this module) plays qmail-lspawn and qmail-rspawn at the
pipe boundary, owns the virtual clock, decides at every select() of the daemon and, in
traced mode, at every filesystem-mutating libc call of every process.  Oracles consume the
event stream online."""
import errno
import fcntl
import json
import os
import select
import signal
import socket
import struct
import termios
import time

from . import core, build, sandbox, shim

SPLIT = 23
QDIRS = ("mess", "intd", "todo", "info", "local", "remote", "bounce")


class DaemonExit(Exception):
    def __init__(self, status):
        self.status = status


class DaemonBlocked(Exception):
    """qmail-send sits in a blocking read() of a spawner's report pipe although nothing is there to read: it no longer
    waits in select, so neither the trigger nor any timer can wake it.  A state read from /proc, not a timing."""


class SimTimeout(core.Inconclusive):
    pass


class Conn:
    def __init__(self, sock):
        self.sock = sock
        self.buf = b""
        self.pid = None
        self.role = "?"
        self.prog = "?"
        self.pending = None     # enter event awaiting a decision


class Cmd:
    __slots__ = ("chan", "delnum", "msgid", "num", "sender", "recip", "vt", "seq", "gen")

    def __init__(self, chan, delnum, msgid, sender, recip, vt, seq):
        self.chan, self.delnum, self.msgid, self.sender, self.recip, self.vt, self.seq = chan, delnum, msgid, sender, recip, vt, seq
        try:
            self.num = int(msgid.split(b"/")[-1])
        except ValueError:
            self.num = -1
        self.gen = 0

    def __repr__(self):
        return "Cmd(%s,%d,%s,%r->%r)" % (self.chan, self.delnum, self.msgid.decode("latin1"), self.sender, self.recip)


def read_noatime(path):
    try:
        fd = os.open(path, os.O_RDONLY | os.O_NOATIME)
    except PermissionError:
        fd = os.open(path, os.O_RDONLY)
    try:
        out = b""
        while True:
            d = os.read(fd, 1 << 20)
            if not d:
                return out
            out += d
    finally:
        os.close(fd)


class Sim:
    """One history.  Methods marked (scenario) are what scenario code calls."""

    def __init__(self, b, controls=None, spawn_limit=(120, 120), gate_m=False, gate_progs=None,
                 trace="m", plan=None, count="m", oracles=(), qq_tee=True, home=None, label="",
                 daemon_env=None, reuse_home=False):
        self.b = b
        self.home = home or build.mktemp("nqv-sim-")
        self.controls = dict(controls or {})
        self.controls.setdefault("me", "local.test")
        self.controls.setdefault("locals", ["local.test"])
        self.spawn_limit = spawn_limit
        self.gate_m = gate_m
        self.gate_progs = gate_progs or ("qmail-send,qmail-clean" if gate_m else "qmail-send")
        self.trace = trace
        self.plan = plan
        self.count = count
        self.oracles = list(oracles)
        self.qq_tee = qq_tee
        self.daemon_env_extra = daemon_env or {}
        self.reuse_home = reuse_home
        self.label = label
        self.events = []
        self.seq = 0
        self.conns = {}
        self.by_pid = {}
        self.daemon = None       # pid
        self.cleaner = None
        self.daemon_conn = None
        self.pending_select = None
        self.prev_idle = False
        self.outstanding = {}    # (chan, delnum) -> Cmd
        self.cmdbuf = {"l": b"", "r": b""}
        self.dlog = b""
        self.gen = {}            # message number -> generation counter (numbers are reused)
        self.steps = 0
        self.selects = 0
        self.quiescent_points = 0
        self.exit_status = None
        self.logpos = 0
        self.alarms = {}         # pid -> virtual deadline
        self.kids = set()        # pids we forked
        self.generation = 0      # daemon incarnation
        self.grants = []         # (role, call, object) granted, for interleaving counting
        self.decide_gate = None  # optional callback(conn, ev) -> decision string (scheduler hook)
        self.inbox = []          # gate messages received but not yet handled
        self.tainted = False     # a stimulus was applied since the last poll was issued
        self.read_budget = {"l": None, "r": None}   # bytes the playing spawner may still read from its command pipe (None = eager)
        self.small_cmd_pipe = False                  # one-page command pipes: a slow spawner makes the daemon's writes partial
        self.after_signal = False
        self.scheduler = None    # object with pick(sim, held) -> (conn, decision); holds every gated m-call
        self.held = []           # conns whose pending call waits for the scheduler
        self.inflight = None     # conn whose released call has not reported its exit yet
        self.procs = {}          # pid -> dict(role=..., kind='inj', ...) for asynchronously started injectors
        self._setup()

    # ------------------------------------------------------------------ setup
    def _setup(self):
        if self.reuse_home:
            # run the daemons on a queue somebody else left behind (C01: post-crash trees of qmail-queue)
            import shutil
            for name in ("qmail-queue", "qmail-clean", "qmail-send"):
                if not os.path.exists(self.home + "/bin/" + name):
                    shutil.copy(self.b.path(name), self.home + "/bin/" + name)
            for k, v in self.controls.items():
                sandbox.write_control(self.home, k, v)
        else:
            sandbox.make_home(self.b, self.home, controls=self.controls,
                              bins=("qmail-queue", "qmail-clean", "qmail-send"))
        self.rec = os.path.join(self.home, "rec")
        os.makedirs(self.rec, exist_ok=True)
        self.clock = shim.Clock(self.home + "/clock.sim" if self.reuse_home else self.home + "/clock")
        self.logfile = self.home + "/evlog"
        open(self.logfile, "wb").close()
        self.gatepath = self.home + "/gate"
        if os.path.exists(self.gatepath):
            os.unlink(self.gatepath)
        self.lsock = socket.socket(socket.AF_UNIX, socket.SOCK_STREAM)
        self.lsock.bind(self.gatepath)
        self.lsock.listen(64)
        self.lsock.setblocking(False)

    def env(self, role, gated=True, plan=None, extra=None, gatecls=None):
        e = shim.env(clock=self.clock, log=self.logfile, trace=self.trace, plan=plan, count=self.count, role=role,
                     gate=self.gatepath if gated else None,
                     gatecls=gatecls or ("mso" if self.gate_m else "s"), gateprog=self.gate_progs, datacap=256)
        if self.qq_tee and role.startswith("send"):
            e["QMAILQUEUE"] = shim.tool("qq-rec")
            e["NQV_REC"] = self.rec
            e["NQV_QQ_PLAN"] = "tee"
        if extra:
            e.update(extra)
        return self.b.env(self.home, e)

    def emit(self, kind, **kw):
        if kind in ("report", "rawreport", "inject", "signal", "clock", "spawner-eof", "start", "spawner-read"):
            self.tainted = True
        self.seq += 1
        ev = dict(kw, kind=kind, seq=self.seq, vt=self.clock.now() - shim.T0)
        self.events.append(ev)
        for o in self.oracles:
            o.on_event(ev, self)
        return ev

    # ------------------------------------------------------------------ processes
    def start_daemons(self, plan=None):
        """(scenario) start qmail-clean and qmail-send"""
        P = {n: os.pipe() for n in ("log", "lcmd", "lrep", "rcmd", "rrep", "creq", "crsp")}
        self.P = P
        self.generation += 1
        plan = plan if plan is not None else self.plan
        # a forked child holds copies of every pipe end until it has closed them; on a loaded machine that can take
        # long enough for a later close_spawner() to go unnoticed by the daemon (no EOF while a copy is open).  The
        # close-on-exec write end of this pipe tells us when both children have exec'd (or died).
        sr, sw = os.pipe()
        cpid = os.fork()
        if cpid == 0:
            try:
                os.dup2(P["creq"][0], 0)
                os.dup2(P["crsp"][1], 1)
                os.closerange(3, sw)
                os.closerange(sw + 1, 1024)
                os.execve(self.home + "/bin/qmail-clean", ["qmail-clean"], self.env("clean", plan=plan))
            finally:
                os._exit(127)
        spid = os.fork()
        if spid == 0:
            try:
                fds = [P["log"][1], P["lcmd"][1], P["lrep"][0], P["rcmd"][1], P["rrep"][0], P["creq"][1], P["crsp"][0]]
                sw2 = os.dup(sw)
                while sw2 < 7:
                    sw2 = os.dup(sw2)
                os.set_inheritable(sw2, False)
                for i, fd in enumerate(fds):
                    os.dup2(fd, 700 + i)
                for i in range(7):
                    os.dup2(700 + i, i)
                os.closerange(7, sw2)
                os.closerange(sw2 + 1, 1024)
                e = self.env("send", plan=plan, extra=self.daemon_env_extra)
                os.execve(self.home + "/bin/qmail-send", ["qmail-send"], e)
            finally:
                os._exit(127)
        os.close(sw)
        while True:
            try:
                if os.read(sr, 1) == b"":
                    break
            except InterruptedError:
                continue
        os.close(sr)
        for n, i in (("log", 1), ("lcmd", 1), ("lrep", 0), ("rcmd", 1), ("rrep", 0), ("creq", 0), ("creq", 1), ("crsp", 0), ("crsp", 1)):
            os.close(P[n][i])
            # the number is free again and will be handed to the next descriptor we open: forget it (see _close_pipes)
            P[n] = (-1, P[n][1]) if i == 0 else (P[n][0], -1)
        for n in ("log", "lcmd", "rcmd"):
            fcntl.fcntl(P[n][0], fcntl.F_SETFL, os.O_NONBLOCK)
        if self.small_cmd_pipe:
            for n in ("lcmd", "rcmd"):
                try:
                    fcntl.fcntl(P[n][0], 1031, 4096)            # F_SETPIPE_SZ: one page
                except OSError:
                    pass
        for n in ("lrep", "rrep"):
            # reports are written while the daemon is held at its select: everything a scenario writes between two
            # quiescent points must fit the pipe, or the controller would block for ever (bursts of long failure
            # texts, oversized garbage frames).  1 MB, and _wreport() refuses to block.
            try:
                fcntl.fcntl(P[n][1], 1031, 1 << 20)          # F_SETPIPE_SZ
            except OSError:
                pass
            fcntl.fcntl(P[n][1], fcntl.F_SETFL, os.O_NONBLOCK)
        os.write(P["lrep"][1], bytes([self.spawn_limit[0]]))
        os.write(P["rrep"][1], bytes([self.spawn_limit[1]]))
        self.daemon, self.cleaner = spid, cpid
        self.kids |= {spid, cpid}
        self.daemon_conn = None
        self.pending_select = None
        self.prev_idle = False
        self.outstanding = {}
        self.cmdbuf = {"l": b"", "r": b""}
        self.exit_status = None
        self.emit("start", generation=self.generation, daemon=spid, cleaner=cpid)

    def _reap(self, block=False):
        """collect exit statuses of our children"""
        while True:
            try:
                pid, st = os.waitpid(-1, 0 if block else os.WNOHANG)
            except ChildProcessError:
                return
            if pid == 0:
                return
            self.kids.discard(pid)
            if pid == self.daemon or pid == self.cleaner:
                # the process is dead, so everything it reported is already in its socket: handle that before the
                # exit is announced (a mark written just before a planned kill must not be lost to the monitors)
                self._final_pump(pid)
            if pid == self.daemon:
                self.exit_status = st
                self.emit("exit", who="send", status=st)
            elif pid == self.cleaner:
                self.emit("exit", who="clean", status=st)
            elif pid in self.procs:
                pr = self.procs[pid]
                pr["alive"] = False
                num = pr.get("num")
                ok = os.WIFEXITED(st) and os.WEXITSTATUS(st) == 0
                if ok and num is not None:
                    self.gen[num] = self.gen.get(num, 0) + 1
                self.emit("inject", status=st, num=num if ok else None, gen=self.gen.get(num, 0) if (ok and num is not None) else 0,
                          msg=pr["msg"], envelope=pr["envelope"], role=pr["role"], pid=pid)
            else:
                self.emit("exit", who="child", pid=pid, status=st)
            if block:
                return

    def _final_pump(self, pid):
        if getattr(self, "_in_final_pump", False):
            return
        self._in_final_pump = True
        try:
            for _ in range(200):
                self._pump(0)
                keep = []
                while self.inbox:
                    c, m = self.inbox.pop(0)
                    if c.pid == pid:
                        self._handle(c, m)
                    else:
                        keep.append((c, m))      # traffic of the living stays queued for the normal loop
                self.inbox.extend(keep)
                if not any(c.pid == pid for c in self.conns.values()):
                    break
        finally:
            self._in_final_pump = False

    # ------------------------------------------------------------------ gate plumbing
    def _accept(self):
        while True:
            try:
                s, _ = self.lsock.accept()
            except (BlockingIOError, InterruptedError):
                return
            s.setblocking(False)
            c = Conn(s)
            self.conns[s.fileno()] = c

    def _read_conn(self, c):
        """-> list of decoded messages; [] ; None on EOF"""
        try:
            d = c.sock.recv(65536)
        except (BlockingIOError, InterruptedError):
            return []
        except ConnectionResetError:
            d = b""
        if not d:
            return None
        c.buf += d
        out = []
        while b"\n" in c.buf:
            line, c.buf = c.buf.split(b"\n", 1)
            try:
                out.append(json.loads(line))
            except ValueError:
                pass
        return out

    def _send(self, c, text):
        try:
            c.sock.sendall(text.encode() + b"\n")
        except OSError:
            pass

    def _pump(self, timeout):
        """wait for gate traffic; appends (conn, msg) to self.inbox.  Connection EOFs are handled."""
        if self.inbox:
            timeout = 0
        self._accept()
        fds = [self.lsock] + [c.sock for c in self.conns.values()]
        try:
            r, _, _ = select.select(fds, [], [], timeout)
        except (InterruptedError, ValueError):
            r = []
        batch = []
        for s in r:
            if s is self.lsock:
                self._accept()
                continue
            c = self.conns.get(s.fileno())
            if c is None:
                continue
            msgs = self._read_conn(c)
            if msgs is None:
                del self.conns[s.fileno()]
                s.close()
                if c is self.daemon_conn:
                    self.daemon_conn = None
                continue
            for m in msgs:
                batch.append((c, m))
        # messages of different processes arrive on different sockets: the shim's global sequence
        # number restores their causal order
        batch.sort(key=lambda cm: cm[1].get("q", 0))
        self.inbox.extend(batch)
        return self.inbox

    def _handle(self, c, m):
        """process one gate message; returns 'select-enter' / 'select-exit' events of the daemon to the caller"""
        call = m.get("c")
        if call == "hello":
            c.pid, c.role, c.prog = m.get("p"), m.get("r"), m.get("g")
            if c.pid == self.daemon:
                self.daemon_conn = c
            return None
        if call == "alarm":
            if m.get("sec"):
                self.alarms[m["p"]] = m.get("deadline")
            else:
                self.alarms.pop(m["p"], None)
            return None
        ph = m.get("ph")
        if call == "select":
            if c.pid != self.daemon:
                # a select of some other gated program: let it poll
                if ph == "enter":
                    self._send(c, "g")
                return None
            return m
        if m.get("inj") == "kill":
            self.emit("sys", ph="killed", **self._sysfields(m, c))
            return None
        if ph == "enter":
            c.pending = m
            ev = self.emit("sys", ph="enter", **self._sysfields(m, c))
            for o in self.oracles:
                o.on_gate(ev, self)
            if self.scheduler is not None and m.get("c") != "openr":
                self.held.append(c)
                return None               # held: the scheduler will release it
            if self.decide_gate:
                dec = self.decide_gate(c, m)
                if dec is None:
                    return None
            else:
                dec = "g"
            self.release(c, dec)
            return None
        if ph == "exit":
            if self.inflight is c:
                self.inflight = None
            self.steps += 1
            if m.get("p") in self.procs and m.get("c") == "link" and m.get("ret") == 0 and (m.get("path2") or "").startswith("queue/mess/"):
                try:
                    self.procs[m["p"]]["num"] = int(m["path2"].split("/")[-1])
                except ValueError:
                    pass
            ev = self.emit("sys", ph="exit", **self._sysfields(m, c))
            for o in self.oracles:
                o.on_step(ev, self)
            return None
        return None

    def sched_step(self):
        """let the scheduler release one held call (if none is in flight); returns True if it did"""
        self.held = [c for c in self.held if c.pending is not None and c.sock.fileno() in self.conns]
        if self.inflight is not None and self.inflight.sock.fileno() not in self.conns:
            self.inflight = None
        if self.scheduler is None or not self.held or self.inflight is not None:
            return False
        c, dec = self.scheduler.pick(self, self.held)
        if c is None:
            return False
        self.held.remove(c)
        if dec == "g":
            self.inflight = c
        self.release(c, dec)
        return True

    def release(self, c, dec="g"):
        m = c.pending
        c.pending = None
        if m is not None:
            self.grants.append((c.role, m.get("c"), self._obj(m)))
        self._send(c, dec)

    @staticmethod
    def _obj(m):
        p = m.get("path2") or m.get("path") or ""
        parts = p.replace(" (deleted)", "").split("/")
        if len(parts) >= 2 and parts[0] == "queue":
            return parts[1]
        return parts[0] if parts else ""

    @staticmethod
    def _sysfields(m, c):
        f = {k: m[k] for k in ("c", "path", "path2", "fd", "off", "len", "data", "old", "ret", "err", "ino", "size",
                               "creat", "trunc", "excl", "flags", "n2", "inj", "atime", "mtime") if k in m}
        f["pid"] = m.get("p")
        f["role"] = m.get("r")
        f["prog"] = m.get("g")
        return f

    # ------------------------------------------------------------------ the daemon's life
    def _drain(self):
        for key, name in (("l", "lcmd"), ("r", "rcmd")):
            try:
                while True:
                    want = 65536
                    if self.read_budget[key] is not None:
                        want = min(want, self.read_budget[key])
                        if want <= 0:
                            break
                    d = os.read(self.P[name][0], want)
                    if not d:
                        break
                    if self.read_budget[key] is not None:
                        self.read_budget[key] -= len(d)
                    self.cmdbuf[key] += d
            except (BlockingIOError, OSError):
                pass
            buf = self.cmdbuf[key]
            while buf[1:].count(b"\0") >= 3:        # (the delivery number itself may be a zero byte)
                dn = buf[0]
                mid, snd, rcp, rest = buf[1:].split(b"\0", 3)
                buf = rest
                cmd = Cmd(key, dn, mid, snd, rcp, self.clock.now() - shim.T0, self.seq + 1)
                cmd.gen = self.gen.get(cmd.num, 0)
                dup = (key, dn) in self.outstanding
                self.emit("cmd", cmd=cmd, chan=key, delnum=dn, msgid=mid, sender=snd, recip=rcp, delnum_in_use=dup)
                self.outstanding[(key, dn)] = cmd
            self.cmdbuf[key] = buf
        try:
            while True:
                d = os.read(self.P["log"][0], 65536)
                if not d:
                    break
                self.dlog += d
        except (BlockingIOError, OSError):
            pass

    def _daemon_gone(self):
        self._reap()
        if self.exit_status is not None:
            self._drain()
            raise DaemonExit(self.exit_status)

    def _next_daemon_select(self, want, wall=120.0):
        """pump until the daemon's select 'enter' or 'exit' message arrives"""
        t_end = time.time() + wall
        t_next_probe = time.time() + 3.0
        blocked = 0
        while True:
            self._pump(0.002 if self.scheduler is not None else 0.05)
            while self.inbox:
                c, m = self.inbox.pop(0)
                r = self._handle(c, m)
                if r is not None and r.get("ph") == want:
                    return r
            self._daemon_gone()
            self._drain()           # keep the daemon's command and log pipes empty: it must never block on them
            if self.scheduler is not None and not self.inbox:
                if self.sched_step():
                    continue
                if self.inflight is not None:
                    # the released call has not returned: the process is blocked in it (flock, full pipe) or was killed
                    self.inflight_wait = getattr(self, "inflight_wait", 0) + 1
                    if self.inflight_wait > 40:
                        self.inflight = None
                        self.inflight_wait = 0
                else:
                    self.inflight_wait = 0
            if time.time() > t_next_probe:
                t_next_probe = time.time() + 1.5
                st = self._daemon_syscall()
                if st is not None and st[0] == 0 and st[1] in (2, 4) and not self._report_pipe_readable(st[1]):
                    blocked += 1
                    if blocked >= 4:
                        raise DaemonBlocked("qmail-send has been inside read(fd %d) - the %s spawner's report pipe, which is empty - for %d "
                                            "probes instead of waiting in select" % (st[1], "local" if st[1] == 2 else "remote", blocked))
                else:
                    blocked = 0
            if time.time() > t_end:
                raise SimTimeout("daemon did not reach select (%s) within %.0fs; log tail: %r" % (want, wall, self.dlog[-300:]))

    def _daemon_syscall(self):
        """(number, first argument) of the system call qmail-send is blocked in, or None"""
        try:
            with open("/proc/%d/syscall" % self.daemon) as f:
                t = f.read().split()
            if not t or t[0] in ("running", "-1"):
                return None
            return int(t[0]), int(t[1], 16)
        except (OSError, ValueError, IndexError):
            return None

    def _report_pipe_readable(self, fd):
        """has the controller written anything into that report pipe that the daemon has not read yet?"""
        import array
        a = array.array("i", [0])
        try:
            fcntl.ioctl(self.P["lrep" if fd == 2 else "rrep"][1], termios.FIONREAD, a)
        except OSError:
            return True
        return a[0] > 0

    def run_until_quiescent(self, max_selects=4000):
        """(scenario) let the system run until the daemon would sleep: returns the select
        'enter' event (daemon is left blocked at it).  Raises DaemonExit when it exits."""
        n = 0
        while True:
            if self.pending_select is None:
                self.pending_select = self._next_daemon_select("enter")
            ent = self.pending_select
            self._drain()
            if self.prev_idle and ent.get("T", 0) > 0:
                self.prev_idle = False
                self.quiescent_points += 1
                q = self.emit("quiesce", T=ent.get("T"), rd=ent.get("rd"), wr=ent.get("wr"),
                              outstanding=len(self.outstanding))
                for o in self.oracles:
                    o.on_quiesce(q, self)
                return ent
            # poll
            self.pending_select = None
            self.selects += 1
            n += 1
            if n > max_selects:
                raise SimTimeout("more than %d selects without reaching a quiescent point" % max_selects)
            self.emit("select", T=ent.get("T"), rd=ent.get("rd"), wr=ent.get("wr"))
            # a poll issued after a stimulus (clock step, report, signal, injection) does not prove
            # idleness: the daemon may do timed work right after it.  Only a poll that returned 0
            # with T > 0 and with nothing changed since the poll before it makes the NEXT select a
            # quiescent point.
            tainted = self.tainted
            self.tainted = False
            late = getattr(self, "late_signal", None)
            if late:
                self.late_signal = None
                self.emit("signal", sig=late, after_select=True)
                self._send(self.daemon_conn, "g sig=%d" % int(getattr(signal, "SIG" + late)))
            else:
                self._send(self.daemon_conn, "g")
            ex = self._next_daemon_select("exit")
            self.emit("selret", ret=ex.get("ret"), err=ex.get("err"), T=ent.get("T"))
            self.prev_idle = (ex.get("ret") == 0 and ent.get("T", 0) > 0 and not tainted)
            self._drain()
            if getattr(self, "after_signal", False):
                self.after_signal = False
                if ex.get("ret") == 0 and ent.get("T", 0) > 0:
                    # our zero-timeout poll lets the daemon go round once more as if the timeout had expired; the real
                    # select would have slept: the monitors judge this sleep request like a quiescent point (a daemon
                    # that acts on a signal only at its next wake-up is otherwise invisible here; seed c16-s6)
                    q = self.emit("quiesce", T=ent.get("T"), rd=ent.get("rd"), wr=ent.get("wr"), outstanding=len(self.outstanding),
                                  after_signal=True)
                    for o in self.oracles:
                        o.on_quiesce(q, self)

    # ------------------------------------------------------------------ stimuli (scenario)
    def report(self, cmd, text, raw=False):
        """answer a delivery command: text like b'Kok\\n' (delnum prefix and NUL added unless raw)"""
        data = text if raw else bytes([cmd.delnum]) + text + b"\0"
        if cmd is not None and not raw:
            self.outstanding.pop((cmd.chan, cmd.delnum), None)
        chan = cmd.chan if cmd is not None else "l"
        self.emit("report", cmd=cmd, chan=chan, delnum=cmd.delnum if cmd else None, text=text, raw=raw)
        self._wreport(chan, data)

    def raw_report_bytes(self, chan, data):
        self.emit("rawreport", chan=chan, data=data)
        self._wreport(chan, data)

    def _wreport(self, chan, data):
        fd = self.P["lrep" if chan == "l" else "rrep"][1]
        mv = memoryview(data)
        while len(mv):
            try:
                n = os.write(fd, mv)
            except BlockingIOError:
                raise core.Inconclusive("report pipe of channel %s is full (%d bytes pending): the scenario writes more between two "
                                        "quiescent points than a pipe holds" % (chan, len(mv)))
            mv = mv[n:]

    def inject(self, msg, envelope, role="inj", uid=None, plan=None):
        """(scenario) run one qmail-queue to completion (daemon is blocked at its select meanwhile)"""
        e = self.env(role, gated=False, plan=plan)
        e2 = {k: v for k, v in e.items() if k != "NQV_HOME"}
        before = set(os.listdir(self.home + "/queue/todo"))
        st = sandbox.inject(self.b, self.home, msg, envelope, env_extra=e2, as_uid=uid)
        after = set(os.listdir(self.home + "/queue/todo"))
        new = sorted(after - before)
        num = int(new[0]) if len(new) == 1 else None
        if num is not None:
            self.gen[num] = self.gen.get(num, 0) + 1
        self.emit("inject", status=st, num=num, gen=self.gen.get(num, 0) if num is not None else 0, msg=msg, envelope=envelope, role=role)
        return st, num

    def start_injector(self, msg, envelope, role, uid=None):
        """(scenario) start a qmail-queue that runs concurrently under the scheduler; input comes from files"""
        d = os.path.join(self.home, "injin")
        os.makedirs(d, exist_ok=True)
        k = len(self.procs)
        mf, ef = os.path.join(d, "m%d" % k), os.path.join(d, "e%d" % k)
        with open(mf, "wb") as f:
            f.write(msg)
        with open(ef, "wb") as f:
            f.write(envelope)
        e = self.env(role, gated=True)
        e["NQV_GATEPROG"] = self.gate_progs
        sr, sw = os.pipe()                 # see start_daemons: wait until the child has let go of our descriptors
        pid = os.fork()
        if pid == 0:
            try:
                a = os.open(mf, os.O_RDONLY)
                b_ = os.open(ef, os.O_RDONLY)
                os.dup2(a, 0)
                os.dup2(b_, 1)
                os.closerange(3, sw)
                os.closerange(sw + 1, 1024)
                os.execve(self.home + "/bin/qmail-queue", ["qmail-queue"], e)
            finally:
                os._exit(127)
        os.close(sw)
        while True:
            try:
                if os.read(sr, 1) == b"":
                    break
            except InterruptedError:
                continue
        os.close(sr)
        self.kids.add(pid)
        self.procs[pid] = {"role": role, "msg": msg, "envelope": envelope, "alive": True, "num": None}
        self.emit("inj-start", pid=pid, role=role)
        return pid

    def live_injectors(self):
        return [p for p, d in self.procs.items() if d["alive"]]

    def signal(self, name):
        sig = getattr(signal, "SIG" + name)
        self.emit("signal", sig=name)
        try:
            os.kill(self.daemon, sig)
        except ProcessLookupError:
            pass
        if self.pending_select is not None:
            # the daemon is "sleeping" in our gate: the shim reports EINTR like the real select would
            try:
                ex = self._next_daemon_select("exit", wall=30)
                self.emit("selret", ret=ex.get("ret"), err=ex.get("err"), T=self.pending_select.get("T"))
            except DaemonExit:
                raise
            self.pending_select = None
            self.prev_idle = False
            # the select that follows is a new one, not the interrupted one: if it asks for a positive timeout and nothing is
            # readable, the daemon really goes to sleep for that long (see run_until_quiescent)
            self.after_signal = True

    def unread_commands(self, chan):
        """bytes waiting in the command pipe of a channel (the playing spawner has not read them yet)"""
        import array, termios
        a = array.array("i", [0])
        try:
            fcntl.ioctl(self.P["lcmd" if chan == "l" else "rcmd"][0], termios.FIONREAD, a)
        except OSError:
            return 0
        return a[0]

    def feed_spawner(self, chan, nbytes):
        """(scenario) a slow spawner reads up to nbytes more of its command pipe"""
        self.read_budget[chan] = (self.read_budget[chan] or 0) + nbytes
        self.emit("spawner-read", chan=chan, n=nbytes)
        self._drain()

    def signal_late(self, name):
        """(scenario) the signal reaches the daemon just after its next select has returned, i.e. while it is NOT inside
        select: no EINTR, only the handler's flag (seed c15-s8)"""
        self.late_signal = name

    def advance(self, dt):
        self.set_time(self.clock.now() + int(dt))

    def set_time(self, t):
        old = self.clock.now()
        self.clock.set(t)
        self.emit("clock", frm=old - shim.T0, to=t - shim.T0)
        for pid, dl in list(self.alarms.items()):
            if dl and t >= dl:
                del self.alarms[pid]
                try:
                    os.kill(pid, signal.SIGALRM)
                    self.emit("virtual-alarm", pid=pid)
                    for _ in range(400):
                        self._reap()
                        if pid not in self.kids:
                            break
                        time.sleep(0.005)
                except ProcessLookupError:
                    pass

    def close_spawner(self, chan):
        n = "lrep" if chan == "l" else "rrep"
        fd = self.P[n][1]
        err = None
        try:
            if fd >= 0:
                os.close(fd)
        except OSError as e:
            err = e.errno
        # never close this number again (_close_pipes): it may have been given to another descriptor by then
        self.P[n] = (self.P[n][0], -1)
        self.emit("spawner-eof", chan=chan, fd=fd, err=err)

    def kill_daemons(self, who=("send", "clean")):
        """(scenario) SIGKILL the daemon and/or the cleaner and collect them"""
        self.emit("crash", who=list(who))
        for w, pid in (("send", self.daemon), ("clean", self.cleaner)):
            if w in who and pid in self.kids:
                try:
                    os.kill(pid, signal.SIGKILL)
                except ProcessLookupError:
                    pass
        self._close_pipes()
        self._wait_all()

    def _close_pipes(self):
        for n, (a, b_) in getattr(self, "P", {}).items():
            for fd in (a, b_):
                try:
                    if fd >= 0:
                        os.close(fd)
                except OSError:
                    pass
            self.P[n] = (-1, -1)
        for c in list(self.conns.values()):
            try:
                c.sock.close()
            except OSError:
                pass
        self.conns = {}
        self.daemon_conn = None
        self.pending_select = None

    def _wait_all(self, wall=20.0):
        t_end = time.time() + wall
        while self.kids and time.time() < t_end:
            self._reap()
            if self.kids:
                self._pump(0.01)
                self.inbox = []
        for pid in list(self.kids):
            try:
                os.kill(pid, signal.SIGKILL)
            except ProcessLookupError:
                pass
        while self.kids:
            try:
                pid, st = os.waitpid(-1, 0)
                self.kids.discard(pid)
            except ChildProcessError:
                self.kids.clear()

    def wait_exit(self, wall=60.0):
        """(scenario) after TERM: run until the daemon exits; returns its status"""
        try:
            t_end = time.time() + wall
            while time.time() < t_end:
                self.run_until_quiescent()
                # still alive and idle: it is waiting for outstanding deliveries
                return None
        except DaemonExit as e:
            return e.status
        return None

    def teardown(self):
        self._drain_safe()
        for pid in list(self.kids):
            try:
                os.kill(pid, signal.SIGKILL)
            except ProcessLookupError:
                pass
        self._close_pipes()
        self._wait_all(5)
        try:
            self.lsock.close()
        except OSError:
            pass
        self.clock.close()
        if getattr(self, "keep_log", False):
            self.final_log = shim.read_log(self.logfile)
        if not os.environ.get("NQV_KEEP_HOMES") and not self.reuse_home:
            import shutil
            shutil.rmtree(self.home, ignore_errors=True)

    def _drain_safe(self):
        try:
            self._drain()
        except Exception:
            pass

    # ------------------------------------------------------------------ observation helpers
    def vnow(self):
        return self.clock.now()

    def qpath(self, *p):
        return os.path.join(self.home, "queue", *p)

    def scan(self):
        """full directory scan: {num: set(dirs)} plus pid files"""
        out = {}
        q = self.home + "/queue"
        for d in ("intd", "todo", "bounce"):
            for f in os.listdir(os.path.join(q, d)):
                out.setdefault(f, set()).add(d)
        for d in ("mess", "info", "local", "remote"):
            for s in os.listdir(os.path.join(q, d)):
                for f in os.listdir(os.path.join(q, d, s)):
                    out.setdefault(f, set()).add(d)
                    if int(f) % SPLIT != int(s) if f.isdigit() else True:
                        out.setdefault(f, set()).add("WRONGSPLIT:" + d)
        return out

    def pattern_of(self, num):
        q = self.home + "/queue"
        s = set()
        n = str(num)
        sub = str(int(num) % SPLIT)
        for d in ("intd", "todo", "bounce"):
            if os.path.lexists(os.path.join(q, d, n)):
                s.add(d)
        for d in ("mess", "info", "local", "remote"):
            if os.path.lexists(os.path.join(q, d, sub, n)):
                s.add(d)
        return s

    def read_recs(self):
        """records written by qq-rec for the daemon's own injections: list of dicts"""
        out = []
        for f in sorted(os.listdir(self.rec)):
            if f.endswith(".msg"):
                base = os.path.join(self.rec, f[:-4])
                try:
                    meta = dict(l.strip().split("=", 1) for l in open(base + ".meta") if "=" in l)
                    out.append({"msg": open(base + ".msg", "rb").read(), "env": open(base + ".env", "rb").read(),
                                "pid": int(meta.get("pid", 0)), "base": base, "plan": meta.get("plan", "")})
                except (OSError, ValueError):
                    pass
        return out

    def syslog(self):
        """events from the shim's log file that arrived since the last call (ungated programs)"""
        out = []
        try:
            with open(self.logfile, "rb") as f:
                f.seek(self.logpos)
                data = f.read()
        except OSError:
            return out
        nl = data.rfind(b"\n")
        if nl < 0:
            return out
        self.logpos += nl + 1
        for line in data[:nl].split(b"\n"):
            try:
                out.append(json.loads(line))
            except ValueError:
                pass
        out.sort(key=lambda e: e.get("q", 0))
        return out


class Oracle:
    property_id = "C00"

    def __init__(self, res):
        self.res = res

    def on_event(self, ev, sim):
        pass

    def on_gate(self, ev, sim):
        pass

    def on_step(self, ev, sim):
        pass

    def on_quiesce(self, ev, sim):
        pass

    def at_end(self, sim):
        pass
