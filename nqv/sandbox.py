"""Sandbox qmail homes (DESIGN.md 2.2).  The queue tree is created by the scratch tree's own
`instpackage queue-only` (i.e. by hier.c of the tree under test)."""
import os
import pwd
import grp
import shutil
import subprocess

from . import core, build as _build

# accounts substituted in conf-users (order: alias daemon log owner passwd queue remote send)
USERS = dict(zip("adlopqrs", ["games", "daemon", "lp", "root", "proxy", "mail", "news", "uucp"]))
GROUPS = {"q": "mail", "n": "nogroup"}


def uid(letter):
    return pwd.getpwnam(USERS[letter]).pw_uid


def gid(letter):
    return grp.getgrnam(GROUPS[letter]).gr_gid


def make_home(b, home, controls=None, bins=("qmail-queue", "qmail-clean", "qmail-send"),
              queue=True, chown=False):
    """Create $home with control files and (optionally) a queue; copy the listed programs
    from the scratch build into bin/."""
    if os.path.exists(home):
        shutil.rmtree(home)
    os.makedirs(home + "/control")
    os.makedirs(home + "/bin")
    os.makedirs(home + "/users")
    os.makedirs(home + "/alias")
    os.chmod(home, 0o755)
    if queue:
        p = subprocess.run([b.path("instpackage"), "queue-only"], env=b.env(home), capture_output=True)
        if p.returncode != 0 or not os.path.exists(home + "/queue/lock/trigger"):
            raise core.Inconclusive("instpackage queue-only failed: %r" % (p.stderr[-500:],))
        if chown:
            chown_queue(home)
    for name in bins:
        shutil.copy(b.path(name), home + "/bin/" + name)
    for k, v in (controls or {"me": "local.test"}).items():
        write_control(home, k, v)
    return home


def chown_queue(home):
    q, s, r, gq = uid("q"), uid("s"), uid("r"), gid("q")
    own = {"queue": q, "queue/pid": q, "queue/intd": q, "queue/todo": q, "queue/bounce": s,
           "queue/lock": q, "queue/lock/tcpto": r, "queue/lock/sendmutex": s, "queue/lock/trigger": s}
    for p, u in own.items():
        os.chown(os.path.join(home, p), u, gq)
    for base, u in (("mess", q), ("info", s), ("local", s), ("remote", s)):
        os.chown(os.path.join(home, "queue", base), u, gq)
        for d in os.listdir(os.path.join(home, "queue", base)):
            os.chown(os.path.join(home, "queue", base, d), u, gq)


def write_control(home, name, value):
    p = os.path.join(home, "control", name)
    if value is None:
        if os.path.exists(p):
            os.unlink(p)
        return
    if isinstance(value, (list, tuple)):
        value = b"".join((x if isinstance(x, bytes) else x.encode("latin1")) + b"\n" for x in value)
    elif isinstance(value, str):
        value = value.encode("latin1") + b"\n"
    elif isinstance(value, int):
        value = b"%d\n" % value
    with open(p, "wb") as f:
        f.write(value)


def queue_files(home):
    """every regular file below queue/ except the lock files, as relative paths"""
    out = []
    q = os.path.join(home, "queue")
    for r, ds, fs in os.walk(q):
        for f in fs:
            rel = os.path.relpath(os.path.join(r, f), q)
            if rel.startswith("lock/"):
                continue
            out.append(rel)
    return sorted(out)


def inject(b, home, msg, envelope, env_extra=None, as_uid=None, timeout=30):
    """run the real qmail-queue with msg on fd 0 and envelope on fd 1; returns exit status"""
    r0, w0 = os.pipe()
    r1, w1 = os.pipe()
    env = b.env(home, env_extra)
    pid = os.fork()
    if pid == 0:
        try:
            os.dup2(r0, 0)
            os.dup2(r1, 1)
            os.closerange(3, 1024)
            if as_uid is not None:
                os.setgroups([])
                os.setgid(gid("q"))
                os.setuid(as_uid)
            os.execve(home + "/bin/qmail-queue", ["qmail-queue"], env)
        finally:
            os._exit(127)
    os.close(r0)
    os.close(r1)
    # message and envelope may exceed the pipe capacity: feed from a helper thread
    import threading

    def feed(fd, data):
        try:
            mv = memoryview(data)
            while len(mv):
                n = os.write(fd, mv[:65536])
                mv = mv[n:]
        except OSError:
            pass
        finally:
            os.close(fd)
    t0 = threading.Thread(target=feed, args=(w0, msg))
    t1 = threading.Thread(target=feed, args=(w1, envelope))
    t0.start()
    t1.start()
    _, st = os.waitpid(pid, 0)
    t0.join()
    t1.join()
    return st
