"""Parallel runner for seeded daemon histories with a given oracle set."""
import time
import traceback

from . import core, build, histories, oracles, qsim


def worker(prop, bdir, variant, lo, hi, profile_kw, oracle_names, salt, plan_fn=None):
    res = core.Result()
    b = build.Build(variant, bdir)
    ocs = [getattr(oracles, n) for n in oracle_names]
    for i in range(lo, hi):
        rng = core.case_rng(prop, i, salt)
        prof = histories.Profile(**profile_kw)
        label = "%s-%s-%d-%d" % (prop, salt, core.seed(), i)
        h = None
        for attempt in (0, 1):
            try:
                rng = core.case_rng(prop, i, salt)
                h = histories.History(b, rng, res, prof, oracle_classes=ocs, label=label)
                h.run()
                break
            except qsim.SimTimeout as e:
                if attempt == 1:
                    res.inconclusive.append("history %s: %s" % (label, str(e)[:300]))
            except core.Inconclusive as e:
                res.inconclusive.append("history %s: %s" % (label, str(e)[:300]))
                break
            except Exception:
                res.inconclusive.append("history %s: harness exception %s" % (label, traceback.format_exc()[-800:]))
                break
        res.evaluations += 1
        if h is not None:
            sim = h.sim
            res.counters.inc("quiescent_points", sim.quiescent_points)
            res.counters.inc("gated_steps", sim.steps)
            res.counters.inc("selects", sim.selects)
            res.counters.inc("crashes", h.crashes)
            kinds = {}
            for e in sim.events:
                kinds[e["kind"]] = kinds.get(e["kind"], 0) + 1
            d = res.counters.setdefault("events_by_kind", {})
            for k, v in kinds.items():
                d[k] = d.get(k, 0) + v
            ncmd = kinds.get("cmd", 0)
            if ncmd:
                # distinct: the sequence of boundary events (commands and reports with their kinds)
                sig = tuple((e["kind"], e.get("chan"), (e.get("text") or b"")[:1] if e["kind"] == "report" else e.get("sig"))
                            for e in sim.events if e["kind"] in ("cmd", "report", "signal", "crash", "inject", "clock"))
                res.nontrivial(sig)
            if i % 50 == 0 or len(res.samples) < 1:
                res.sample({"history": label, "lifetime": h.lifetime, "conc": h.conc, "spawn": h.spawn,
                            "boundary_events": [("%s %s %s" % (e["kind"], e.get("chan", ""), core.hx((e.get("text") or b"")[:12]) if e["kind"] == "report" else core.hx(e.get("recip", b"")) if e["kind"] == "cmd" else e.get("sig", "")))
                                                for e in sim.events if e["kind"] in ("cmd", "report", "signal", "crash", "inject", "clock", "restart")][:40]}, cap=2)
    return res


def run(prop, b, n, profile_kw, oracle_names, salt="h", jobs=None, timeout=3000):
    parts = [(prop, b.dir, b.variant, lo, hi, profile_kw, oracle_names, salt) for lo, hi in core.chunks(n, 64)]
    return core.pmap(worker, parts, jobs=jobs, timeout=timeout)
