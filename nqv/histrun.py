"""Parallel runner for seeded daemon histories with a given oracle set."""
import time
import traceback

from . import core, build, histories, oracles, qsim


def hist_class(profile_kw):
    if profile_kw.get("directed") == "restart-fault":
        return histories.RestartFaultHistory
    if profile_kw.get("directed") == "cleaner-fault":
        return histories.CleanerFaultHistory
    if profile_kw.get("conc_injectors"):
        from . import conchist
        return conchist.ConcHistory
    return histories.History


def worker(prop, bdir, variant, lo, hi, profile_kw, oracle_names, salt, plan_fn=None):
    res = core.Result()
    b = build.Build(variant, bdir)
    ocs = [getattr(oracles, n) for n in oracle_names]
    for i in range(lo, hi):
        if len(res.violations) >= 8:
            break                      # enough witnesses from this worker
        rng = core.case_rng(prop, i, salt)
        prof = histories.Profile(**profile_kw)
        label = "%s-%s-%d-%d" % (prop, salt, core.seed(), i)
        h = None
        for attempt in (0, 1):
            try:
                rng = core.case_rng(prop, i, salt)
                h = hist_class(profile_kw)(b, rng, res, prof, oracle_classes=ocs, label=label)
                h.run()
                break
            except qsim.DaemonBlocked as e:
                res.violate("C16/daemon-blocked-outside-select", str(e), h.witness() if h is not None else {"history": label})
                try:
                    h.sim.teardown()
                except Exception:
                    pass
                break
            except qsim.SimTimeout as e:
                if attempt == 1:
                    res.inconclusive.append("history %s: %s" % (label, str(e)[:300]))
            except core.Inconclusive as e:
                res.inconclusive.append("history %s: %s" % (label, str(e)[:300]))
                break
            except Exception:
                res.inconclusive.append("history %s: harness exception %s" % (label, traceback.format_exc()[-800:]))
                break
        res.evaluations += 1
        if h is not None:
            sim = h.sim
            res.counters.inc("quiescent_points", sim.quiescent_points)
            res.counters.inc("gated_steps", sim.steps)
            res.counters.inc("selects", sim.selects)
            res.counters.inc("crashes", h.crashes)
            kinds = {}
            for e in sim.events:
                kinds[e["kind"]] = kinds.get(e["kind"], 0) + 1
            d = res.counters.setdefault("events_by_kind", {})
            for k, v in kinds.items():
                d[k] = d.get(k, 0) + v
            ncmd = kinds.get("cmd", 0)
            if sim.grants and profile_kw.get("conc_injectors"):
                res.counters.setdefault("distinct_interleavings", set()).add(hash(tuple(sim.grants)))
            if ncmd:
                # distinct: the sequence of boundary events (commands and reports with their kinds)
                sig = tuple((e["kind"], e.get("chan"), (e.get("text") or b"")[:1] if e["kind"] == "report" else e.get("sig"))
                            for e in sim.events if e["kind"] in ("cmd", "report", "signal", "crash", "inject", "clock"))
                res.nontrivial(sig)
            if i % 50 == 0 or len(res.samples) < 1:
                res.sample({"history": label, "lifetime": h.lifetime, "conc": h.conc, "spawn": h.spawn,
                            "boundary_events": [("%s %s %s" % (e["kind"], e.get("chan", ""), core.hx((e.get("text") or b"")[:12]) if e["kind"] == "report" else core.hx(e.get("recip", b"")) if e["kind"] == "cmd" else e.get("sig", "")))
                                                for e in sim.events if e["kind"] in ("cmd", "report", "signal", "crash", "inject", "clock", "restart")][:40]}, cap=2)
    return res


def run(prop, b, n, profile_kw, oracle_names, salt="h", jobs=None, timeout=3000):
    parts = [(prop, b.dir, b.variant, lo, hi, profile_kw, oracle_names, salt) for lo, hi in core.chunks(n, 64)]
    return core.pmap(worker, parts, jobs=jobs, timeout=timeout)


# ---------------------------------------------------------------------------------- sweeps
def run_one(prop, b, idx, salt, profile_kw, oracle_names, plan=None, res=None):
    """one history of the seeded stream, optionally under a fault/crash plan; returns (History, res)"""
    res = res if res is not None else core.Result()
    ocs = [getattr(oracles, n) for n in oracle_names]
    rng = core.case_rng(prop, idx, salt)
    prof = histories.Profile(**profile_kw)
    label = "%s-%s-%d-%d%s" % (prop, salt, core.seed(), idx, ("-" + plan) if plan else "")
    h = hist_class(profile_kw)(b, rng, res, prof, oracle_classes=ocs, plan=plan, label=label)
    h.run()
    return h, res


def reference_calls(prop, b, idx, salt, profile_kw):
    """the gated calls of qmail-send and qmail-clean in the fault-free run of scenario idx"""
    h, res = run_one(prop, b, idx, salt, profile_kw, [])
    calls = []
    for e in h.sim.events:
        if e["kind"] == "sys" and e.get("ph") == "exit" and e.get("prog") in ("qmail-send", "qmail-clean") and "n2" in e and e.get("role") in ("send", "clean"):
            if e.get("c") == "openr":
                continue
            calls.append((e["prog"], e["n2"], e["c"], (e.get("path2") or e.get("path") or "")))
    return calls, h


def reference_calls_log(prop, b, idx, salt, profile_kw, classes=("stat", "lstat", "read")):
    """calls of qmail-send taken from the shim's log file (classes that are logged but not gated)"""
    from . import shim
    h, res = run_one(prop, b, idx, salt, dict(profile_kw, keep_log=True), [])
    calls = []
    pids = []
    for e in getattr(h.sim, "final_log", []):
        if e.get("g") == "qmail-send" and e.get("r") == "send" and e.get("p") not in pids:
            pids.append(e.get("p"))
    if profile_kw.get("incarnation"):
        want = set(pids[profile_kw["incarnation"] - 1:profile_kw["incarnation"]])
    elif profile_kw.get("plan_persist"):
        want = set(pids)                 # the plan is applied to every incarnation: sweep the union
    else:
        want = set(pids[:1])             # plan indices are per process: only the first incarnation is addressed
    counted = profile_kw.get("count", "m")
    cls_of = {"stat": "t", "lstat": "t", "read": "r", "openr": "o"}
    seen = set()
    out = []
    for e in getattr(h.sim, "final_log", []):
        if e.get("p") not in want or e.get("g") != "qmail-send" or e.get("r") != "send" or "n2" not in e:
            continue
        c = e.get("c")
        if c not in classes or cls_of.get(c, "m") not in counted:
            continue                     # only calls of counted classes have an index of their own
        if c == "read" and not (e.get("path") or "").startswith("queue/"):
            continue
        key = (e["n2"], c)
        if key in seen:
            continue
        seen.add(key)
        out.append((e["g"], e["n2"], c, e.get("path") or ""))
    return out, h


def _richness(prop, bdir, variant, idx, salt, profile_kw):
    res = core.Result()
    b = build.Build(variant, bdir)
    try:
        calls, h = reference_calls(prop, b, idx, salt, profile_kw)
        ncmd = sum(1 for e in h.sim.events if e["kind"] == "cmd")
        res.counters["rich"] = {str(idx): len(calls) + 40 * len(h.ledger.bounce_recs) + 5 * ncmd}
    except Exception as e:
        res.counters["rich"] = {str(idx): 0}
    return res


def pick_scenarios(prop, b, salt, profile_kw, k, cands=range(24)):
    """the k richest scenarios (mutating calls, delivery commands, bounces) among the first seeded ones:
    a sweep over a history in which nothing happens would be vacuous"""
    r = core.pmap(_richness, [(prop, b.dir, b.variant, i, salt, profile_kw) for i in cands])
    rich = r.counters.get("rich", {})
    order = sorted(rich, key=lambda i: (-rich[i], int(i)))
    return [int(i) for i in order[:k] if rich[i] > 60]


def sweep_worker(prop, bdir, variant, idx, salt, profile_kw, oracle_names, plans):
    res = core.Result()
    b = build.Build(variant, bdir)
    for plan, site in plans:
        fired = False
        for attempt in (0, 1):
            try:
                pk = dict(profile_kw, keep_log=True) if profile_kw.get("trace_extra") else profile_kw
                h, _ = run_one(prop, b, idx, salt, pk, oracle_names, plan=plan, res=res)
                for e in h.sim.events:
                    if e["kind"] == "sys" and (e.get("ph") == "killed" or e.get("inj") in ("fail", "short")):
                        fired = True
                for e in getattr(h.sim, "final_log", []):
                    if e.get("inj") in ("fail", "short", "kill"):
                        fired = True
                res.counters.inc("crashes", h.crashes)
                res.counters.inc("gated_steps", h.sim.steps)
                res.counters.inc("quiescent_points", h.sim.quiescent_points)
                break
            except qsim.SimTimeout as e:
                if attempt == 1:
                    res.inconclusive.append("sweep %s %s: %s" % (idx, plan, str(e)[:200]))
            except core.Inconclusive as e:
                res.inconclusive.append("sweep %s %s: %s" % (idx, plan, str(e)[:200]))
                break
            except Exception:
                res.inconclusive.append("sweep %s %s: exception %s" % (idx, plan, traceback.format_exc()[-600:]))
                break
        res.evaluations += 1
        if fired:
            d = res.counters.setdefault("injections_fired_by_site", {})
            d[site] = d.get(site, 0) + 1
            res.nontrivial("sweep", idx, plan, profile_kw.get("variant"))
        else:
            res.counters.inc("injections_not_reached")
    return res


def site_of(prog, call, path):
    parts = path.replace(" (deleted)", "").split("/")
    d = parts[1] if len(parts) >= 2 and parts[0] == "queue" else (parts[0] if parts else "")
    return "%s:%s:%s" % (prog.replace("qmail-", ""), call, d)


def crash_plans(calls, every=1):
    out = []
    for i, (prog, n2, call, path) in enumerate(calls):
        if i % every == 0:
            out.append(("%s:%d:kill" % (prog, n2), "kill@" + site_of(prog, call, path)))
    return out


FAULTS = {"stat": ["fail=EIO"], "lstat": ["fail=EIO"], "read": ["fail=EIO"], "openr": ["fail=EMFILE"],
          "open": ["fail=EIO", "fail=EMFILE"], "write": ["fail=ENOSPC", "short=1"], "fsync": ["fail=EIO"],
          "unlink": ["fail=EIO"], "link": ["fail=EIO"], "utime": ["fail=EIO"], "close": ["fail=EIO"]}


def fault_plans(calls, every=1):
    out = []
    for i, (prog, n2, call, path) in enumerate(calls):
        if i % every:
            continue
        for a in FAULTS.get(call, []):
            out.append(("%s:%d:%s" % (prog, n2, a), "%s@%s" % (a, site_of(prog, call, path))))
    return out


def run_sweep(prop, b, idx, salt, profile_kw, oracle_names, plans, jobs=None):
    k = max(1, min(48, len(plans) // 4 or 1))
    parts = [(prop, b.dir, b.variant, idx, salt, profile_kw, oracle_names, plans[lo:hi]) for lo, hi in core.chunks(len(plans), k)]
    return core.pmap(sweep_worker, parts, jobs=jobs, timeout=3000)
