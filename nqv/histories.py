"""Seeded random daemon histories on the qsim engine (DESIGN.md 2.6): messages with unique
tokens and recipients, outcome assignments K/Z/D/garbage per attempt, signals, clock steps,
clean restarts and crashes with disk variants.  Used by C02, C03, C04, C14, C15, C16, C10, C18."""
import json
import os
import signal

from . import core, qsim, shim, ledger as ledgermod


class Profile:
    def __init__(self, **kw):
        self.max_msgs = 3
        self.max_rcpts = 3
        self.p_garbage = 0.06
        self.p_alrm = 0.05
        self.p_hup = 0.03
        self.p_term_restart = 0.04
        self.p_crash = 0.0           # random SIGKILL of daemon/cleaner at a quiescent point
        self.p_new = 0.25
        self.lifetimes = [604800, 604800, 3000, 500, 0]
        self.conc = [1, 2, 5, 10]
        self.spawn = [1, 3, 120, 255]
        self.senders = ["user", "user", "user-remote", "empty", "double", "verp"]
        self.fail_texts = None       # callable rng -> bytes, for D reports
        self.max_quiescent = 400
        self.hold_reports = 0.25     # probability of not answering when something is outstanding (fills slots)
        self.dup_rcpt = 0.1
        self.gate_m = True
        self.variant = "keep-all"
        self.extra_controls = {}
        self.virtual = False
        self.before_start = 0.5      # probability that the first message is injected before the daemon starts
        self.raw_garbage = 0.0       # probability per quiescent point of hostile bytes on a report channel
        self.max_idle_advances = 0   # >0: give up (TERM, no drain required) after so many clock steps without a command
        self.qq_fail = 0.0           # probability that one of the daemon's own injections (bounces) fails
        self.count = "m"             # call classes counted for NQV_PLAN indices
        self.trace_extra = ""        # further shim classes to log (e.g. "tr" for stat and read)
        self.keep_log = False        # keep the shim's complete event log in memory after the home is removed
        self.p_spawner_eof = 0.0     # probability per quiescent point that a spawner "dies" (EOF on its report pipe)
        self.plan_persist = False    # apply the fault plan to every incarnation of the daemons (call indices are per process)
        self.min_rcpts = None        # lower bound of the recipient count of a message (None: 1, rarely 0)
        self.rcpt_doms = None        # recipient domains to draw from (None: local, remote, mixed case, virtual)
        self.long_lengths = None     # address lengths used for "long" recipients (default: a spread from 60 to 900)
        self.slow_spawner = 0.0      # probability that one channel's spawner reads its commands slowly through a one-page pipe
        self.report_burst = 1        # answer up to this many outstanding deliveries at one quiescent point
        self.p_overlong_forge = 0.0  # probability that a failure text is longer than the daemon's report cap and carries, around the
                                     # cap, bytes that read like a report for another delivery in flight on the channel
        self.p_long_addr = 0.12      # probability per message of long addresses (records that straddle the daemon's 128-, 512- and
                                     # 1024-byte buffers already with a few recipients); long sender with half of that
        self.__dict__.update(kw)


def fail_text(rng):
    n = rng.randrange(5)
    if n == 0:
        return b"Sorry, no mailbox here by that name. (#5.1.1)\n"
    if n == 1:
        return b"line one\n\nline three after a blank line\n\n\n<forged@victim.test>:\nforged paragraph\n"
    if n == 2:
        return bytes(rng.randrange(1, 256) for _ in range(rng.randrange(1, 60)))
    if n == 3:
        return b"\n\n--- Below this line is a copy of the message.\n\nReturn-Path: <x>\n"
    return b"user unknown" + b"\n" * rng.randrange(0, 4)


class History:
    """drives one Sim through a seeded random history"""

    def __init__(self, b, rng, res, profile, oracle_classes=(), plan=None, label=""):
        self.b, self.rng, self.res, self.prof, self.plan, self.label = b, rng, res, profile, plan, label
        p = profile
        self.lifetime = rng.choice(p.lifetimes)
        self.conc = (rng.choice(p.conc), rng.choice(p.conc))
        self.spawn = (rng.choice(p.spawn), rng.choice(p.spawn))
        controls = {"me": "local.test", "locals": ["local.test"], "queuelifetime": self.lifetime,
                    "concurrencylocal": self.conc[0], "concurrencyremote": self.conc[1]}
        controls.update(p.extra_controls)
        self.vdoms = {}
        self.doublebounceto = b"postmaster@local.test"
        if p.virtual:
            # bounce-related configuration variations (C14): every generated file stays inside the documented forms
            bh = rng.choice([None, "bounce.test", "local.test"])
            if bh:
                controls["bouncehost"] = bh
            if rng.random() < 0.5:
                controls["bouncefrom"] = rng.choice(["BOUNCER", "mailer daemon", "a.b"])
            dto = rng.choice([None, "dbl", "double-bounce"])
            dhost = rng.choice([None, "local.test", "remote.test"])
            if dto:
                controls["doublebounceto"] = dto
            if dhost:
                controls["doublebouncehost"] = dhost
            self.doublebounceto = (dto or "postmaster").encode() + b"@" + (dhost or "local.test").encode()
            if rng.random() < 0.7:
                # exact domains, a parent wildcard, the catch-all, an exception (empty prepend = not virtual); entries for
                # single users (user@domain:prepend) are left out: the daemon's prefix stripping looks domains up only
                self.vdoms = rng.choice([
                    {b"virt.test": b"vuser", b"other.test": b"alias-other"},
                    {b"virt.test": b"vuser", b"other.test": b"alias-other"},
                    {b".test": b"wild"},
                    {b"": b"catchall"},
                    {b"virt.test": b"vuser", b".test": b"wild", b"": b"catchall"},
                    {b"virt.test": b"", b".test": b"wild"},
                    {b"other.test": b"alias-other", b"": b"all-the-rest"},
                ])
                controls["virtualdomains"] = [(k + b":" + v).decode() for k, v in self.vdoms.items()]
        self.ledger = ledgermod.Ledger(res, lifetime=self.lifetime)
        self.oracles = [self.ledger] + [oc(res, self) for oc in oracle_classes]
        self.sim = qsim.Sim(b, controls=controls, spawn_limit=self.spawn, gate_m=p.gate_m,
                            trace=("mo" if p.gate_m else "m") + p.trace_extra, plan=plan, count=p.count, oracles=self.oracles, label=label)
        self.sim.keep_log = p.keep_log
        # how many outstanding deliveries are answered at one quiescent point: several reports (of both channels, of one
        # message) then reach the daemon in the same select round (seed c04-s7)
        self.burst = p.report_burst if p.report_burst > 1 else rng.choice([1, 1, 2, 3, 5])
        self.slow = None
        if p.slow_spawner and rng.random() < p.slow_spawner:
            self.slow = rng.choice("lr")
            self.sim.small_cmd_pipe = True
            self.sim.read_budget[self.slow] = 0
        if p.gate_m:
            self.sim.gate_progs = "qmail-send,qmail-clean"
        if p.qq_fail:
            seqf = self.sim.home + "/qqseq"
            with open(seqf, "w") as f:
                for _ in range(60):
                    f.write((rng.choice(["exit=53", "exit=51", "sig=9", "exit=31", "err=Zqq says later", "stop=10,exit=54"])
                             if rng.random() < p.qq_fail else "tee") + "\n")
            self.sim.daemon_env_extra["NQV_QQ_SEQ"] = seqf
        self.nmsg = 0
        self.term_pending = False
        self.finished = False
        self.crashes = 0
        self.gen_start = 0
        self.idle_adv = 0
        self.last_ncmd = 0
        self.stuck = False
        self.spawner_closed = None
        self.log = []

    # effective limits for oracles
    def limit(self, chan):
        i = 0 if chan == "l" else 1
        return min(self.conc[i], self.spawn[i])

    def newmsg(self):
        rng, p = self.rng, self.prof
        self.nmsg += 1
        m = self.nmsg
        kind = rng.choice(p.senders)
        sender = {"user": b"s%d@local.test" % m, "user-remote": b"s%d@remote.test" % m, "empty": b"", "double": b"#@[]",
                  "verp": b"list%d-@local.test-@[]" % m}[kind]
        n = rng.randint((0 if rng.random() < 0.05 else 1) if p.min_rcpts is None else p.min_rcpts, p.max_rcpts)
        doms = list(p.rcpt_doms) if p.rcpt_doms else \
            [b"local.test", b"remote.test", b"LOCAL.test"] + ([b"virt.test", b"Other.Test"] if self.vdoms else [])
        rc = [b"r%d.%d@%s" % (m, k, rng.choice(doms)) for k in range(n)]
        if p.p_long_addr and rng.random() < p.p_long_addr:
            for k in range(len(rc)):
                if rng.random() < (0.6 if not p.long_lengths else 0.95):
                    L = rng.choice(p.long_lengths or [60, 100, 110, 127, 128, 129, 250, 500, 900])
                    loc, dom = rc[k].split(b"@")
                    rc[k] = loc + b"-" + b"x" * max(0, L - len(rc[k]) - 1) + b"@" + dom
            if kind in ("user", "user-remote") and rng.random() < 0.5:
                loc, dom = sender.split(b"@")
                sender = loc + b"-" + b"y" * rng.choice([100, 400, 480, 500, 520, 900]) + b"@" + dom
        if p.virtual and rc and rng.random() < 0.3:
            rc[0] = b"r%d\nx@%s" % (m, rng.choice(doms))         # a newline inside a recipient address
        if rc and rng.random() < p.dup_rcpt:
            rc.append(rc[0])
        token = "%s%04d" % (core.hashlib.sha256(self.label.encode()).hexdigest()[:8], m)
        body = b"Subject: m%d\nX-Token: %s\n\nbody of message %d\n" % (m, token.encode(), m)
        env = b"F" + sender + b"\0" + b"".join(b"T" + r + b"\0" for r in rc) + b"\0"
        st, num = self.sim.inject(body, env)
        self.log.append(("inject", m, sender, rc, num))
        if not (os.WIFEXITED(st) and os.WEXITSTATUS(st) == 0):
            raise core.Inconclusive("scenario injection failed: %r" % st)
        return num

    def choose_report(self, cmd):
        rng, p = self.rng, self.prof
        ev_msg = self.ledger.msgs.get((cmd.num, cmd.gen))
        r = None
        if ev_msg:
            for x in (ev_msg.records or {}).get(cmd.chan, []):
                if cmd in x.cmds:
                    r = x
        attempts = r.attempts if r else 1
        is_bounce = ev_msg is not None and ev_msg.kind == "bounce"
        if p.p_overlong_forge and rng.random() < p.p_overlong_forge:
            # slot 0 cannot be named inside a text (its byte is the terminator)
            victims = [c for (ch, d), c in self.sim.outstanding.items() if ch == cmd.chan and c is not cmd and d >= 1]
            if victims:
                v = rng.choice(victims)
                self.res.counters.inc("overlong_reports_with_embedded_report")
                return b"D" + b"y" * rng.randrange(9990, 10006) + bytes([v.delnum]) + rng.choice([b"D", b"D", b"K", b"Z"]) + b"forged for the neighbour\n"
        o = rng.random()
        if o < p.p_garbage:
            return rng.choice([b"Xgarbage", b"", b"\xff\xfe", b"k lower case", b"Z", b"  "])
        if attempts >= 3:
            return b"Kfinally\n" if rng.random() < 0.7 else b"D" + (p.fail_texts or fail_text)(rng)
        if is_bounce:
            if o < 0.6:
                return b"Kbounce delivered\n"
            if o < 0.75:
                return b"Zlater\n"
            return b"D" + (p.fail_texts or fail_text)(rng)
        if o < 0.45:
            return b"Kdone\n"
        if o < 0.72:
            return b"Ztemporary trouble\n"
        return b"D" + (p.fail_texts or fail_text)(rng)

    def _fault_hit_a_pipe(self):
        """did the injected fault of this history land on a read of one of qmail-send's pipes (cleaner,
        spawners) rather than on a queue file?  Call indices are per process and drift with the number of
        pipe reads, so a read-fault sweep occasionally hits one; the daemon then gives up cleanly by design."""
        try:
            with open(self.sim.logfile, "rb") as f:
                for line in f:
                    if b'"inj":"fail"' not in line and b'"inj": "fail"' not in line:
                        continue
                    try:
                        e = json.loads(line)
                    except ValueError:
                        continue
                    if e.get("g") == "qmail-send" and e.get("c") in ("read", "write") and not (e.get("path") or "").startswith("queue/"):
                        self.res.counters.inc("faults_that_hit_a_daemon_pipe")
                        return True
        except OSError:
            pass
        return False

    def restart(self):
        self.gen_start = len(self.sim.events)
        self.sim.start_daemons(plan=(self.plan or "") if self.prof.plan_persist else "")

    def crash_now(self, who):
        sim = self.sim
        sim.kill_daemons(who=("send", "clean"))
        self.after_crash()

    def after_crash(self):
        """daemons are dead: apply the disk variant, restart"""
        self.crashes += 1
        if self.prof.variant != "keep-all":
            apply_disk_variant(self.sim, self.prof.variant, self.rng)
        self.sim.emit("restart", variant=self.prof.variant)
        self.restart()

    def run(self):
        sim, rng, p = self.sim, self.rng, self.prof
        try:
            if rng.random() < p.before_start:
                self.newmsg()
            sim.start_daemons()
            qn = 0
            while True:
                try:
                    ent = sim.run_until_quiescent()
                except qsim.DaemonExit as e:
                    st = e.status
                    if os.WIFSIGNALED(st) and os.WTERMSIG(st) == signal.SIGKILL:
                        # a planned crash fired (NQV_PLAN) in qmail-send
                        sim.kill_daemons(who=("clean",))
                        self.after_crash()
                        continue
                    if (self.term_pending or self.spawner_closed) and os.WIFEXITED(st) and os.WEXITSTATUS(st) == 0:
                        self.term_pending = False
                        if self.spawner_closed:
                            self.res.counters.inc("restarts_after_lost_spawner")
                        self.spawner_closed = False
                        sim.kill_daemons(who=("clean",))
                        if self.finished:
                            break
                        self.restart()
                        continue
                    if self.plan and os.WIFEXITED(st) and os.WEXITSTATUS(st) == 111 and not any(
                            e["kind"] == "quiesce" for e in sim.events[self.gen_start:]):
                        # an injected fault during start-up: "cannot start" is the documented answer; supervise restarts it
                        sim.kill_daemons(who=("clean",))
                        self.res.counters.inc("startup_refusals_under_fault")
                        self.restart()
                        continue
                    if self.plan and os.WIFEXITED(st) and os.WEXITSTATUS(st) == 0 and (self.prof.plan_persist or self._fault_hit_a_pipe()):
                        # an injected fault on one of the daemon's pipes ("lost qmail-clean connection", "lost spawn
                        # connection"): it dies cleanly by design; supervise restarts it
                        sim.kill_daemons(who=("clean",))
                        self.res.counters.inc("clean_deaths_under_fault")
                        self.term_pending = False
                        self.restart()
                        continue
                    # the daemon may also exit because its cleaner was killed by a plan
                    if os.WIFEXITED(st) and self.plan and "qmail-clean" in (self.plan or ""):
                        sim.kill_daemons(who=("clean",))
                        self.after_crash()
                        continue
                    self.res.violate("C03/daemon-died/%s" % (("sig%d" % os.WTERMSIG(st)) if os.WIFSIGNALED(st) else "exit%d" % os.WEXITSTATUS(st)),
                                     "qmail-send ended unexpectedly; log tail %r" % sim.dlog[-400:], self.witness())
                    break
                qn += 1
                if qn > p.max_quiescent:
                    self.res.inconclusive.append("history %s did not finish within %d quiescent points" % (self.label, p.max_quiescent))
                    break
                T = ent.get("T", 0)
                if self.slow and getattr(self, "just_fed", False) and sim.outstanding and not self.term_pending:
                    # right after a small read (the daemon's write was partial if it had more buffered): a report frees a slot
                    # and the daemon starts another delivery while the rest of its buffer is still unwritten
                    self.just_fed = False
                    ks = [k for k in sorted(sim.outstanding) if k[0] == self.slow] or sorted(sim.outstanding)
                    cmd = sim.outstanding[rng.choice(ks)]
                    sim.report(cmd, self.choose_report(cmd))
                    continue
                if self.slow and sim.unread_commands(self.slow) > 0 and (self.term_pending or not sim.outstanding or rng.random() < 0.6):
                    # the slow spawner gets round to reading some of what the daemon has written to it
                    n = rng.choice([300, 300, 500, 700, 1000, 1000, 4096, 4096, 9000, 100000])
                    sim.feed_spawner(self.slow, n)
                    self.just_fed = n <= 1000
                    self.res.counters.inc("slow_spawner_reads")
                    continue
                if self.term_pending:
                    # daemon is draining: answer what is outstanding
                    if sim.outstanding:
                        k = rng.choice(sorted(sim.outstanding))
                        cmd = sim.outstanding[k]
                        sim.report(cmd, self.choose_report(cmd))
                    else:
                        # idle although TERM was sent and nothing is outstanding
                        self.res.violate("C04/no-exit-after-term", "TERM delivered, nothing outstanding, daemon keeps sleeping", self.witness())
                        break
                    continue
                if p.raw_garbage and rng.random() < p.raw_garbage:
                    self.raw_garbage()
                    continue
                if self.spawner_closed:
                    # the daemon is dying ("lost spawn connection"): answer what the surviving spawner still owes
                    alive = [k for k in sorted(sim.outstanding) if k[0] != self.spawner_closed]
                    if alive:
                        k = rng.choice(alive)
                        sim.report(sim.outstanding[k], self.choose_report(sim.outstanding[k]))
                    else:
                        self.res.violate("C03/no-exit-after-lost-spawner", "a spawner is gone, nothing else is outstanding, the daemon keeps sleeping", self.witness())
                        break
                    continue
                if p.p_spawner_eof and rng.random() < p.p_spawner_eof:
                    self.spawner_closed = rng.choice("lr")
                    sim.close_spawner(self.spawner_closed)
                    for k in [k for k in sim.outstanding if k[0] == self.spawner_closed]:
                        del sim.outstanding[k]          # those deliveries will never be answered
                    continue
                if sim.outstanding and rng.random() > p.hold_reports:
                    for _ in range(rng.randint(1, max(1, self.burst))):
                        if not sim.outstanding:
                            break
                        k = rng.choice(sorted(sim.outstanding))
                        cmd = sim.outstanding[k]
                        sim.report(cmd, self.choose_report(cmd))
                    continue
                # garbage awaiting the 36 h collector (S2/S3 leftovers of a crash during elimination) is not a message
                left = {n: d for n, d in sim.scan().items() if "info" in d or "todo" in d or not d <= {"mess", "intd"}}
                o = rng.random()
                if not left and not sim.outstanding:
                    if self.nmsg < p.max_msgs and (self.nmsg == 0 or rng.random() < 0.6):
                        self.newmsg()
                        continue
                    self.finished = True
                    self.term_pending = True
                    sim.signal("TERM")
                    continue
                if self.nmsg < p.max_msgs and o < p.p_new:
                    self.newmsg()
                elif o < p.p_new + p.p_alrm:
                    if not sim.outstanding and rng.random() < 0.4:
                        sim.signal_late("ALRM")     # arrives when the daemon has just left select (no pass can be open now)
                        self.res.counters.inc("alrm_outside_select")
                    else:
                        sim.signal("ALRM")
                elif o < p.p_new + p.p_alrm + p.p_hup:
                    sim.signal("HUP")
                elif o < p.p_new + p.p_alrm + p.p_hup + p.p_term_restart:
                    self.term_pending = True
                    sim.signal("TERM")
                elif o < p.p_new + p.p_alrm + p.p_hup + p.p_term_restart + p.p_crash:
                    self.crash_now(rng.choice([("send", "clean"), ("send", "clean")]))
                elif sim.outstanding:
                    k = rng.choice(sorted(sim.outstanding))
                    cmd = sim.outstanding[k]
                    sim.report(cmd, self.choose_report(cmd))
                else:
                    ncmd = sum(1 for e in sim.events if e["kind"] == "cmd")
                    if ncmd == self.last_ncmd:
                        self.idle_adv += 1
                    else:
                        self.idle_adv = 0
                        self.last_ncmd = ncmd
                    if p.max_idle_advances and self.idle_adv >= p.max_idle_advances:
                        self.stuck = True
                        self.term_pending = True
                        self.finished = True
                        sim.signal("TERM")
                        continue
                    step = T
                    r = rng.random()
                    if r < 0.1 and T > 2:
                        step = T - 2          # just before the requested wake-up: must stay idle
                    elif r < 0.15:
                        step = T + rng.choice([1, 100, 5000])
                    sim.advance(max(1, step))
            for o in self.oracles:
                o.at_end(sim)
        finally:
            self.sim.teardown()
        return self.sim

    def raw_garbage(self):
        """hostile bytes on a report channel that, by the documented framing (delivery number byte, text,
        NUL), never name a delivery that is outstanding: out-of-range, unused, oversized, empty frames.
        Nothing may change because of them."""
        rng, sim = self.rng, self.sim
        chan = rng.choice("lr")
        used = {d for (c, d) in sim.outstanding if c == chan}
        lim = self.limit(chan)
        frames = []
        for _ in range(rng.randint(1, 4)):
            kind = rng.randrange(6)
            free = [d for d in range(256) if d not in used]
            if kind == 0:
                dn = rng.choice([d for d in free if d >= lim] or free)           # out of range
            elif kind == 1:
                dn = rng.choice([d for d in free if d < lim] or free)            # in range but unused
            else:
                dn = rng.choice(free)
            if kind == 2:
                text = bytes(rng.randrange(1, 256) for _ in range(rng.choice([10001, 12000, 20000])))   # oversized
            elif kind == 3:
                text = rng.choice([b"K", b"D", b"Z"]) + bytes(rng.randrange(1, 256) for _ in range(rng.randrange(0, 40)))
            elif kind == 4:
                text = b""
            else:
                text = bytes(rng.randrange(1, 256) for _ in range(rng.randrange(1, 300)))
            if dn == 0 and not text:
                text = b"x"
            frames.append(bytes([dn]) + text + b"\0")
        data = b"".join(frames)
        self.res.counters.inc("hostile_report_frames", len(frames))
        self.res.counters.inc("hostile_report_bytes", len(data))
        if used:
            self.res.counters.inc("hostile_frames_with_deliveries_in_flight", len(frames))
        # big frames go out in pieces (the pipe holds 64 KB; the daemon drains it at every poll)
        sim.raw_report_bytes(chan, data)

    def witness(self):
        ev = []
        for e in self.sim.events[-60:]:
            d = {k: (core.hx(v) if isinstance(v, bytes) else (repr(v) if k in ("cmd", "msg", "rcpt") else v))
                 for k, v in e.items() if k not in ("data", "old")}
            ev.append(d)
        return {"history": self.label, "lifetime": self.lifetime, "conc": self.conc, "spawn": self.spawn,
                "script": [tuple(core.hx(x) if isinstance(x, bytes) else x for x in t) if isinstance(t, tuple) else t for t in self.log[-20:]],
                "last_events": ev, "daemon_log_tail": core.hx(self.sim.dlog[-600:])}


def apply_disk_variant(sim, variant, rng):
    """rewrite the real queue files as the disk may return them after a crash: data written since
    the last fsync of a file is lost (single-byte overwrites reverted); directory entries kept"""
    # the shim's log file has the calls of EVERY process (injectors included), in global order;
    # inode numbers are reused, so creations by ungated processes must be seen too
    dm = shim.DiskModel()
    for e in shim.read_log(sim.logfile):
        dm.feed(e)
    q = sim.home + "/queue"
    byino = {}
    for r, ds, fs in os.walk(q):
        for f in fs:
            p = os.path.join(r, f)
            if "/lock/" in p:
                continue
            try:
                st = os.stat(p)
            except OSError:
                continue
            byino.setdefault(st.st_ino, p)
    for ino, p in byino.items():
        if ino not in dm.synced:
            continue
        content = qsim.read_noatime(p)
        view = dm.view(ino, content, variant, rng)
        if view != content:
            st = os.stat(p)
            with open(p, "r+b") as f:
                f.seek(0)
                f.write(view)
                f.truncate(len(view))
            os.utime(p, (st.st_atime, st.st_mtime))
            sim.emit("disk-forgot", path=os.path.relpath(p, q), kept=len(view), had=len(content))


class RestartFaultHistory(History):
    """Directed history (C03/C04): a two-channel message is deferred, the daemon is stopped cleanly and restarted
    with ONE failing stat()/read()/open() during its start-up scan or later; all reports are then withheld for a
    while (so that any second pass on the same message would overlap the first) and finally answered."""

    def run(self):
        sim, rng, p = self.sim, self.rng, self.prof
        try:
            self.nmsg = 1
            body = b"Subject: m1\nX-Token: %s0001\n\nbody\n" % core.hashlib.sha256(self.label.encode()).hexdigest()[:8].encode()
            env = b"Fs1@local.test\0Ta@local.test\0Tb@local.test\0Tc@remote.test\0\0"
            sim.inject(body, env)
            sim.start_daemons(plan="")
            # first life: defer everything, then TERM
            for _ in range(40):
                sim.run_until_quiescent()
                if sim.outstanding:
                    k = sorted(sim.outstanding)[0]
                    sim.report(sim.outstanding[k], b"Zlater\n")
                else:
                    break
            self.term_pending = True
            sim.signal("TERM")
            try:
                sim.run_until_quiescent()
                raise core.Inconclusive("daemon did not exit after TERM in the directed history")
            except qsim.DaemonExit:
                pass
            sim.kill_daemons(who=("clean",))
            self.term_pending = False
            # second life under the plan
            self.gen_start = len(sim.events)
            sim.start_daemons(plan=self.plan or "")
            held = 0
            for step in range(120):
                try:
                    ent = sim.run_until_quiescent()
                except qsim.DaemonExit as e:
                    st = e.status
                    if os.WIFEXITED(st) and os.WEXITSTATUS(st) in (0, 111) and self.plan:
                        sim.kill_daemons(who=("clean",))
                        self.gen_start = len(sim.events)
                        sim.start_daemons(plan="")
                        continue
                    self.res.violate("C03/daemon-died/%s" % (("sig%d" % os.WTERMSIG(st)) if os.WIFSIGNALED(st) else "exit%d" % os.WEXITSTATUS(st)),
                                     "qmail-send ended unexpectedly; log tail %r" % sim.dlog[-300:], self.witness())
                    return sim
                left = {n: d for n, d in sim.scan().items() if "info" in d or "todo" in d}
                if not left and not sim.outstanding:
                    break
                if sim.outstanding and held >= 4:
                    k = sorted(sim.outstanding)[0]
                    sim.report(sim.outstanding[k], b"Kdone\n")
                    continue
                if sim.outstanding:
                    held += 1
                # withhold the reports and let time pass (SLEEP_SYSFAIL retries, back-off times)
                sim.advance(max(1, min(ent.get("T", 1), 400)))
            else:
                self.res.inconclusive.append("directed restart history %s did not drain" % self.label)
                return sim
            self.finished = True
            self.term_pending = True
            sim.signal("TERM")
            try:
                sim.run_until_quiescent()
            except qsim.DaemonExit:
                pass
            for o in self.oracles:
                o.at_end(sim)
        finally:
            self.sim.teardown()
        return self.sim


class CleanerFaultHistory(History):
    """Directed history (C04): one unlink of qmail-clean fails while message 1 (three recipients) is being taken over from
    todo/; one recipient then succeeds, the others are deferred; a second message is injected (its trigger starts the next
    todo scan); everything is answered K from then on.  A message scheduled while its todo entry is still there would be
    preprocessed a second time by that scan and its finished recipient attempted again."""

    def run(self):
        sim, rng, p = self.sim, self.rng, self.prof
        try:
            tok = core.hashlib.sha256(self.label.encode()).hexdigest()[:8].encode()
            self.nmsg = 1
            sim.inject(b"Subject: m1\nX-Token: %s0001\n\nbody\n" % tok, b"Fs1@local.test\0Ta@local.test\0Tb@local.test\0Tc@remote.test\0\0")
            sim.start_daemons(plan=self.plan or "")
            answered_k = False
            injected2 = False
            for step in range(160):
                try:
                    ent = sim.run_until_quiescent()
                except qsim.DaemonExit as e:
                    st = e.status
                    self.res.violate("C03/daemon-died/%s" % (("sig%d" % os.WTERMSIG(st)) if os.WIFSIGNALED(st) else "exit%d" % os.WEXITSTATUS(st)),
                                     "qmail-send ended unexpectedly; log tail %r" % sim.dlog[-300:], self.witness())
                    return sim
                if sim.outstanding:
                    k = sorted(sim.outstanding)[0]
                    cmd = sim.outstanding[k]
                    if not answered_k and cmd.recip.startswith(b"a@"):
                        answered_k = True
                        sim.report(cmd, b"Kdone\n")
                    elif not injected2:
                        sim.report(cmd, b"Zlater\n")
                    else:
                        sim.report(cmd, b"Kdone\n")
                    continue
                if not injected2:
                    injected2 = True
                    self.nmsg = 2
                    sim.inject(b"Subject: m2\nX-Token: %s0002\n\nbody\n" % tok, b"Fs2@local.test\0Td@local.test\0\0")
                    continue
                left = {n: d for n, d in sim.scan().items() if "info" in d or "todo" in d}
                if not left:
                    break
                sim.advance(max(1, min(ent.get("T", 1), 1600)))
            else:
                self.res.inconclusive.append("directed cleaner-fault history %s did not drain" % self.label)
                return sim
            self.finished = True
            self.term_pending = True
            sim.signal("TERM")
            try:
                sim.run_until_quiescent()
            except qsim.DaemonExit:
                pass
            for o in self.oracles:
                o.at_end(sim)
        finally:
            self.sim.teardown()
        return self.sim
