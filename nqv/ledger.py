"""Ledger: what the controller knows about every message in a qsim history, recorded at the
boundary (injections, delivery commands, reports) plus the filesystem events of the daemons.
Keyed by (message number, generation) because inode numbers are reused within one history."""
import os
from . import core
import re

from . import qsim, shim
from .refmodel import bounce as bouncemodel

CH = {"l": "local", "r": "remote"}


class Rcpt:
    __slots__ = ("chan", "addr", "off", "idx", "reports", "marked", "mark_seq", "attempts", "bounced", "discarded",
                 "bounce_text", "finished_gen", "cmds", "mark_reverted")

    def __init__(self, chan, addr, off, idx):
        self.chan, self.addr, self.off, self.idx = chan, addr, off, idx
        self.reports = []        # effective kinds 'K','Z','D','G' in order
        self.marked = False
        self.mark_seq = None
        self.attempts = 0
        self.bounced = False
        self.discarded = False
        self.bounce_text = None
        self.finished_gen = None   # daemon generation in which K/D was reported
        self.cmds = []
        self.mark_reverted = False

    def final(self):
        return bool(self.reports) and self.reports[-1] in ("K", "D")


class Msg:
    def __init__(self, num, gen, sender, recips, body, kind, born):
        self.num, self.gen, self.sender, self.recips, self.body, self.kind, self.born = num, gen, sender, recips, body, kind, born
        self.records = None       # {chan: [Rcpt]} once preprocessed
        self.mark_trouble = set() # channels on which a call of markdone() failed (injected fault) since the last pass opened
        self.birth = None         # observed mtime of info/N (what the daemon uses)
        self.gone = False         # info removed
        self.token = None
        self.parent = None
        self.pass_open = {}       # chan -> list of (vt, generation, seq)
        self.cursor = {}          # chan -> index of the next record the open pass can reach
        self.eliminating = False
        self.lifetime_hit = False

    def key(self):
        return (self.num, self.gen)

    def all_rcpts(self):
        out = []
        for c in ("l", "r"):
            out.extend((self.records or {}).get(c, []))
        return out


TOKEN_RE = re.compile(rb"X-Token: ([0-9a-f]+)")


def parse_envelope(env):
    """F<sender>\\0(T<r>\\0)*\\0 -> (sender, [recips])"""
    parts = env.split(b"\0")
    sender = parts[0][1:] if parts and parts[0][:1] == b"F" else b""
    recips = [p[1:] for p in parts[1:] if p[:1] == b"T"]
    return sender, recips


def parse_chanfile(data, chan):
    out = []
    off = 0
    idx = 0
    for rec in data.split(b"\0")[:-1]:
        out.append((off, rec[:1], rec[1:]))
        off += len(rec) + 1
        idx += 1
    return out


class Ledger(qsim.Oracle):
    property_id = "LEDGER"

    def __init__(self, res, lifetime=604800):
        super().__init__(res)
        self.msgs = {}           # (num, gen) -> Msg
        self.cur = {}            # num -> current gen
        self.tokens = {}         # token -> Msg
        self.recs_seen = 0
        self.rec_bases = set()
        self.lifetime = lifetime
        self.term_sent = False
        self.generation = 0
        self.crashed = False
        self.bounce_recs = []    # parsed daemon injections: dicts

    # ---------------------------------------------------------------- helpers
    def msg(self, num):
        g = self.cur.get(num)
        return self.msgs.get((num, g)) if g is not None else None

    def chanpath(self, sim, chan, num):
        return sim.qpath(CH[chan], str(num % qsim.SPLIT), str(num))

    def load_records(self, m, sim):
        if m.records is not None:
            return
        recs = {}
        for chan in ("l", "r"):
            p = self.chanpath(sim, chan, m.num)
            if os.path.exists(p):
                data = qsim.read_noatime(p)
                recs[chan] = [Rcpt(chan, a, off, i) for i, (off, t, a) in enumerate(parse_chanfile(data, chan))]
        ip = sim.qpath("info", str(m.num % qsim.SPLIT), str(m.num))
        if os.path.exists(ip):
            m.birth = int(os.stat(ip).st_mtime)
            m.records = recs

    def discover(self, num, sim):
        """a message number the scenario did not inject: one of the daemon's own injections"""
        self.scan_recs(sim)
        p = sim.qpath("mess", str(num % qsim.SPLIT), str(num))
        if not os.path.exists(p):
            return None
        content = qsim.read_noatime(p)
        body = content.split(b"\n", 1)[1] if b"\n" in content else b""
        for r in self.bounce_recs:
            if r["msg"] == body and not r.get("num"):
                r["num"] = num
                g = sim.gen.get(num, 0) + 1
                sim.gen[num] = g
                sender, recips = parse_envelope(r["env"])
                m = Msg(num, g, sender, recips, body, "bounce", sim.vnow())
                m.parent = r.get("parent")
                self.msgs[(num, g)] = m
                self.cur[num] = g
                r["queued_as"] = (num, g)
                return m
        return None

    def scan_recs(self, sim):
        recs = sim.read_recs()
        for r in recs:
            if r["base"] in self.rec_bases:
                continue
            self.rec_bases.add(r["base"])
            sender, recips = parse_envelope(r["env"])
            # an injection cut short by a crash of the daemon leaves a record with an incomplete
            # envelope: qmail-queue refuses it, nothing was queued
            r["complete"] = r["env"].endswith(b"\0\0") and r["env"][:1] == b"F" and r.get("plan", "tee").startswith("tee")
            r["sender"], r["recips"] = sender, recips
            r["notice"] = bouncemodel.parse_notice(r["msg"])
            # the notice carries a copy of the failed message: its parent is the (largest) known
            # message whose body occurs in that copy (a double bounce contains the bounce, which
            # contains the user's message)
            orig = (r["notice"] or {}).get("original") or b""
            best = None
            for m in self.msgs.values():
                if m.body and m.body in orig and (best is None or len(m.body) > len(best.body)):
                    best = m
            r["parent"] = best
            r["vt"] = sim.vnow()
            self.bounce_recs.append(r)
        self.recs_seen = len(recs)

    # ---------------------------------------------------------------- events
    def on_event(self, ev, sim):
        k = ev["kind"]
        if k == "inject" and ev.get("num") is not None and os.WIFEXITED(ev["status"]) and os.WEXITSTATUS(ev["status"]) == 0:
            sender, recips = parse_envelope(ev["envelope"])
            m = Msg(ev["num"], ev["gen"], sender, recips, ev["msg"], "user", sim.vnow())
            tk = TOKEN_RE.search(ev["msg"])
            if tk:
                m.token = tk.group(1)
                self.tokens[m.token] = m
            self.msgs[m.key()] = m
            self.cur[m.num] = m.gen
        elif k == "start":
            self.generation = ev["generation"]
            self.term_sent = False
            if self.generation > 1:
                self.reload_marks(sim)
        elif k == "signal" and ev["sig"] == "TERM":
            self.term_sent = True
        elif k == "crash":
            self.crashed = True
        elif k == "cmd":
            cmd = ev["cmd"]
            m = self.msg(cmd.num)
            if m is None or m.gone:
                m0 = m
                m = self.discover(cmd.num, sim)
                if m is None and m0 is not None and m0.gone and not self.crashed and cmd.recip in (m0.recips or []):
                    # nobody queued a new message under this number, yet the daemon hands out a recipient of the message that
                    # had left the queue (all of its recipients were finished then): the same message is being delivered again
                    mp = sim.qpath("mess", str(cmd.num % qsim.SPLIT), str(cmd.num))
                    body = b""
                    if os.path.exists(mp):
                        content = qsim.read_noatime(mp)
                        body = content.split(b"\n", 1)[1] if b"\n" in content else b""
                    if body == m0.body:
                        self.res.violate("C04/finished-recipient-attempted-again/message-had-left-the-queue",
                                         "command for %r of message %d, which had been completed and removed earlier in this run" % (cmd.recip, cmd.num),
                                         {"message": cmd.num, "recipient": core.hx(cmd.recip), "events": [
                                             {k: (core.hx(v) if isinstance(v, bytes) else repr(v)[:120]) for k, v in e.items() if k not in ("data", "old", "msg", "envelope")}
                                             for e in sim.events[-40:]]})
            if m is None:
                return
            cmd.gen = m.gen
            self.load_records(m, sim)
            r = self.find_rcpt(m, cmd.chan, cmd.recip, sim)
            ev["msg"] = m
            ev["rcpt"] = r
            if r is not None:
                r.attempts += 1
                r.cmds.append(cmd)
        elif k == "report" and not ev.get("raw"):
            cmd = ev["cmd"]
            m = self.msgs.get((cmd.num, cmd.gen))
            if m is None:
                return
            r = None
            for x in (m.records or {}).get(cmd.chan, []):
                if cmd in x.cmds:
                    r = x
            if r is None:
                return
            t = ev["text"]
            kind = t[:1].decode("latin1") if t[:1] in (b"K", b"Z", b"D") and len(t) >= 1 else "G"
            ev["rcpt"] = r
            ev["msg"] = m
            ev["eff"] = kind
            r.reports.append(kind)
            if kind == "D":
                r.bounce_text = t[1:]
            if kind in ("K", "D"):
                r.finished_gen = self.generation

    def expire_if_dying(self, m, r):
        """A Z answered while the message's job is dying (its latest pass - of either channel: the flag is per
        message - opened when recent > birth + lifetime, computed like the daemon does from the observed info
        mtime) is documented to become a failure.  Applied when the daemon shows that it has processed the
        report: at the mark write, or (when the mark could not be written) when it removes the channel file or
        the message; -> True if the record's latest report was turned from Z into D"""
        if not r.reports or r.reports[-1] != "Z" or m.birth is None:
            return False
        opens = [po[-1] for po in m.pass_open.values() if po]
        if not opens:
            return False
        opened = max(opens, key=lambda x: x[2])[0]
        if opened > m.birth + self.lifetime:
            r.reports[-1] = "D"
            r.bounce_text = b"(expired)"
            r.finished_gen = self.generation
            m.lifetime_hit = True
            return True
        return False

    def find_rcpt(self, m, chan, addr, sim):
        """the channel record a new command refers to.  Within one pass (since the pass-open event,
        class 'o' of the shim) the daemon visits the records in file order, skipping those already
        marked D; a cursor per (message, channel) reproduces that, which also settles envelopes
        that list one address twice."""
        recs = (m.records or {}).get(chan, [])
        cur = m.cursor.get(chan, 0)
        for x in recs:
            if x.idx >= cur and x.addr == addr and not x.marked:
                m.cursor[chan] = x.idx + 1
                return x
        cands = [x for x in recs if x.addr == addr]
        if not cands:
            return None
        for x in cands:          # unexpected (e.g. a finished record attempted again): report against it
            if x.idx >= cur:
                m.cursor[chan] = x.idx + 1
                return x
        return cands[0]

    def reload_marks(self, sim):
        """after a restart the truth about marks is what the files say (a disk variant may have
        reverted un-fsynced mark bytes)"""
        for m in self.msgs.values():
            if m.records is None or m.gone or self.cur.get(m.num) != m.gen:
                continue
            for chan, recs in m.records.items():
                p = self.chanpath(sim, chan, m.num)
                if not os.path.exists(p):
                    continue
                data = qsim.read_noatime(p)
                parsed = parse_chanfile(data, chan)
                for r in recs:
                    if r.idx < len(parsed):
                        was = r.marked
                        r.marked = parsed[r.idx][1] == b"D"
                        if was and not r.marked:
                            r.mark_reverted = True
                        if r.final() and not r.marked:
                            # reported K/D but the mark is not on disk (crash before the mark write, a reverted
                            # un-fsynced mark, or a failed mark write): the new daemon legitimately tries again
                            r.reports.append("R")
                            self.res.counters.inc("records_reopened_at_restart")

    def on_step(self, ev, sim):
        c = ev.get("c")
        p = ev.get("path", "")
        if ev.get("ret", -1) < 0:
            # a failed open-for-writing / write / close on a channel file inside qmail-send is markdone() in trouble
            # ("trouble marking ...; message will be delivered twice!"): the mark may be missing although the report
            # was final, and the next pass over that file legitimately attempts the recipient again
            if ev.get("prog") == "qmail-send" and c in ("open", "write", "close", "lseek") and ev.get("inj"):
                parts = p.replace(" (deleted)", "").split("/")
                if len(parts) >= 3 and parts[0] == "queue" and parts[1] in ("local", "remote"):
                    try:
                        m = self.msg(int(parts[-1]))
                    except ValueError:
                        m = None
                    if m is not None:
                        m.mark_trouble.add("l" if parts[1] == "local" else "r")
            return
        parts = p.replace(" (deleted)", "").split("/")
        if len(parts) < 3 or parts[0] != "queue":
            return
        d = parts[1]
        try:
            num = int(parts[-1])
        except ValueError:
            return
        if c == "openr" and d in ("local", "remote") and ev.get("prog") == "qmail-send":
            m = self.msg(num)
            if m is None or m.gone:
                # a number whose previous holder has left the queue: one of the daemon's own injections reuses it
                m = self.discover(num, sim) or (None if (m is not None and m.gone) else m)
            if m is not None:
                self.load_records(m, sim)
                chan = "l" if d == "local" else "r"
                m.pass_open.setdefault(chan, []).append((sim.vnow(), self.generation, ev["seq"]))
                m.cursor[chan] = 0
                if chan in m.mark_trouble and not m.gone:
                    m.mark_trouble.discard(chan)
                    for r in (m.records or {}).get(chan, []):
                        if r.final() and not r.marked:
                            r.reports.append("R")
                            self.res.counters.inc("records_reopened_after_failed_mark")
        elif c == "write" and d in ("local", "remote") and ev.get("len") == 1 and ev.get("data") == "44":
            m = self.msg(num)
            if m is None:
                return
            self.load_records(m, sim)
            chan = "l" if d == "local" else "r"
            for r in (m.records or {}).get(chan, []):
                if r.off == ev.get("off"):
                    r.marked = True
                    r.mark_seq = ev["seq"]
                    ev["rcpt"] = r
                    ev["msg"] = m
                    ev["last_report_before_mark"] = r.reports[-1] if r.reports else None
                    if self.expire_if_dying(m, r):
                        ev["expired"] = True
        elif c == "unlink" and d == "info" and ev.get("role", "").startswith("send"):
            m = self.msg(num)
            if m is not None and m.records is not None:
                m.gone = True
                m.eliminating = True
        elif c == "unlink" and d == "todo":
            m = self.msg(num)
            if m is None:
                m = self.discover(num, sim)
            if m is not None:
                self.load_records(m, sim)
        elif c == "utime" and d in ("local", "remote"):
            pass
