"""A tiny DNS responder on 127.0.0.1:53 (the sandbox's resolv.conf names that address): every A query is
answered with the configured addresses, everything else with an empty NOERROR answer.  Lets a check give
qmail-remote a destination with several addresses (seed c06-s8)."""
import socket
import struct
import threading


class Stub:
    def __init__(self, addrs=("127.0.0.1", "127.0.0.2")):
        self.addrs = addrs
        self.sock = socket.socket(socket.AF_INET, socket.SOCK_DGRAM)
        self.sock.bind(("127.0.0.1", 53))        # OSError if the port is taken: the caller skips its part
        self.sock.settimeout(0.3)
        self.queries = 0
        self.stop = False
        self.thread = threading.Thread(target=self._serve, daemon=True)
        self.thread.start()

    def _serve(self):
        while not self.stop:
            try:
                q, peer = self.sock.recvfrom(2048)
            except socket.timeout:
                continue
            except OSError:
                return
            if len(q) < 12:
                continue
            self.queries += 1
            # question section: name, type, class
            p = 12
            while p < len(q) and q[p] != 0:
                p += 1 + q[p]
            qend = p + 5
            if qend > len(q):
                continue
            qtype = struct.unpack(">H", q[p + 1:p + 3])[0]
            answers = b""
            n = 0
            if qtype == 1:
                first = q[13:13 + q[12]].lower() if len(q) > 13 else b""
                # names starting with the label "refused": the first address is one nobody listens on
                for a in ((("127.0.0.3",) + tuple(self.addrs[1:])) if first == b"refused" else self.addrs):
                    answers += b"\xc0\x0c" + struct.pack(">HHIH", 1, 1, 60, 4) + socket.inet_aton(a)
                    n += 1
            hdr = q[:2] + struct.pack(">HHHHH", 0x8580, 1, n, 0, 0)
            try:
                self.sock.sendto(hdr + q[12:qend] + answers, peer)
            except OSError:
                pass

    def close(self):
        self.stop = True
        try:
            self.sock.close()
        except OSError:
            pass
