"""Workload generator for C07 (DESIGN.md section 3, C07).

A *case* is one connection to one daemon, described by a plain dict (picklable, JSON-able
through case_to_json):

  daemon   'smtpd' | 'qmtpd' | 'qmqpd'
  cls      workload class (stable name, used in evidence and in violation keys)
  chunks   smtpd only: list of chunk dicts {k: greet-less SMTP unit, raw: bytes, ...}; the
           wire is the concatenation of the raws
  wire     qmtpd/qmqpd (and model-free smtpd cases): the client byte stream
  cut      None, or the number of bytes after which the client disconnects
  env      {name: bytes}: TCPREMOTEIP/TCPREMOTEHOST/TCPREMOTEINFO/TCPLOCALHOST/TCPLOCALIP,
           RELAYCLIENT, DATABYTES (absent key = variable not set)
  ctl_db   None or int: content of control/databytes
  plan     NQV_QQ_PLAN for the queue stand-in: 'tee' (real qmail-queue behind it) or a side-B plan
  nofile   optional: RLIMIT_NOFILE for the daemon (resource trouble: pipe()/open() fail)
  shim     None or an NQV_PLAN fault for the real qmail-queue (tee only)
  modelfree True: only the model-free part of the oracle applies (random byte corruption)

The generators know nothing about the daemons' code.  What a case *means* (expected envelope,
body, verdict) is decided by the oracle in checks/c07.py from the chunks (SMTP: the intended
addresses and decoded bodies are recorded in the chunks by construction) or by the strict
netstring reading of the wire (refmodel/netstring.py)."""
from .refmodel.netstring import enc as ns
from .refmodel import smtpdata

ME = "local.test"
RCPTHOSTS = ["local.test", ".a.test"]

MONTHS = ["Jan", "Feb", "Mar", "Apr", "May", "Jun", "Jul", "Aug", "Sep", "Oct", "Nov", "Dec"]
ALNUM = b"abcdefghijklmnopqrstuvwxyzABCDEFGHIJKLMNOPQRSTUVWXYZ0123456789"

# recipients with a documented verdict under RCPTHOSTS (qmail-smtpd(8)): listed host, wildcard
# sub-domain, no @ sign => allowed; anything else => refused unless RELAYCLIENT is set
RCPT_ALLOWED = [b"u@local.test", b"v@sub.a.test", b"noat", b"W@LOCAL.TEST", b"x.y+z=q@deep.er.a.test",
                b"postmaster@Local.Test", b"a-b_c@sub.a.test"]
RCPT_FOREIGN = [b"w@other.net", b"u@local.test.evil.example", b"x@xa.test"]
SENDERS = [b"s@x.test", b"", b"bounce-1=u=local.test@lists.example", b"S@EXAMPLE.ORG", b"a+b@c.d.e"]

WORDS = [b"lorem", b"ipsum", b"dolor", b"sit", b"amet", b"the", b"message", b"said", b"From", b"to", b"re:",
         b".", b"..", b".hidden", b"...", b"x", b"Received:", b"received: in the body", b"Delivered-To: nobody",
         b"\xe9t\xe9", b"\xff\xfe", b"nul\0byte", b"tab\there", b">From", b"bare\rcr", b"--", b"=20"]
BANNED_LINE_STARTS = (b"rcpt", b"mail", b"data", b"quit", b"helo", b"ehlo", b"rset", b"help", b"noop", b"vrfy")


def randcase(rng, s):
    return bytes((c ^ 0x20) if (65 <= c <= 90 or 97 <= c <= 122) and rng.random() < 0.5 else c for c in s)


def hop_field(rng):
    if rng.random() < 0.6:
        name = randcase(rng, b"Received")
        val = b"from h%d.example (HELO x) (10.0.0.%d)\n  by mx%d.example with SMTP; %d %s 2026 0%d:00:00 -0000" % (
            rng.randrange(1000), rng.randrange(256), rng.randrange(9), rng.randrange(1, 29),
            rng.choice(MONTHS).encode(), rng.randrange(10))
        if rng.random() < 0.5:
            val = b"(qmail %d invoked by uid %d); 1 Jan 2026 00:00:00 -0000" % (rng.randrange(1, 30000), rng.randrange(2000))
    else:
        name = randcase(rng, b"Delivered-To")
        val = b"user%d@local.test" % rng.randrange(1000)
    sep = rng.choice([b": ", b":", b":\t"])
    return name + sep + val + b"\n"


def other_field(rng):
    return rng.choice([b"Subject: test %d\n", b"X-Loop: %d\n", b"Message-ID: <%d@x.test>\n", b"To: someone%d@local.test\n",
                       b"X-Received-By: decoy %d\n", b"Re-ceived: decoy %d\n", b"X-Delivered-To: decoy%d\n",
                       b"Receive: decoy %d\n", b"Deliver-To: decoy %d\n",
                       b"Comments: folded\n Received: not a field %d\n"]) % rng.randrange(100000)


def text_lines(rng, nbytes):
    """about nbytes of body text, LF-terminated lines, never a line that could act as an SMTP
    verb (a refused DATA makes the server read the body as commands; the oracle then expects
    exactly one reply per line), never the '. CR' family the SMTP statement leaves ambiguous"""
    out = bytearray()
    while len(out) < nbytes:
        n = rng.randrange(0, 9)
        line = b" ".join(rng.choice(WORDS) for _ in range(n))
        if line[:4].lower() in BANNED_LINE_STARTS or line.startswith(b".\r"):
            line = b"x" + line
        out += line + b"\n"
    return bytes(out)


def make_body(rng, hops=None, size=None, decoys=None):
    """decoded message (LF line ends).  hops: exact number of Received/Delivered-To header
    fields; size: exact total length in bytes (None = whatever comes out)."""
    if hops is None:
        hops = rng.choice([0, 0, 1, 2, 5])
    if decoys is None:
        decoys = rng.random() < 0.3
    fields = [hop_field(rng) for _ in range(hops)]
    for _ in range(rng.randrange(0, 4)):
        fields.insert(rng.randrange(0, len(fields) + 1), other_field(rng))
    head = b"".join(fields)
    body = b""
    if decoys:
        body += b"".join(hop_field(rng) for _ in range(rng.choice([1, 3, 120])))
    body += text_lines(rng, rng.choice([0, 10, 60, 300]))
    if size is None:
        if rng.random() < 0.1:
            return head                     # header only, no blank line
        return head + b"\n" + body
    # exact size: header + blank line + filler
    base = head + b"\n"
    if len(base) > size:
        # cannot fit the header: fall back to a header-less block of the right size
        return filler(rng, size)
    return base + filler(rng, size - len(base))


def filler(rng, n):
    """exactly n bytes of LF-terminated lines (last line may lack the LF when n is tiny)"""
    out = bytearray()
    while len(out) < n:
        room = n - len(out)
        l = min(room, rng.randrange(1, 78))
        if l == 1:
            out += b"\n"
        else:
            out += bytes(rng.choice(ALNUM) for _ in range(l - 1)) + b"\n"
    return bytes(out)


def long_addr(rng, n, domain=b"@local.test"):
    """address of exactly n bytes ending in the given domain (n > len(domain))"""
    if n <= len(domain):
        return bytes(rng.choice(ALNUM) for _ in range(n))
    return bytes(rng.choice(ALNUM) for _ in range(n - len(domain))) + domain


HOSTILE_TOKENS = [b"(", b")", b"\n", b"\r\n", b" ", b"\t", b"\\", b"\"", b"<", b">", b",", b";", b"\x7f", b"\x80",
                  b"\xff", b"\x01", b"\x1b[31m", b")\n  by evil with ESMTP; 1 Jan 1970 00:00:00 -0000\nX-Injected: (",
                  b"a@b", b"[1.2.3.4]", b"%", b"+", b"/", b"=", b":", b"-", b"_", b"!", b"#", b"$", b"&", b"'", b"*",
                  b"^", b"`", b"{", b"|", b"}", b"~", b"?"]


def hostile_string(rng, allow_lf=True, maxlen=80):
    """arbitrary peer-controlled bytes (no NUL: environment values and command arguments end there)"""
    out = bytearray()
    for _ in range(rng.randrange(0, 8)):
        r = rng.random()
        if r < 0.45:
            out += rng.choice(HOSTILE_TOKENS)
        elif r < 0.75:
            out += bytes(rng.choice(ALNUM + b".-") for _ in range(rng.randrange(1, 12)))
        else:
            out += bytes(rng.randrange(1, 256) for _ in range(rng.randrange(1, 6)))
    out = bytes(out[:maxlen])
    if not allow_lf:
        out = out.replace(b"\n", b"?")
    return out


def peer_env(rng, hostile):
    env = {}
    if not hostile:
        env["TCPREMOTEIP"] = b"192.0.2.%d" % rng.randrange(1, 255)
        if rng.random() < 0.7:
            env["TCPREMOTEHOST"] = rng.choice([b"client.example", b"mx1.peer.test", b"localhost"])
        if rng.random() < 0.3:
            env["TCPREMOTEINFO"] = rng.choice([b"joe", b"root", b"7"])
        if rng.random() < 0.8:
            env["TCPLOCALHOST"] = b"mx.local.test"
        elif rng.random() < 0.5:
            env["TCPLOCALIP"] = b"192.0.2.1"
        return env
    for k in ("TCPREMOTEIP", "TCPREMOTEHOST", "TCPREMOTEINFO", "TCPLOCALHOST", "TCPLOCALIP"):
        r = rng.random()
        if r < 0.6:
            env[k] = hostile_string(rng)
        elif r < 0.8:
            env[k] = b"plain.example"
    return env


# ---------------------------------------------------------------- queue plans (side B)

def exit_plan(n):
    return "exit=%d" % n


def err_text(rng):
    """custom error texts of the documented interface: first byte D or Z, then anything (no NUL,
    CR, LF: the text travels in an environment variable and inside one SMTP reply line), any
    length including > 255; plus texts of at most two bytes"""
    r = rng.random()
    if r < 0.2:
        return rng.choice(["", "D", "Z", "Dx", "Zx", "x", "xy", "K", "Kx"])
    first = rng.choice("DZ")
    n = rng.choice([2, 3, 10, 40, 254, 255, 256, 300, 1000])
    rest = bytes(rng.choice(b"abcdefghij klmnopqrstuvwxyz(#5.7.1)-.:,;") if rng.random() < 0.9 else
                 rng.choice([9, 27, 0x7f, 0x80, 0xff, 0x22, 0x25]) for _ in range(n))
    return first + rest.decode("latin1")


SIDE_B_SIGNALS = [6, 9, 11, 15, 13, 8]


# ---------------------------------------------------------------- SMTP

def cmdline(rng, text):
    return text + (b"\n" if rng.random() < 0.08 else b"\r\n")


def c_helo(rng, arg, verb=None):
    verb = verb or rng.choice([b"HELO", b"EHLO", b"helo", b"Ehlo"])
    return {"k": "helo", "arg": arg, "raw": cmdline(rng, verb + b" " + arg)}


def c_mail(rng, addr):
    form = rng.choice([b"MAIL FROM:<%s>", b"MAIL FROM:<%s>", b"mail from:<%s>", b"MAIL FROM: <%s>", b"MAIL FROM:<%s> BODY=8BITMIME"])
    return {"k": "mail", "addr": addr, "raw": cmdline(rng, form % addr)}


def c_rcpt(rng, addr):
    form = rng.choice([b"RCPT TO:<%s>", b"RCPT TO:<%s>", b"rcpt to:<%s>", b"RCPT TO: <%s>"])
    return {"k": "rcpt", "addr": addr, "raw": cmdline(rng, form % addr)}


def c_simple(rng, k):
    verb = {"data": b"DATA", "rset": b"RSET", "noop": b"NOOP", "quit": b"QUIT"}[k]
    if rng.random() < 0.2:
        verb = verb.lower()
    return {"k": k, "raw": cmdline(rng, verb)}


def c_body(decoded, raw=None):
    """message block after DATA.  decoded must consist of LF-terminated lines (a missing final
    LF is supplied: SMTP cannot transmit an unterminated last line)"""
    if decoded and not decoded.endswith(b"\n"):
        decoded += b"\n"
    return {"k": "body", "decoded": decoded, "raw": raw if raw is not None else smtpdata.ref_encode(decoded)}


def smtp_txn(rng, sender, rcpts, body, rset_first=False):
    ch = []
    if rset_first:
        ch.append(c_simple(rng, "rset"))
    ch.append(c_mail(rng, sender))
    for r in rcpts:
        ch.append(c_rcpt(rng, r))
    if rng.random() < 0.1:
        ch.append(c_simple(rng, "noop"))
    ch.append(c_simple(rng, "data"))
    ch.append(c_body(body))
    return ch


def pick_rcpts(rng, relay, n=None):
    n = n if n is not None else rng.choice([1, 1, 2, 3, 6])
    out = []
    for _ in range(n):
        if rng.random() < 0.25:
            out.append(rng.choice(RCPT_FOREIGN))
        else:
            out.append(rng.choice(RCPT_ALLOWED))
    if relay is None and all(r in RCPT_FOREIGN for r in out) and rng.random() < 0.7:
        out[rng.randrange(len(out))] = rng.choice(RCPT_ALLOWED)
    return out


def pick_relay(rng):
    return rng.choice([None, None, None, b"", b"@relay.test", b".via.relay.test"])


# wire lines a conforming sender would not produce but a server must still account for byte by byte
SIZE_GADGETS = [b".\rx\r\n", b".\rxyz\r\n", b".\r\rx\r\n", b"..\r\n", b"..x\r\n", b".x\r\n", b"\rx\r\n", b"x\r\r\n", b"\r\r\n",
                b"ab\rcd\r\n", b"...\r\n", b".\r.\r\n"]


def base_case(daemon, cls, rng, hostile_peer=False):
    c = {"daemon": daemon, "cls": cls, "cut": None, "env": peer_env(rng, hostile_peer), "ctl_db": None,
         "plan": "tee", "shim": None, "modelfree": False}
    relay = pick_relay(rng)
    if relay is not None:
        c["env"]["RELAYCLIENT"] = relay
    return c


def set_databytes(rng, c, d):
    """make d the effective limit, through the control file, $DATABYTES, or both (the
    environment variable overrides the file)"""
    r = rng.random()
    if r < 0.4:
        c["ctl_db"] = d
    elif r < 0.7:
        c["env"]["DATABYTES"] = b"%d" % d
    elif r < 0.85:
        c["ctl_db"] = rng.choice([1, d + 7, max(1, d - 7), 5, 1000000])
        c["env"]["DATABYTES"] = b"%d" % d
    else:
        c["ctl_db"] = rng.choice([1, 10])
        c["env"]["DATABYTES"] = b"0"      # limit switched off by the environment
        return 0
    return d


def gen_smtp(rng, cls):
    c = base_case("smtpd", cls, rng, hostile_peer=(cls == "peer"))
    relay = c["env"].get("RELAYCLIENT")
    ch = []
    if cls == "peer" or rng.random() < 0.6:
        arg = hostile_string(rng, allow_lf=False).lstrip(b" ").rstrip(b"\r") if cls == "peer" else \
            rng.choice([b"client.example", b"[192.0.2.9]", b"x", b"CLIENT.EXAMPLE"])
        if arg.strip(b" ") == b"" and cls == "peer":
            arg = b"h(" + arg
        ch.append(c_helo(rng, arg))
    ntx = rng.choice([1, 1, 2, 3])
    if cls in ("plain", "peer", "tee-fault"):
        for t in range(ntx):
            ch += smtp_txn(rng, rng.choice(SENDERS), pick_rcpts(rng, relay), make_body(rng), rset_first=(t > 0 and rng.random() < 0.3))
    elif cls == "size":
        d = rng.choice([1, 2, 10, 64, 255, 256, 1000, 1023, 1024, 1025, 4096, 70000])
        eff = set_databytes(rng, c, d)
        for t in range(ntx):
            n = max(0, d + rng.choice([-1, 0, 1, 1, 2, -1, 0, 100]))
            body = make_body(rng, hops=rng.choice([0, 1]), size=n, decoys=False)
            ch += smtp_txn(rng, rng.choice(SENDERS), pick_rcpts(rng, relay), body)
    elif cls == "sizewire":
        # the size limit meets the decoder: a non-canonical line (bare CR, dot + CR, stuffed dot, CR CR LF) starts
        # exactly at, just before or just after the last permitted byte
        d = rng.choice([1, 2, 10, 50, 64, 255, 256, 1000, 1023, 1024, 1025])
        set_databytes(rng, c, d)
        for t in range(ntx):
            n0 = max(0, d + rng.choice([-3, -2, -1, 0, 0, 0, 1]))
            pre = make_body(rng, hops=0, size=n0, decoys=False) if n0 else b""
            if pre and not pre.endswith(b"\n"):
                pre = pre[:-1] + b"\n"
            g = rng.choice(SIZE_GADGETS)
            tail = filler(rng, rng.choice([0, 0, 1, 2, 40, 200]))
            raw = smtpdata.ref_encode(pre)[:-3] + g + smtpdata.ref_encode(tail)
            r1 = smtpdata.ref_decode(raw)
            r2 = smtpdata.ref_decode(raw, keepdot=True)
            assert r1[0] == "ok" and r2[0] == "ok" and r1[2] == len(raw), (raw, r1)
            ch += smtp_txn(rng, rng.choice(SENDERS), pick_rcpts(rng, relay), r1[1])
            ch[-1] = c_body(r1[1], raw=raw)
            if r2[1] != r1[1]:
                ch[-1]["decoded_alt"] = r2[1]
    elif cls == "hops":
        for t in range(ntx):
            h = rng.choice([98, 99, 100, 101, 99, 100, 150])
            ch += smtp_txn(rng, rng.choice(SENDERS), pick_rcpts(rng, relay), make_body(rng, hops=h))
    elif cls == "addrlen":
        # SMTP's own limit is near 900; with a RELAYCLIENT suffix the queue's limit (documented
        # 1000, see qmail-limits) comes into reach
        if rng.random() < 0.5:
            n = rng.choice([897, 898, 899, 900, 901, 902, 1500, 3000])
            suffix = rng.choice([None, b"", b"@r.test"])
        else:
            n = rng.choice([880, 890, 899])
            total = rng.choice([999, 1000, 1001, 1002, 1003, 1004, 1005, 1100])
            suffix = b"@" + bytes(rng.choice(ALNUM) for _ in range(total - n - 1))
        if suffix is None:
            c["env"].pop("RELAYCLIENT", None)
        else:
            c["env"]["RELAYCLIENT"] = suffix
        relay = c["env"].get("RELAYCLIENT")
        where = rng.choice(["sender", "rcpt", "rcpt", "rcpt-only"])
        for t in range(ntx):
            sender = rng.choice(SENDERS)
            rcpts = pick_rcpts(rng, relay, n=rng.choice([1, 2]))
            if t == ntx - 1:
                if where == "sender":
                    sender = long_addr(rng, n, b"@x.test")
                elif where == "rcpt":
                    rcpts.insert(rng.randrange(len(rcpts) + 1), long_addr(rng, n))
                else:
                    rcpts = [long_addr(rng, n)]
            ch += smtp_txn(rng, sender, rcpts, make_body(rng))
    elif cls == "nul":
        where = rng.choice(["sender", "rcpt", "rcpt", "body", "both"])
        sender = rng.choice(SENDERS)
        rcpts = pick_rcpts(rng, relay, n=rng.choice([1, 2]))
        body = make_body(rng)
        if where in ("sender", "both"):
            sender = rng.choice([b"a\0b@x.test", b"\0", b"s@x.test\0", b"s\0@x.test\0\0", b"u@local.test\0@evil.example"])
        if where in ("rcpt", "both"):
            rcpts.insert(rng.randrange(len(rcpts) + 1),
                         rng.choice([b"u\0v@local.test", b"u@local.test\0@other.net", b"w@other.net\0@local.test",
                                     b"\0u@local.test", b"noat\0", b"u@local.test\0"]))
        if where == "body":
            body = b"Subject: nul\0in header\n\n\0\0\0\nline\0\n" + body
        ch += smtp_txn(rng, sender, rcpts, body)
    elif cls == "barelf":
        body = make_body(rng)
        raw = smtpdata.ref_encode(body if body.endswith(b"\n") else body + b"\n")
        pos = [i for i in range(len(raw) - 3) if raw[i:i + 2] == b"\r\n"]
        if pos:
            p = rng.choice(pos)
            raw = raw[:p] + raw[p + 1:]          # CR LF -> bare LF
        else:
            raw = b"bare\n" + raw
        ch += [c_mail(rng, rng.choice(SENDERS))] + [c_rcpt(rng, r) for r in pick_rcpts(rng, relay)] + [c_simple(rng, "data")]
        b = c_body(body, raw=raw)
        b["barelf"] = True
        ch.append(b)
        ch += smtp_txn(rng, b"after@x.test", [b"u@local.test"], b"never\n")   # must not be executed
    else:
        raise ValueError(cls)
    ch.append(c_simple(rng, "quit"))
    c["chunks"] = ch
    return c


def smtp_wire(c):
    return b"".join(x["raw"] for x in c["chunks"])


# ---------------------------------------------------------------- QMTP / QMQP

def compensated_length(rng, n):
    """a length field that is NOT a decimal number but which a naive 'len = 10*len + (c-'0')'
    reader evaluates to n (defect family F4).  Returns None when none exists for n."""
    cands = []
    for c in list(range(0x21, 0x30)) + list(range(0x3b, 0x7f)):
        rem = n - (c - 0x30)
        if rem >= 0 and rem % 10 == 0:
            cands.append(b"%d" % (rem // 10) + bytes([c]) if rem else bytes([c]))
        # non-digit in front: value (c-'0')*10^k + digits
        for digits in (b"%d" % (n % 10), b"%02d" % (n % 100)):
            k = len(digits)
            if (c - 0x30) * 10 ** k + int(digits) == n:
                cands.append(bytes([c]) + digits)
    cands = [x for x in cands if x and not x.isdigit()]
    return rng.choice(cands) if cands else None


def bad_netstring(rng, data, kind):
    n = len(data)
    if kind == "compensated":
        l = compensated_length(rng, n)
        if l is None:
            l = b"%d/" % ((n + 1) // 10) if (n + 1) % 10 == 0 else b"x%d" % n
        return l + b":" + data + b","
    if kind == "nondigit":
        l = rng.choice([b"%dx" % n, b"x%d" % n, b" %d" % n, b"%d " % n, b"+%d" % n, b"-%d" % n, b"0x%x" % n, b"%d.0" % n,
                        b"%d\0" % n, b"\xb9", b"%de0" % n, b"/", b"n"])
        return l + b":" + data + b","
    if kind == "empty":
        return b":" + data + b","                 # lenient only when data is empty
    if kind == "leadzero":
        return b"0" * rng.choice([1, 2, 30]) + b"%d:" % n + data + b","
    if kind == "huge":
        return rng.choice([b"200000001", b"99999999999999999999", b"4294967296", b"18446744073709551616",
                           b"18446744073709551617", b"%d" % (2 ** 64 + n), b"%d" % (2 ** 32 + n), b"9" * 39]) + b":" + data + b","
    if kind == "comma":
        return b"%d:" % n + data + rng.choice([b"", b";", b".", b" ", b"\0", b"\n", b":"])
    if kind == "short":       # stated length smaller than the data
        return b"%d:" % max(0, n - rng.choice([1, 2, 5])) + data + b","
    if kind == "long":        # stated length larger than the data
        return b"%d:" % (n + rng.choice([1, 2, 5])) + data + b","
    raise ValueError(kind)


BAD_KINDS = ["compensated", "compensated", "nondigit", "empty", "leadzero", "huge", "comma", "short", "long"]


def qmtp_message(rng, body, dos=None):
    dos = rng.random() < 0.3 if dos is None else dos
    if dos:
        return b"\r" + body.replace(b"\n", b"\r\n")
    return b"\n" + body


def qmtp_pkg(rng, body, sender, rcpts, dos=None, bad=None):
    """bad = (field, kind): field in message/sender/recipients/recipient"""
    parts = [qmtp_message(rng, body, dos), sender]
    encs = [ns(parts[0]), ns(parts[1])]
    rl = [ns(r) for r in rcpts]
    if bad and bad[0] == "recipient" and rcpts:
        i = rng.randrange(len(rcpts))
        rl[i] = bad_netstring(rng, rcpts[i], bad[1])
    rblob = b"".join(rl)
    encs.append(ns(rblob))
    if bad and bad[0] == "message":
        encs[0] = bad_netstring(rng, parts[0], bad[1])
    elif bad and bad[0] == "sender":
        encs[1] = bad_netstring(rng, parts[1], bad[1])
    elif bad and bad[0] == "recipients":
        encs[2] = bad_netstring(rng, rblob, bad[1])
    return b"".join(encs)


def qmqp_pkg(rng, body, sender, rcpts, bad=None):
    encs = [ns(body), ns(sender)] + [ns(r) for r in rcpts]
    if bad and bad[0] == "message":
        encs[0] = bad_netstring(rng, body, bad[1])
    elif bad and bad[0] == "sender":
        encs[1] = bad_netstring(rng, sender, bad[1])
    elif bad and bad[0] == "recipient" and rcpts:
        i = 2 + rng.randrange(len(rcpts))
        encs[i] = bad_netstring(rng, rcpts[i - 2], bad[1])
    blob = b"".join(encs)
    if bad and bad[0] == "recipients":       # the outer frame
        return bad_netstring(rng, blob, bad[1])
    return ns(blob)


def n_addr(rng, cls, relay):
    """(sender, rcpts) for the netstring daemons"""
    sender = rng.choice(SENDERS)
    rcpts = pick_rcpts(rng, relay)
    return sender, rcpts


def gen_ns(rng, daemon, cls):
    c = base_case(daemon, cls, rng, hostile_peer=(cls == "peer"))
    if daemon == "qmqpd":
        c["env"].pop("RELAYCLIENT", None)
    relay = c["env"].get("RELAYCLIENT")
    npk = 1 if daemon == "qmqpd" else rng.choice([1, 1, 2, 3, 5])
    pk = []
    trailer = b""

    def mk(body, sender, rcpts, dos=None, bad=None):
        if daemon == "qmtpd":
            return qmtp_pkg(rng, body, sender, rcpts, dos, bad)
        return qmqp_pkg(rng, body, sender, rcpts, bad)

    if cls in ("plain", "peer", "tee-fault"):
        for _ in range(npk):
            s, r = n_addr(rng, cls, relay)
            if rng.random() < 0.05:
                r = []
            pk.append(mk(make_body(rng), s, r))
        if daemon == "qmqpd" and rng.random() < 0.2:
            trailer = rng.choice([b"x", ns(b"more"), b"\0" * 10])
    elif cls == "size":
        d = rng.choice([1, 2, 10, 64, 255, 256, 1000, 1023, 1024, 1025, 4096, 70000])
        set_databytes(rng, c, d)
        for _ in range(npk):
            n = max(0, d + rng.choice([-1, 0, 1, 1, 2, -1, 0, 100]))
            s, r = n_addr(rng, cls, relay)
            body = make_body(rng, hops=rng.choice([0, 1]), size=n, decoys=False)
            if rng.random() < 0.3 and n >= 2:
                # CR that is not part of CR LF is stored, CR LF is stored as LF: sizes count stored bytes
                body = body[:-2] + rng.choice([b"\r\n", b"\rx", b"x\r"])
            pk.append(mk(body, s, r, dos=rng.random() < 0.5))
    elif cls == "hops":
        for _ in range(npk):
            s, r = n_addr(rng, cls, relay)
            pk.append(mk(make_body(rng, hops=rng.choice([99, 100, 101, 150])), s, r))
    elif cls == "addrlen":
        sl = len(relay) if relay else 0
        for t in range(npk):
            s, r = n_addr(rng, cls, relay)
            if t == npk - 1 or rng.random() < 0.3:
                n = rng.choice([998, 999, 1000, 1001, 1002, 1003, 1004, 1005, 1500, 2000, 5000])
                if rng.random() < 0.35:
                    s = long_addr(rng, n, b"@x.test")
                else:
                    n2 = max(1, n - sl) if rng.random() < 0.7 else n
                    r.insert(rng.randrange(len(r) + 1), long_addr(rng, n2))
            pk.append(mk(make_body(rng), s, r))
    elif cls == "nul":
        for t in range(npk):
            s, r = n_addr(rng, cls, relay)
            body = make_body(rng)
            w = rng.choice(["sender", "rcpt", "rcpt", "body", "both"])
            if w in ("sender", "both"):
                s = rng.choice([b"a\0b@x.test", b"\0", b"s@x.test\0", b"\0\0\0"])
            if w in ("rcpt", "both"):
                r.insert(rng.randrange(len(r) + 1), rng.choice([b"u\0v@local.test", b"u@local.test\0", b"\0", b"\0u@local.test",
                                                                b"u@local.test\0@other.net"]))
            if w == "body":
                body = b"Subject: nul\0\n\n\0\0\nx\0\n" + body
            pk.append(mk(body, s, r))
    elif cls == "framing":
        for t in range(npk):
            s, r = n_addr(rng, cls, relay)
            bad = None
            if t == npk - 1 or rng.random() < 0.2:
                bad = (rng.choice(["message", "sender", "recipients", "recipient", "recipient"]), rng.choice(BAD_KINDS))
                if bad[1] == "empty" and rng.random() < 0.6:
                    # empty length in front of empty data: the lenient reading
                    if bad[0] == "sender":
                        s = b""
                    elif bad[0] == "recipient":
                        r = [b""]
                    elif bad[0] == "recipients":
                        r = []
            pk.append(mk(make_body(rng, hops=0), s, r, bad=bad))
    else:
        raise ValueError(cls)
    c["wire"] = b"".join(pk) + trailer
    return c


# ---------------------------------------------------------------- derived cases

def mutate_bytes(rng, wire):
    b = bytearray(wire)
    for _ in range(rng.randrange(1, 4)):
        if not b:
            break
        k = rng.randrange(5)
        p = rng.randrange(len(b))
        if k == 0:
            b[p] = rng.choice(b"/:,0a9\n \r.\0<>@")
        elif k == 1:
            b[p] = rng.randrange(256)
        elif k == 2:
            del b[p:p + rng.randrange(1, 4)]
        elif k == 3:
            b[p:p] = rng.choice([b":", b",", b"0", b"\r\n", b".\r\n", b"DATA\r\n", b"\0", b"9", b"/"])
        else:
            q = min(len(b), p + rng.randrange(1, 30))
            b[p:p] = b[p:q]
    return bytes(b)


def side_b_body(rng, big):
    if big:
        return b"Subject: big\n\n" + filler(rng, 100000 + rng.randrange(5000))
    return make_body(rng, hops=rng.choice([0, 1]), decoys=False)


def gen_side_b(rng, daemon, plan, big=False):
    """one simple, otherwise acceptable message against a queue program that follows `plan`"""
    c = base_case(daemon, "qq-plan", rng)
    c["plan"] = plan
    relay = c["env"].get("RELAYCLIENT")
    if daemon == "qmqpd":
        c["env"].pop("RELAYCLIENT", None)
        relay = None
    sender = rng.choice(SENDERS)
    rcpts = [rng.choice(RCPT_ALLOWED) for _ in range(rng.choice([1, 2, 3]))]
    body = side_b_body(rng, big)
    if daemon == "smtpd":
        ch = smtp_txn(rng, sender, rcpts, body)
        if rng.random() < 0.5 and not big:
            ch += smtp_txn(rng, rng.choice(SENDERS), [rng.choice(RCPT_ALLOWED)], side_b_body(rng, False))
        ch.append(c_simple(rng, "quit"))
        c["chunks"] = ch
    elif daemon == "qmtpd":
        w = qmtp_pkg(rng, body, sender, rcpts)
        if rng.random() < 0.5 and not big:
            w += qmtp_pkg(rng, side_b_body(rng, False), rng.choice(SENDERS), [rng.choice(RCPT_ALLOWED)])
        c["wire"] = w
    else:
        c["wire"] = qmqp_pkg(rng, body, sender, rcpts)
    return c


def wire_of(c):
    return smtp_wire(c) if "chunks" in c else c["wire"]


# ---------------------------------------------------------------- (de)serialisation for replay files

def case_to_json(c):
    def enc(v):
        if isinstance(v, bytes):
            return {"hex": v.hex()}
        if isinstance(v, dict):
            return {k: enc(x) for k, x in v.items()}
        if isinstance(v, (list, tuple)):
            return [enc(x) for x in v]
        return v
    return enc(c)


def case_from_json(j):
    def dec(v):
        if isinstance(v, dict):
            if set(v.keys()) == {"hex"}:
                return bytes.fromhex(v["hex"])
            return {k: dec(x) for k, x in v.items()}
        if isinstance(v, list):
            return [dec(x) for x in v]
        return v
    return dec(j)
